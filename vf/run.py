"""Runner: /verif/check <ID> [--tier quick|thorough] [--replay <file>]

exit 0: property held on everything explored (KNOWN-FINDING lines allowed)
exit 1: VIOLATION property=<ID> replay=<path>
exit 2: harness error (never a verdict)
"""
import argparse
import importlib
import json
import os
import subprocess
import sys
import time
import traceback

VERIF = os.path.dirname(os.path.dirname(os.path.abspath(__file__)))
if VERIF not in sys.path:
    sys.path.insert(0, VERIF)

from vf import engine  # noqa: E402

SCHEMA = "/root/.vp/EVIDENCE.schema.json"


def load_known():
    """KNOWN_FINDINGS.txt: 'open: property=<ID> sig=<signature> <text>' suppresses exactly that
    signature; 'fixed:' lines suppress nothing.  Never written at run time."""
    known = {}
    p = os.path.join(VERIF, "KNOWN_FINDINGS.txt")
    if os.path.exists(p):
        for line in open(p):
            line = line.strip()
            if not line.startswith("open:"):
                continue
            parts = line[5:].split(None, 2)
            if len(parts) < 2 or not parts[0].startswith("property=") or not parts[1].startswith("sig="):
                continue
            pid = parts[0][9:]
            sig = parts[1][4:]
            known.setdefault(pid, {})[sig] = parts[2] if len(parts) > 2 else ""
    return known


def validate_evidence(path):
    code = ("import json,jsonschema,sys;"
            "jsonschema.validate(json.load(open(sys.argv[1])), json.load(open(sys.argv[2])))")
    for py in ("python3-vt", "/opt/veriftools/pyvenv/bin/python"):
        try:
            r = subprocess.run([py, "-c", code, path, SCHEMA], capture_output=True, text=True, timeout=60)
        except (OSError, subprocess.TimeoutExpired):
            continue
        if r.returncode != 0:
            print("HARNESS-ERROR: evidence file does not validate:\n" + r.stderr[-2000:])
            return False
        return True
    return True  # no validator available: nothing to say


def main(argv=None):
    ap = argparse.ArgumentParser()
    ap.add_argument("pid")
    ap.add_argument("--tier", default=os.environ.get("VERIF_TIER") or "quick", choices=["quick", "thorough"])
    ap.add_argument("--replay")
    ap.add_argument("--seed", type=int, default=None)
    ap.add_argument("--only", default=None, help="run only the named part(s) of the check (debugging; no evidence)")
    args = ap.parse_args(argv)
    pid = args.pid.upper()
    try:
        seed = args.seed if args.seed is not None else int(os.environ.get("VERIF_SEED") or 0)
    except ValueError:
        seed = 0
    t0 = time.time()
    try:
        mod = importlib.import_module("vf.props." + pid.lower())
    except Exception:
        traceback.print_exc()
        print("HARNESS-ERROR: cannot load check for", pid)
        return 2

    engine.CURRENT_PID[0] = pid
    engine.CURRENT_TIER[0] = args.tier
    if args.replay:
        data = engine.unjson(json.load(open(args.replay)))
        try:
            if isinstance(data.get("replay"), dict) and data["replay"].get("part") == "library-raises":
                # the library raised inside the harness's scaffolding: there is no shorter history than the check's own
                # set-up, so the quick tier is run again and the recorded signature looked for
                rp = engine.Report()
                try:
                    mod.run("quick", int(os.environ.get("VERIF_SEED") or 0), rp)
                    verdict = [(s_, v_["what"]) for s_, v_ in rp.violations.items() if s_ == data.get("signature")]
                except Exception as e:  # noqa
                    le = engine.library_exception(e)
                    if le is None:
                        raise
                    verdict = [("%s/library-raises:%s:%s" % (pid, le[0], le[1]), "the library raised %s in %s (%s)" % le)]
            else:
                verdict = mod.replay(data)
        except Exception:
            traceback.print_exc()
            return 2
        # verdict: list of (sig, what) observed when re-executing
        if verdict:
            for sig, what in verdict:
                print("REPLAY-VIOLATION property=%s sig=%s %s" % (pid, sig, what))
            return 1
        print("REPLAY-OK property=%s: the recorded history no longer violates the property" % pid)
        return 0

    rep = engine.Report()
    try:
        info = mod.run(args.tier, seed, rep, only=args.only) if args.only else mod.run(args.tier, seed, rep)
    except Exception as e:
        le = engine.library_exception(e)
        if le is None:
            traceback.print_exc()
            print("HARNESS-ERROR: check for %s crashed (this is not a verdict)" % pid)
            return 2
        # the library itself raised while the check was building its scenario (documented-valid arguments): a verdict
        tb = "".join(traceback.format_exception(type(e), e, e.__traceback__))[-1500:]
        rep.violation("%s/library-raises:%s:%s" % (pid, le[0], le[1]),
                      "the library raised %s(%s) in %s (%s) while the check was setting up its scenario with documented-valid arguments; "
                      "the exploration was cut short" % (le[0], str(e)[:120], le[1], le[2]), {"part": "library-raises", "fn": "run", "traceback": tb})
        rep.outcome("library-raises")
        info = dict(level="model_checking", exhaustive=False, rule="exploration aborted: the library raised during set-up", min_outcomes=1)
        rep.cap("exploration aborted by an exception of the library during set-up")
    wall = time.time() - t0

    known = load_known().get(pid, {})
    new, listed = [], []
    for sig, v in sorted(rep.violations.items()):
        (listed if sig in known else new).append((sig, v))
    rdir = os.environ.get("VERIF_REPLAY_DIR") or os.path.join(VERIF, "replays")
    os.makedirs(rdir, exist_ok=True)
    for sig, v in listed:
        print("KNOWN-FINDING: property=%s %s [sig=%s, %d case(s) this run]" % (pid, known[sig], sig, v["count"]))
        # keep a replayable counterexample of every listed finding next to the others
        path = os.path.join(rdir, "%s-%s.json" % (pid, engine.digest(sig)))
        with open(path, "w") as f:
            json.dump({"property": pid, "signature": sig, "what": v["what"], "replay": v["replay"], "known_finding": True}, f, indent=1)
    rc = 0
    for sig, v in new:
        path = os.path.join(rdir, "%s-%s.json" % (pid, engine.digest(sig)))
        with open(path, "w") as f:
            json.dump({"property": pid, "signature": sig, "what": v["what"], "replay": v["replay"]}, f, indent=1)
        print("VIOLATION property=%s replay=%s" % (pid, path))
        print("  signature: %s\n  what: %s\n  cases: %d" % (sig, v["what"], v["count"]))
        rc = 1

    if args.only:
        print("partial run (--only %s): evidence not written" % args.only)
        print(json.dumps({"evaluations": rep.evaluations, "states": rep.states, "transitions": rep.transitions,
                          "outcomes": len(rep.outcomes), "parts": rep.parts}, indent=1))
        return rc

    level = info.get("level", "model_checking")
    cov = {
        "states": max(rep.states, 1) if level == "model_checking" else rep.states,
        "transitions": max(rep.transitions, 1) if level == "model_checking" else rep.transitions,
        "traces_validated_against_impl": rep.traces,
        "evaluations": rep.evaluations,
        "distinct_nontrivial": len(rep.nontrivial),
        "distinct_outcomes": len(rep.outcomes),
        "outcomes": dict(sorted(rep.outcomes.items(), key=lambda kv: -kv[1])[:40]),
        "rule": info.get("rule", ""),
        "samples": rep.samples[:engine.Report.MAX_SAMPLES] or ["(none)"],
        "exhaustive": bool(info.get("exhaustive", False)) and not rep.caps,
        "bounds": info.get("bounds", {}),
        "caps_hit": rep.caps,
        "parts": rep.parts,
        "trusted_base": info.get("trusted_base", []),
        "explanation": info.get("explanation", ""),
        "known_findings_reported": [sig for sig, _ in listed],
        "new_violation_signatures": [sig for sig, _ in new],
    }
    ev = {
        "property_id": pid,
        "tier": args.tier,
        "seed": seed,
        "level": level,
        "coverage": cov,
        "assumptions": info.get("assumptions", []),
        "wall_s": round(wall, 2),
        "violations": len(new),
    }
    os.makedirs(os.path.join(VERIF, "evidence"), exist_ok=True)
    evp = os.path.join(os.environ.get("VERIF_EVIDENCE_DIR") or os.path.join(VERIF, "evidence"), pid + ".json")
    with open(evp, "w") as f:
        json.dump(ev, f, indent=1, sort_keys=True)
    ok = validate_evidence(evp)
    vac = info.get("min_outcomes", 2)
    if len(rep.outcomes) < vac and rc == 0:
        print("HARNESS-ERROR: vacuous exploration (%d distinct outcomes < %d)" % (len(rep.outcomes), vac))
        return 2
    print("%s %s tier=%s seed=%d evaluations=%d states=%d transitions=%d outcomes=%d nontrivial=%d wall=%.1fs%s" % (
        "PASS" if rc == 0 else "FAIL", pid, args.tier, seed, rep.evaluations, rep.states, rep.transitions,
        len(rep.outcomes), len(rep.nontrivial), wall, (" caps=%r" % rep.caps) if rep.caps else ""))
    if not ok:
        return 2
    return rc


if __name__ == "__main__":
    sys.exit(main())
