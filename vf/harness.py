"""Binding between the simulator and the library under test: imports the library from the
repository working tree, installs the virtual clock, builds driver objects on simulated
radios.  No change to /repo is needed (MANIFEST.hooks lists no source commits)."""
import os
import sys

REPO = os.environ.get("VERIF_REPO", "/repo")
if sys.path[0] != REPO:
    sys.path.insert(0, REPO)

from . import sim  # noqa: E402
from .sim import World, SimRadio, SimSpiDev, SimBusSPI, US, MS  # noqa: E402,F401

import circuitpython_nrf24l01  # noqa: E402

_here = os.path.realpath(os.path.dirname(circuitpython_nrf24l01.__file__))
if not _here.startswith(os.path.realpath(REPO) + os.sep):
    raise sim.HarnessError("library imported from %s, not from %s" % (_here, REPO))

import circuitpython_nrf24l01.rf24 as m_rf24  # noqa: E402
import circuitpython_nrf24l01.rf24_lite as m_lite  # noqa: E402
import circuitpython_nrf24l01.fake_ble as m_ble  # noqa: E402
import circuitpython_nrf24l01.network.mixins as m_mix  # noqa: E402
import circuitpython_nrf24l01.network.structs as m_structs  # noqa: E402
import circuitpython_nrf24l01.network.constants as m_const  # noqa: E402
import circuitpython_nrf24l01.rf24_network as m_net  # noqa: E402
import circuitpython_nrf24l01.rf24_mesh as m_mesh  # noqa: E402

sim.install()

RF24 = m_rf24.RF24
LiteRF24 = m_lite.RF24
FakeBLE = m_ble.FakeBLE
RF24Network = m_net.RF24Network
RF24NetworkRoutingOnly = m_net.RF24NetworkRoutingOnly
RF24Mesh = m_mesh.RF24Mesh
RF24MeshNoMaster = m_mesh.RF24MeshNoMaster
RF24NetworkHeader = m_structs.RF24NetworkHeader
RF24NetworkFrame = m_structs.RF24NetworkFrame


class _Urandom:
    """deterministic os.urandom for fake_ble"""

    def __init__(self):
        self.state = 1

    def reseed(self, seed):
        self.state = (seed * 2654435761 + 12345) & 0xFFFFFFFF or 1

    def __call__(self, n):
        out = bytearray()
        for _ in range(n):
            self.state = (self.state * 1103515245 + 12345) & 0x7FFFFFFF
            out.append((self.state >> 16) & 0xFF)
        return bytes(out)


URANDOM = _Urandom()
m_ble.urandom = URANDOM


def reset_frame_ids():
    """RF24NetworkHeader keeps a class-level frame id counter; reset per execution"""
    setattr(RF24NetworkHeader, "_RF24NetworkHeader__next_id", 0)


def next_frame_id():
    return getattr(RF24NetworkHeader, "_RF24NetworkHeader__next_id")


def set_frame_id(v):
    setattr(RF24NetworkHeader, "_RF24NetworkHeader__next_id", v & 0xFFFF)


def mk_radio(world, name, plus=True, spilog=False):
    r = SimRadio(world, name, plus=plus)
    if not plus:  # left over from an earlier session without power cycle: features active
        r.features_active = True
        r.r[0x1D] = 0x05
    if spilog:
        r.spilog = []
    return r


def mk_driver(world, name, cls=None, front="spidev", cost=30 * US, plus=True, spilog=False, **kw):
    """Build a driver object of class `cls` on a fresh simulated radio.
    Returns (driver, radio).  front: 'spidev' (-> wrapper.SPIDevCtx) or 'busio'
    (-> adafruit_bus_device.SPIDevice).  rf24_lite always needs 'busio'."""
    cls = RF24 if cls is None else cls
    world.activate()
    r = mk_radio(world, name, plus=plus, spilog=spilog)
    if cls is LiteRF24:
        front = "busio"
    if front == "spidev":
        spi, csn = SimSpiDev(r, cost), 0
    elif front == "spidev_pin":
        spi, csn = SimSpiDev(r, cost), r.csn_pin
    else:
        spi = SimBusSPI(world, cost)
        csn = spi.attach(r)
    drv = cls(spi, csn, r.ce_pin, **kw)
    return drv, r


def bystander(world, cls=None, name="bystander", stage="all"):
    """A second driver object of the same class in the same program, on a radio of its own, on a channel nobody else
    uses: it is configured with values that differ from everybody else's and makes one transmission that fails.  Objects
    do not share state ("settings made through one object never leak into another"), so on a correct library this is
    invisible to every other object; a check calls it AFTER the object under test was configured and BEFORE the judged
    operation.  -> (driver, radio); the caller keeps the result alive inside its state."""
    cls = RF24 if cls is None else cls
    lite = cls is LiteRF24
    d, r = mk_driver(world, name, cls=cls, front="busio" if lite else "spidev")
    d.channel = 3
    d.dynamic_payloads = False
    d.payload_length = 7 if lite else [7, 8, 9, 10, 11, 12]
    d.arc = 1
    d.ard = 250
    d.open_rx_pipe(0, b"\x0f\x1e\x2d\x3c\x4b")
    d.open_rx_pipe(1, b"\x5a\x69\x78\x87\x96")
    d.open_rx_pipe(4, b"\x44")
    d.listen = True
    d.listen = False
    d.open_tx_pipe(b"\xb1\xc2\xd3\xe4\xf5")
    if not lite:
        d.interrupt_config(False, True, False)
        d.pa_level = -12
        d.data_rate = 2
        d.set_auto_ack(False, 5)
    world.advance(300 * US)
    d.send(b"by")  # nobody listens: leaves MAX_RT and a payload in ITS radio, and its status in ITS cache
    return d, r


def attach_driver(world, radio, cls, front="spidev", cost=30 * US, **kw):
    """another driver object on an existing radio (shared radio, C09)"""
    world.activate()
    if front == "spidev":
        spi, csn = SimSpiDev(radio, cost), 0
    else:
        spi = SimBusSPI(world, cost)
        csn = spi.attach(radio)
    return cls(spi, csn, radio.ce_pin, **kw)


def mk_node(world, addr, cls=None, cost=30 * US, name=None, spilog=False, node_id=None):
    """network / mesh node on a fresh radio -> (node, radio)"""
    cls = RF24Network if cls is None else cls
    world.activate()
    r = mk_radio(world, name or ("n%o" % addr), spilog=spilog)
    spi = SimSpiDev(r, cost)
    if cls in (RF24Mesh, RF24MeshNoMaster):
        n = cls(spi, 0, r.ce_pin, node_id if node_id is not None else 0)
    else:
        n = cls(spi, 0, r.ce_pin, addr)
    return n, r


def driver_state(obj, drop=("_spi", "_ce_pin", "_in", "_out", "_rf24", "block_less_callback")):
    """generic canonical view of a driver object's instance attributes (no attribute names
    are interpreted, so this survives refactoring)"""
    out = []
    for k, v in sorted(vars(obj).items()):
        if k in drop:
            continue
        out.append((k, _canon_val(v)))
    if hasattr(obj, "_in") and isinstance(getattr(obj, "_in"), (bytes, bytearray)):
        out.append(("_in0", obj._in[0]))
    if hasattr(obj, "_rf24"):
        out.append(("_rf24", driver_state(obj._rf24)))
    al = _alias_sig(obj, drop)
    if al:
        out.append(("<aliases>", al))
    return tuple(out)


def _alias_sig(obj, drop):
    """which mutable buffers / containers reachable from the object's attributes are ONE object: two states with equal
    values but different sharing have different futures (a write through one name shows through the other), so sharing is
    part of the canonical state.  -> sorted tuple of groups of attribute paths (groups of one path are left out)"""
    seen = {}

    def walk(v, path, depth):
        if isinstance(v, memoryview):
            v = v.obj
        if isinstance(v, (bytearray, list, dict)):
            seen.setdefault(id(v), []).append(path)
            if depth and isinstance(v, list):
                for i, x in enumerate(v):
                    walk(x, "%s[%d]" % (path, i), depth - 1)
            elif depth and isinstance(v, dict):
                for k, x in v.items():
                    walk(x, "%s[%r]" % (path, k), depth - 1)
        elif depth and hasattr(v, "__dict__") and not isinstance(v, type) and type(v).__module__.startswith("circuitpython_nrf24l01"):
            for k, x in vars(v).items():
                if k not in drop:
                    walk(x, "%s.%s" % (path, k), depth - 1)

    for k, v in vars(obj).items():
        if k not in drop:
            walk(v, k, 2)
    return tuple(sorted(tuple(sorted(p)) for p in seen.values() if len(p) > 1))


def _canon_val(v):
    if isinstance(v, (bytes, bytearray, memoryview)):
        return bytes(v)
    if isinstance(v, (list, tuple)):
        return tuple(_canon_val(x) for x in v)
    if isinstance(v, dict):
        return tuple(sorted((repr(k), _canon_val(x)) for k, x in v.items()))
    if isinstance(v, (int, float, str, bool)) or v is None:
        return v
    if isinstance(v, m_structs.RF24NetworkFrame):
        return ("frame", _canon_val(v.header), bytes(v.message))
    if isinstance(v, m_structs.RF24NetworkHeader):
        return ("hdr", v.from_node, v.to_node, v.frame_id, v.message_type, v.reserved)
    if isinstance(v, m_structs.FrameQueue):
        return (type(v).__name__, tuple(_canon_val(x) for x in vars(v).items()))
    if hasattr(v, "__dict__"):
        return (type(v).__name__, tuple(sorted((k, _canon_val(x)) for k, x in vars(v).items())))
    return repr(v)


def pattern(n, seed, salt=0):
    """position-dependent, seed-derived payload bytes (truncation / offset / order errors
    cannot cancel)"""
    x = (seed * 40503 + salt * 9973 + 0x5A17) & 0xFFFF
    out = bytearray()
    for i in range(n):
        x = (x * 25173 + 13849 + i) & 0xFFFF
        out.append(((x >> 7) ^ (i * 37 + salt)) & 0xFF)
    return bytes(out)


# ---------------------------------------------------------------- frame injection (mono world)
def mk_ghost_tx(world, name="ghost", **kw):
    """ghost PTX matching the network layer's radio configuration (ch 76, 1 Mbps, CRC 2,
    dynamic payloads, 5-byte addresses)"""
    return sim.ghost_sender(world, name, **kw)


def inject(world, ghost, addr, payload, noack=False, wait=3 * MS):
    """transmit `payload` from the ghost to pipe address `addr` and let the world run for
    `wait` so the packet (and its hardware ACK) complete.  The caller then calls update().
    Returns True if some radio stored the packet."""
    n = len(world.airlog)
    sim.ghost_send(ghost, addr, payload, noack)
    world.advance(wait)
    return any(p.src is ghost and any(not h.endswith(":dup") for h in p.heard_by) for p in world.airlog[n:])


def net_pipe_address(node_addr, pipe, prefix=0xCC, suffix=(0xC3, 0x3C, 0x33, 0xCE, 0x3E, 0xE3), multicast=True):
    """Physical pipe address of a logical node address, written from the RF24Network topology
    documentation (docs/network_docs/topology.rst) - independent of the library's code.
    pipe 0 of a node with multicast enabled is the shared address of its level."""
    out = bytearray([prefix] * 5)
    if multicast and pipe == 0 and node_addr != 0:
        # level address: byte 1 carries the suffix indexed by the level (number of octal digits)
        lvl = 0
        a = node_addr
        while a:
            a >>= 3
            lvl += 1
        out[1] = suffix[lvl]
        return bytes(out)
    a, i = node_addr, 1
    while a:
        out[i] = suffix[a & 7]
        a >>= 3
        i += 1
    out[0] = suffix[pipe]
    return bytes(out)
