"""Threaded discrete-event network harness: several real network / mesh nodes, each on its own
simulated MCU (thread under a baton, see sim.World), sharing one air.  Used by C05, C07, C13,
C14, C17."""
import struct

from . import harness as H
from .sim import World, US, MS, Abort, HarnessError

LAT = (200 * US, 0, 2 * MS, 10 * MS)  # application poll latencies; index 0 = default
COST = (30 * US, 12 * US, 100 * US, 300 * US)  # SPI cost classes; index 0 = default


def level_of(addr):
    n = 0
    while addr:
        addr >>= 3
        n += 1
    return n


def parent_of(addr):
    lvl = level_of(addr)
    return addr & ((1 << (3 * (lvl - 1))) - 1) if lvl else None


def tree_path(src, dst):
    """unique tree path src..dst (list of addresses, both included)"""
    up_s, up_d = [src], [dst]
    while up_s[-1] != 0:
        up_s.append(parent_of(up_s[-1]))
    while up_d[-1] != 0:
        up_d.append(parent_of(up_d[-1]))
    common = None
    for a in up_s:
        if a in up_d:
            common = a
            break
    path = up_s[:up_s.index(common) + 1] + list(reversed(up_d[:up_d.index(common)]))
    return path


def parse_frame(payload):
    if len(payload) < 8:
        return None
    f, t, i, ty, rs = struct.unpack("<HHHBB", payload[:8])
    return {"from": f, "to": t, "id": i, "type": ty, "reserved": rs, "msg": bytes(payload[8:])}


class Net:
    """A set of nodes in a threaded world.

    addrs: {address: class} (RF24Network / RF24NetworkRoutingOnly / mesh classes via specs)
    cost_class / lat_class: indices into COST / LAT (per run); every node gets a distinct
    SPI cost (base + k us) - two MCUs with bit-identical clocks are a symmetry artefact."""

    def __init__(self, specs, cost_class=0, lat_class=0, horizon=4000 * MS, chooser=None, spilog=False):
        self.w = World(horizon_ns=horizon).activate()
        H.reset_frame_ids()
        self.nodes = {}
        self.radios = {}
        self.lat = LAT[lat_class]
        self.chooser = chooser
        self.stop = False
        self.paused = set()  # keys of idle nodes whose application loop is stalled (see idle())
        self.events = []  # (now, key, what) harness-level log (public call returns ...)
        self.exc = {}
        base = COST[cost_class]
        for k, spec in enumerate(specs):
            if isinstance(spec, int):
                spec = {"addr": spec}
            cls = spec.get("cls", H.RF24Network)
            key = spec.get("key", spec.get("addr"))
            n, r = H.mk_node(self.w, spec.get("pre_addr", spec.get("addr", 0)), cls=cls, cost=spec.get("cost", base + k * US),
                             name=spec.get("name") or ("n%o" % key if isinstance(key, int) else str(key)),
                             spilog=spilog, node_id=spec.get("node_id"))
            for attr, val in spec.get("attrs", {}).items():
                setattr(n, attr, val)
            for attr, val in spec.get("attr_seq", ()):  # a history of attribute assignments, in order
                setattr(n, attr, bytearray(val) if isinstance(val, bytearray) else val)
            if spec.get("rebegin") or "pre_addr" in spec:
                n.node_address = spec["addr"]  # (re-)assignment after construction, as a mesh renewal does
            self.nodes[key] = n
            self.radios[key] = r
        self.built_at = self.w.now
        self.air0 = len(self.w.airlog)

    # ---- application loops
    def latency(self, label):
        ch = self.chooser
        if ch is None:
            return self.lat
        c = ch.choose(len(LAT), label)
        return self.lat if c == 0 else [x for x in LAT if x != self.lat][c - 1]

    def idle(self, key, hook=None):
        """the documented application loop `while True: node.update()`, modelled as: block
        until the radio holds RX data, then call update() after the application's latency"""
        node, radio = self.nodes[key], self.radios[key]

        def loop(ctx):
            while not self.stop:
                if key in self.paused:
                    ctx.wait(2 * MS)  # this node's application is busy with something else: update() is not called
                    continue
                if not ctx.wait_rx(radio, None, self.latency("lat")):
                    continue
                if self.stop:
                    break
                if key in self.paused:
                    continue
                node.update()
                if hook is not None:
                    hook(key, node, radio)
        return loop

    def serve(self, ctx, key, dur, hook=None):
        """keep calling update() on this node for `dur` ns of virtual time"""
        node, radio = self.nodes[key], self.radios[key]
        end = self.w.now + dur
        while self.w.now < end:
            if ctx.wait_rx(radio, min(20 * MS, max(1, end - self.w.now)), self.latency("lat")):
                node.update()
                if hook is not None:
                    hook(key, node, radio)

    def run(self, scripts, idle_hook=None):
        """scripts: {key: fn(ctx)} for active nodes; all other nodes run the idle loop.
        The run ends when every script has returned (scripts should end with net.serve() to
        let replies drain) - then the idle loops are stopped."""
        w = self.w
        pending = [len(scripts)]
        ctxs = {}

        def wrap(key, fn):
            def body(ctx):
                try:
                    return fn(ctx)
                finally:
                    pending[0] -= 1
                    if pending[0] == 0:
                        self.stop = True
                        w.wake_rx_waiters()
            return body
        for key in self.nodes:
            if key in scripts:
                ctxs[key] = w.spawn(str(key), wrap(key, scripts[key]), start=w.now)
            else:
                ctxs[key] = w.spawn(str(key), self.idle(key, idle_hook), start=w.now)
        w.run()
        for key, c in ctxs.items():
            if c.exc is not None:
                self.exc[key] = c.exc
        self.ctxs = ctxs
        return ctxs

    # ---- observation
    def queues(self):
        """drain every node's application queue: {key: [(from, to, type, msg)]}"""
        out = {}
        for key, n in self.nodes.items():
            q = []
            while n.available():
                f = n.read()
                q.append((f.header.from_node, f.header.to_node, f.header.message_type, bytes(f.message)))
            out[key] = q
        return out

    def air(self, since=None):
        return self.w.airlog[self.air0 if since is None else since:]

    def listening_state(self, key):
        """C07 post-condition ingredients from the simulated hardware"""
        r = self.radios[key]
        return {"pwr": r.pwr(), "prx": r.prx(), "ce": r.ce_pin.value, "en_rx": r.r[0x02], "en_aa": r.r[0x01],
                "dynpd": r.dynpd(), "feature": r.feat(), "pipes": [r.pipe_addr(p) for p in range(6)]}


# ---------------------------------------------------------------- C07 post-condition
def expected_pipes(node_addr, mc_level, allow_multicast, prefix, suffix):
    """reference pipe addresses of a node (from docs/network_docs/topology.rst)"""
    out = [H.net_pipe_address(node_addr, p, prefix, suffix, multicast=False) for p in range(6)]
    if allow_multicast:
        a = bytearray([prefix] * 5)
        if not isinstance(mc_level, int) or not 0 <= mc_level <= 4:
            out[0] = b"no such level %r" % (mc_level,)  # never equals a radio address
            return out
        if mc_level:
            a[1] = suffix[mc_level]
        else:
            a[0] = suffix[0]
        out[0] = bytes(a)
    return out


def listening_violations(node, radio):
    """C07: after any public network call returned the node listens again on all its addresses.
    Returns a list of clause names that do not hold (ground truth = simulated hardware)."""
    bad = []
    if not radio.pwr():
        bad.append("powered-down")
    if not radio.prx():
        bad.append("not-prim-rx")
    if not radio.ce_pin.value:
        bad.append("ce-low")
    if radio.r[0x02] != 0x3F:
        bad.append("en-rxaddr")
    if radio.r[0x01] != 0x3E:
        bad.append("en-aa")
    if radio.dynpd() != 0x3F or not radio.feat() & 4:
        bad.append("dynpd")
    exp = expected_pipes(node.node_address, node.multicast_level, bool(node.allow_multicast),
                         node.address_prefix[0], tuple(node.address_suffix))
    got = [radio.pipe_addr(p) for p in range(6)]
    if got[0] != exp[0]:
        bad.append("pipe0-addr")
    if got[1:] != exp[1:]:
        bad.append("pipe1-5-addr")
    return bad
