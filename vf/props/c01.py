"""C01 - link payload integrity.  E-ENUM over configurations x payload lengths x buffer types x
call forms, plus all short payload lists; real RF24 (or rf24_lite) objects on two simulated
radios sharing one air.  Oracle: vf.ref.esb + the simulator's SPI log / RX FIFO."""
import copy
import itertools

from .. import harness as H
from .. import link
from ..engine import pmap
from ..ref import esb
from ..sim import HarnessError, Abort

PID = "C01"


def mkbuf(n, seed, salt, buftype, fill=None):
    data = H.pattern(n, seed, salt) if fill is None else bytes([fill]) * n
    return bytearray(data) if buftype == "bytearray" else data


def run_case(world_pack, cfg, case, seed, pid=PID):
    """execute one case on a private copy of the configured pair; -> (violations, outcome, got)"""
    w, a, ra, b, rb = copy.deepcopy(world_pack)
    w.activate()
    # (expect_dyn: the configuration history ends in dynamic mode although `dynamic_payloads = False` came first)
    dyn, pl = cfg.get("expect_dyn", cfg["dyn"]), cfg["pl"]
    lens = case["lens"]
    bufs = [mkbuf(n, seed, i + 1, case["buftype"], case.get("fill")) for i, n in enumerate(lens)]
    before = [bytes(x) for x in bufs]
    expect = []
    exp_exc = None
    for x in before:
        e = esb.expected_payload(dyn, pl, x)
        if e == "ValueError":
            exp_exc = "ValueError"
            break
        expect.append(e)
    viol = []
    mode = "dyn" if dyn else "static"

    def v(clause, n, what):
        viol.append(("%s/%s:%s:%s:%s" % (pid, clause, mode, esb.len_class(dyn, pl, n), case["buftype"]), what))

    idiom = case.get("rx_idiom", "full")
    if case.get("rx_pre"):
        # receiver-side history before the judged traffic: an earlier payload (of another length where the mode allows it)
        # was looked at but not read in the usual way - every call is documented API
        kind, _, plen = case["rx_pre"].partition(":")
        if kind != "any-empty":
            a.send(mkbuf(int(plen), seed, 77, "bytes"))
            w.advance(2 * link.MS)
            if not rb.rx_fifo:
                # the history's own payload is an instance of the property (a payload handed to send() on this compatible
                # link); the set-up is deterministic and delivers it on the unchanged tree
                v("count", int(plen), "the payload of the receiver-side history (%s bytes, send()) did not reach the peer's RX FIFO" % plen)
                return viol, "%s:pre-history:undelivered" % mode, []
        if kind == "any+flush":
            b.any()
            b.flush_rx()
        elif kind == "avail+any+flush":
            b.available()
            b.any()
            b.flush_rx()
        elif kind == "any+readn":
            b.read(b.any())
        elif kind == "any+read+any":  # the length of an EMPTY FIFO was asked for after the read
            b.any()
            b.read()
            b.any()
        elif kind == "any-empty":
            b.any()
        if rb.rx_fifo:
            raise HarnessError("pre-history left a payload in the RX FIFO")
    exc = None
    sent_upto = 0
    mark = len(ra.spilog)
    airmark = len(w.airlog)
    rets = None
    try:
        if case["call"] == "burst":
            # fill the TX FIFO with write(write_only=True), then start transmitting
            rets, full_at_call = [], []
            for x in bufs:
                mark = len(ra.spilog)
                full_at_call.append(len(ra.tx_fifo) >= 3)
                rets.append(a.write(x, ask_no_ack=case["noack"], write_only=True))
                sent_upto += 1
            a.ce_pin = True
            burst_got = []
            for _ in range(400):
                a.update()
                burst_got += link.drain(b, idiom=idiom)
                if not ra.tx_fifo and not ra.in_txn:
                    break
        elif case["container"]:
            cont = list(bufs) if case["container"] == "list" else tuple(bufs)
            a.send(cont, ask_no_ack=case["noack"])
            sent_upto = len(bufs)
        else:
            for x in bufs:
                mark = len(ra.spilog)
                airmark = len(w.airlog)
                if case["call"] == "send":
                    a.send(x, ask_no_ack=case["noack"])
                else:
                    a.write(x, ask_no_ack=case["noack"])
                    try:
                        link.poll_done(a)
                    except HarnessError:
                        # 4000 status polls (> 1 s of virtual time) without "data sent" or "data failed": the payload is stuck
                        v("write-never-completes", len(x), "write() of %d bytes: the radio reported neither data-sent nor data-fail within 4000 polls" % len(x))
                        break
                sent_upto += 1
    except ValueError:
        exc = "ValueError"
    except (HarnessError, Abort):
        raise
    except Exception as e:  # noqa
        exc = type(e).__name__
    nbad = lens[min(sent_upto, len(lens) - 1)]
    if exc != exp_exc:
        if exp_exc and exc is None:
            v("valueerror-missing", nbad, "payload of %d bytes accepted with dynamic payloads on" % nbad)
        else:
            v("exception-" + str(exc), nbad, "unexpected %s for payload of %d bytes" % (exc, nbad))
    if exc == "ValueError" and exp_exc and not case["container"]:
        if link.tx_payload_cmds(ra, mark) or len(w.airlog) > airmark or ra.tx_fifo:
            v("valueerror-leak", nbad, "ValueError raised but a payload reached the radio")
    w.advance(3 * link.MS)
    got = link.drain(b, idiom=idiom)
    if rets is not None:
        got = burst_got + got
        for i, (r, full) in enumerate(zip(rets, full_at_call)):
            if r is not True and r is not False:
                v("write-return-type", lens[i], "write() returned %r" % (r,))
            elif r is False and not full:
                v("write-refused-with-room", lens[i], "write() #%d returned False although the TX FIFO had room" % (i + 1))
        expect = [e for e, r in zip(expect, rets) if r]
    want_pipe = cfg["pipe"]
    n0 = lens[0]
    if len(got) != len(expect):
        v("count", n0, "peer got %d payload(s), expected %d" % (len(got), len(expect)))
    elif [g[2] for g in got] != expect:
        if sorted(g[2] or b"" for g in got) == sorted(expect):
            v("order", n0, "payloads delivered out of order")
        else:
            for i, (g, e) in enumerate(zip(got, expect)):
                if g[2] != e:
                    v("content", lens[i], "peer read %r, expected %r" % (g[2], e))
                    break
    for i, g in enumerate(got[:len(expect)]):
        if g[0] != want_pipe:
            v("pipe", lens[i], "payload attributed to pipe %r, sent to pipe %d" % (g[0], want_pipe))
            break
        if g[1] != len(expect[i]):
            v("any-length", lens[i], "any() reported %r for a payload of %d bytes" % (g[1], len(expect[i])))
            break
    if rb.rx_fifo:
        v("residue", n0, "RX FIFO not empty after the application read everything")
    for i, x in enumerate(bufs):
        if bytes(x) != before[i]:
            v("buffer-mutated", lens[i], "caller's %s changed from %d to %d bytes" % (case["buftype"], len(before[i]), len(x)))
            break
    outcome = "%s:%s:%s:%s" % (mode, "+".join(sorted({esb.len_class(dyn, pl, n) for n in lens})), exc or "ok", len(got))
    return viol, outcome, got


def _cfg_key(cfg):
    return tuple(sorted((k, v) for k, v in cfg.items() if not k.startswith("cost")))


def _do_cases(cfg, cases, seed, rep, part, pid):
    pack = link.build_pair(cfg)
    for case in cases:
        viol, outcome, got = run_case(pack, cfg, case, seed, pid)
        rep.case()
        rep.transitions += 1
        rep.traces += 1
        rep.outcome(outcome)
        if got or "ValueError" in outcome:
            rep.nt(repr((_cfg_key(cfg), tuple(sorted(case.items(), key=str)))))
        for sig, what in viol:
            rep.violation(sig, what, {"part": part, "cfg": cfg, "case": case, "seed": seed})
        rep.part(part, executions=1)
    if len(rep.samples) < 2:
        rep.sample({"part": part, "cfg": {k: cfg[k] for k in ("tx_cls", "rx_cls", "pipe", "aw", "rate", "crc", "dyn", "pl", "channel")},
                    "case": cases[len(cases) // 2]})


def w_bidir(item, rep):
    """two directions: the peer's payload sits unread in the transmitter's RX FIFO while the transmitter sends with
    send_only=True (documented: the RX FIFO is left alone) - afterwards the transmitter's application still reads the
    peer's payload, exactly once, and the peer got exactly what was sent"""
    cfg, seed, pid = item
    lite_a, lite_b = cfg["tx_cls"] == "lite", cfg["rx_cls"] == "lite"
    back = bytes([0x42, 0x52, 0x62, 0x72, 0x82][:cfg["aw"]])
    for form in ("single", "list", "tuple"):
        for n_back in (1, 5, cfg["pl"] if not cfg["dyn"] else 32):
            for lens in ((1,), (7, 32), (32, 1, 9)):
                if form == "single" and len(lens) > 1:
                    continue
                w, a, ra, b, rb = link.build_pair(cfg)
                dyn, pl = cfg["dyn"], cfg["pl"]
                a.open_rx_pipe(1, back)
                a.listen = True
                b.listen = False
                b.open_tx_pipe(back)
                p_back = H.pattern(n_back, seed, 77)
                r0 = b.send(p_back)
                b.listen = True
                a.listen = False
                w.advance(300 * link.US)
                bufs = [H.pattern(n, seed, 80 + i) for i, n in enumerate(lens)]
                arg = bufs[0] if form == "single" else (list(bufs) if form == "list" else tuple(bufs))
                exc = None
                try:
                    a.send(arg, send_only=True)
                except (HarnessError, Abort):
                    raise
                except Exception as e:  # noqa
                    exc = type(e).__name__
                w.advance(3 * link.MS)
                got_b = link.drain(b)
                a.listen = True
                w.advance(300 * link.US)
                got_a = link.drain(a)
                rep.case()
                rep.transitions += 2
                rep.traces += 1
                rep.part("bidir", executions=1)
                mode = "dyn" if dyn else "static"
                rep.outcome("bidir:%s:%s:%d" % (mode, form, len(got_a)))
                rep.nt("bidir:%r" % ((_cfg_key(cfg), form, n_back, lens),))
                rd = {"part": "bidir", "cfg": cfg, "seed": seed}
                want_b = [esb.expected_payload(dyn, pl, x) for x in bufs]
                want_a = [esb.expected_payload(dyn, pl, p_back)]
                if r0 is not True and r0 is not None and not isinstance(r0, (bytes, bytearray)) or r0 is False:
                    raise HarnessError("reverse payload not delivered")
                if exc:
                    rep.violation("%s/exception-%s:bidir:%s" % (pid, exc, form), "send(%s, send_only=True) raised %s" % (form, exc), rd)
                elif [g[2] for g in got_b] != want_b:
                    rep.violation("%s/bidir:peer-content:%s:%s" % (pid, mode, form), "peer read %r, expected %r" % ([g[2] for g in got_b], want_b), rd)
                if [g[2] for g in got_a] != want_a:
                    rep.violation("%s/bidir:own-rx-fifo-disturbed:%s:%s" % (pid, mode, form),
                                  "a payload the peer had sent (%d bytes) was waiting unread while send(%s, send_only=True) ran; afterwards the application reads %r"
                                  % (n_back, form, [g[2] for g in got_a]), rd)


    if not cfg["dyn"]:
        return
    # a rejected payload (dynamic payloads: 0 or more than 32 bytes) changes nothing in the radio: "rejected with ValueError
    # before anything reaches the radio" - neither the payload nor a side effect of the call that refused it.  Histories:
    # the peer's payload waits unread in the transmitter's RX FIFO and the cached status shows it (send() without
    # send_only flushes the RX FIFO of a call that goes ahead); an earlier payload failed and waits in the TX FIFO.
    for hist in ("rx-pending", "tx-failed"):
        for call in ("send", "send-list", "write"):
            for n in (0, 33, 40):
                for buftype in (bytes, bytearray):
                    w, a, ra, b, rb = link.build_pair(dict(cfg, arc=1, ard=250) if hist == "tx-failed" else cfg)
                    if hist == "rx-pending":
                        a.open_rx_pipe(1, back)
                        a.listen = True
                        b.listen = False
                        b.open_tx_pipe(back)
                        b.send(H.pattern(5, seed, 77))
                        b.listen = True
                        a.listen = False
                        w.advance(300 * link.US)
                        if not a.available():
                            raise HarnessError("reverse payload not delivered")
                    else:
                        b.listen = False
                        w.advance(300 * link.US)
                        if a.send(H.pattern(9, seed, 78)) is not False:
                            raise HarnessError("set-up: the payload should have failed")
                        b.listen = True
                        w.advance(300 * link.US)
                    def state():
                        # registers, address registers, FEATURE access, both FIFOs, REUSE_TX_PL of both radios (the CE line of the
                        # transmitter is not part of it: send() lowers CE before it looks at its argument, which changes nothing
                        # that the next call depends on)
                        return (ra.snapshot()[:6], rb.snapshot()[:6])
                    snap = state()
                    airmark, mark = len(w.airlog), len(ra.spilog)
                    buf = buftype(H.pattern(n, seed, 90))
                    exc = None
                    try:
                        if call == "send":
                            a.send(buf)
                        elif call == "send-list":
                            a.send([buf])
                        else:
                            a.write(buf)
                    except (HarnessError, Abort):
                        raise
                    except Exception as e:  # noqa
                        exc = type(e).__name__
                    w.advance(3 * link.MS)
                    rep.case()
                    rep.transitions += 1
                    rep.traces += 1
                    rep.part("rejected", executions=1)
                    rep.outcome("rejected:%s:%s:%s" % (hist, call, exc))
                    rep.nt("rejected:%r" % ((_cfg_key(cfg), hist, call, n, buftype.__name__),))
                    rd = {"part": "bidir", "cfg": cfg, "seed": seed}
                    what = "%s: %s(%d-byte %s) with dynamic payloads on" % (hist, call, n, buftype.__name__)
                    if exc != "ValueError":
                        rep.violation("%s/rejected:%s:%s" % (pid, "valueerror-missing" if exc is None else "exception-" + exc, call),
                                      "%s %s" % (what, "was accepted" if exc is None else "raised " + exc), rd)
                    elif link.tx_payload_cmds(ra, mark) or len(w.airlog) > airmark:
                        rep.violation("%s/valueerror-leak:rejected:%s" % (pid, call), "%s raised ValueError but a payload reached the radio / the air" % what, rd)
                    elif state() != snap:
                        lost = "RX FIFO" if ra.snapshot()[4] != snap[0][4] else ("TX FIFO" if ra.snapshot()[3] != snap[0][3] else "registers")
                        rep.violation("%s/rejected:radio-changed:%s:%s" % (pid, hist, call),
                                      "%s raised ValueError, yet the call changed the transmitting radio's %s (commands on the SPI bus: %s)" % (
                                          what, lost, [("%02x" % m[0]) for (_, m, _) in ra.spilog[mark:] if m]), rd)


# ---------------------------------------------------------------- work items
def w_core(item, rep):
    cfg, seed, pid, lens = item
    cases = []
    for buftype in ("bytes", "bytearray"):
        for call in ("send", "write"):
            for n in lens:
                cases.append(dict(lens=[n], buftype=buftype, call=call, container=None, noack=False))
    for fill in (0x00, 0xFF):
        for n in (1, cfg["pl"] if not cfg["dyn"] else 32, 32):
            cases.append(dict(lens=[n], buftype="bytes", call="send", container=None, noack=False, fill=fill))
    _do_cases(cfg, cases, seed, rep, "core", pid)


def w_cross(item, rep):
    cfgs, seed, pid = item
    for cfg in cfgs:
        cases = []
        for noack in (False, True):
            for n in (1, 17, 32):
                cases.append(dict(lens=[n], buftype="bytearray" if n == 17 else "bytes", call="send", container=None, noack=noack))
        _do_cases(cfg, cases, seed, rep, "cross", pid)


def w_lists(item, rep):
    cfg, seed, pid, lens3 = item
    cases = []
    for k in (1, 2, 3):
        for combo in itertools.product(lens3, repeat=k):
            for container in ("list", "tuple", None):
                cases.append(dict(lens=list(combo), buftype="bytes" if container == "tuple" else "bytearray",
                                  call="send", container=container, noack=False))
    _do_cases(cfg, cases, seed, rep, "lists", pid)


def w_perpipe(item, rep):
    cfgs, seed, pid = item
    for cfg in cfgs:
        pl = cfg["pl"]
        cases = []
        for n in sorted({0, 1, max(1, pl - 1), pl, min(40, pl + 1), 33}):
            for buftype in ("bytes", "bytearray"):
                cases.append(dict(lens=[n], buftype=buftype, call="send", container=None, noack=False))
        _do_cases(cfg, cases, seed, rep, "perpipe", pid)


def w_rxhist(item, rep):
    cfg, seed, pid = item
    cases = []
    for pre in ("any+flush", "avail+any+flush", "any+readn", "any+read+any", "any-empty"):
        for plen in ((3, 32) if pre != "any-empty" else (0,)):
            for idiom in ("bare", "full"):
                for lens in ([1], [5], [32], [5, 32, 1]):
                    cases.append(dict(lens=lens, buftype="bytes", call="send", container=None, noack=False, rx_pre="%s:%d" % (pre, plen), rx_idiom=idiom))
    for lens in ([1], [32], [5, 32, 1], [32, 1]):
        cases.append(dict(lens=lens, buftype="bytearray", call="send", container=None, noack=False, rx_idiom="bare"))
    _do_cases(cfg, cases, seed, rep, "rxhist", pid)


def w_burst(item, rep):
    cfg, seed, pid, lens3 = item
    cases = []
    for k in (1, 2, 3, 4, 5):
        combos = itertools.product(lens3, repeat=k) if k <= 3 else [tuple(lens3[(i + j) % len(lens3)] for i in range(k)) for j in range(len(lens3))]
        for combo in combos:
            cases.append(dict(lens=list(combo), buftype="bytearray" if k % 2 else "bytes", call="burst", container=None, noack=False))
    _do_cases(cfg, cases, seed, rep, "burst", pid)


def items(tier, seed, tx_cls="full", rx_cls="full", pid=PID):
    lite = "lite" in (tx_cls, rx_cls)
    fa = "busio" if tx_cls == "lite" else "spidev"
    fb = "busio" if rx_cls == "lite" else "spidev"
    base = dict(tx_cls=tx_cls, rx_cls=rx_cls, front_a=fa, front_b=fb, addr_salt=seed)
    core, cross, lists = [], [], []
    lens = list(range(0, 41))
    modes = [(True, 32)] + [(False, pl) for pl in range(1, 33)]
    for dyn, pl in modes:
        core.append((link.default_cfg(dyn=dyn, pl=pl, **base), seed, pid, lens))
    if tx_cls == "lite" and rx_cls == "lite":
        # rf24_lite: `dynamic_payloads = False; payload_length = n; ack = True` - the ack attribute switches
        # dynamic payloads on again for all pipes (documented: global), so payloads travel unpadded
        for pl in (1, 8, 32):
            core.append((link.default_cfg(dyn=False, pl=pl, ack=True, expect_dyn=True, **base), seed, pid, lens))
    # the full driver's `ack = True` makes pipe 0 dynamic again (documented); on a pipe-0 link both ends then use dynamic lengths
    for pl in (1, 8, 32):
        core.append((link.default_cfg(dyn=False, pl=pl, ack=True, expect_dyn=True, pipe=0, **base), seed, pid, lens))
    # history: the transmitter listened on its own pipe-0 address before (and re-entered its context), see link.build_pair
    for dyn, pl in ((True, 32), (False, 8)):
        core.append((link.default_cfg(dyn=dyn, pl=pl, tx_hist="rx0", **base), seed, pid, lens))
    for k in (1, 2, 3):
        core.append((link.default_cfg(dyn=True, pl=32, ack=True, tx_hist="ackpl:%d" % k, **base), seed, pid, lens))
    for dyn, pl in ((True, 32), (False, 8)):
        core.append((link.default_cfg(dyn=dyn, pl=pl, tx_hist="power", **base), seed, pid, lens))
    # other driver objects of the same classes live in the same program (link.build_pair / H.bystander): configured with
    # other lengths, addresses and modes after the link was set up, one failed transmission of their own
    for dyn, pl in ((True, 32), (False, 8), (False, 32)):
        core.append((link.default_cfg(dyn=dyn, pl=pl, bystander=True, **base), seed, pid, lens))
    # the receiver was a transmitter in between (link.build_pair, rx_hist): pipe 0 and pipe 1 links
    for dyn, pl, pipe in ((True, 32, 0), (False, 8, 0), (True, 32, 1)):
        core.append((link.default_cfg(dyn=dyn, pl=pl, pipe=pipe, rx_hist="txrole", **base), seed, pid, lens))
    channels = (0, 76, 125) if tier == "quick" else tuple(range(126))
    crcaa = [(2, True)] if lite else [(0, False), (0, True), (1, True), (1, False), (2, True), (2, False)]
    fronts = [(fa, fb)] if lite else [("spidev", "busio"), ("busio", "spidev_pin")]
    for pipe in range(6):
        for aw in (3, 4, 5):
            group = []
            for rate in (1, 2, 250):
                for crc, aa in crcaa:
                    for ch in channels:
                        for f_a, f_b in fronts:
                            for dyn, pl in ((True, 32), (False, 17)):
                                if tier == "thorough" and ch not in (0, 76, 125) and (not dyn or f_a != fronts[0][0]):
                                    continue  # the extra channels vary the channel only
                                c = dict(base)
                                c.update(front_a=f_a, front_b=f_b)
                                group.append(link.default_cfg(pipe=pipe, aw=aw, rate=rate, crc=crc, auto_ack=aa,
                                                              channel=ch, dyn=dyn, pl=pl, **c))
            for aa in ((True,) if lite else (True, False)):
                group.append(link.default_cfg(pipe=pipe, aw=aw, auto_ack=aa, tx_hist="rx0", **base))
            # split into chunks for load balance
            for i in range(0, len(group), 36):
                cross.append((group[i:i + 36], seed, pid))
    for dyn, pl, l3 in ((True, 32, (0, 1, 32) if tier == "thorough" else (1, 17, 32)), (False, 17, (1, 17, 32)), (True, 32, (5, 33, 32))):
        lists.append((link.default_cfg(dyn=dyn, pl=pl, **base), seed, pid, l3))
    if tier == "thorough":
        for pl in (1, 5, 32):
            lists.append((link.default_cfg(dyn=False, pl=pl, **base), seed, pid, (0, 5, 17, 32, 40)))
        lists.append((link.default_cfg(dyn=True, pl=32, **base), seed, pid, (1, 2, 31, 32, 33)))
    perpipe, burst = [], []
    if rx_cls != "lite":  # per-pipe static lengths do not exist in the lite driver
        vecs = [[5, 9, 13, 17, 21, 32], [32, 21, 17, 13, 9, 5], [1, 2, 3, 4, 6, 7], [32, 1, 32, 1, 31, 2]]
        if tier == "thorough":
            vecs += [[(seed * 7 + i * 11 + j * 5) % 32 + 1 for i in range(6)] for j in range(8)]
        for vec in vecs:
            group = []
            for pipe in range(6):
                group.append(link.default_cfg(pipe=pipe, dyn=False, pl=vec[pipe], pl_vec=list(vec), **base))
            perpipe.append((group, seed, pid))
        perpipe.append(([link.default_cfg(pipe=pipe, dyn=False, pl=vecs[0][pipe], pl_vec=list(vecs[0]), bystander=True, **base)
                         for pipe in range(6)], seed, pid))
    for dyn, pl in ((True, 32), (False, 8)):
        burst.append((link.default_cfg(dyn=dyn, pl=pl, **base), seed, pid, (1, 8, 32)))
    return core, cross, lists, perpipe, burst


def run_link(tier, seed, rep, tx_cls="full", rx_cls="full", pid=PID, only=None):
    core, cross, lists, perpipe, burst = items(tier, seed, tx_cls, rx_cls, pid)
    if not only or "perpipe" in only:
        pmap(w_perpipe, perpipe, rep)
    if not only or "burst" in only:
        pmap(w_burst, burst, rep)
    if not only or "rxhist" in only:
        fa_ = "busio" if tx_cls == "lite" else "spidev"
        fb_ = "busio" if rx_cls == "lite" else "spidev"
        b_ = dict(tx_cls=tx_cls, rx_cls=rx_cls, front_a=fa_, front_b=fb_, addr_salt=seed)
        pmap(w_rxhist, [(link.default_cfg(dyn=d_, pl=p_, pipe=pp, **b_), seed, pid) for d_, p_, pp in ((True, 32, 1), (True, 32, 0), (False, 8, 1), (False, 32, 5))], rep)
    if not only or "bidir" in only:
        fa = "busio" if tx_cls == "lite" else "spidev"
        fb = "busio" if rx_cls == "lite" else "spidev"
        bb = dict(tx_cls=tx_cls, rx_cls=rx_cls, front_a=fa, front_b=fb, addr_salt=seed)
        pmap(w_bidir, [(link.default_cfg(dyn=d_, pl=p_, **bb), seed, pid) for d_, p_ in ((True, 32), (False, 8), (False, 32))], rep)
    if not only or "core" in only:
        pmap(w_core, core, rep)
    if not only or "cross" in only:
        pmap(w_cross, cross, rep)
    if not only or "lists" in only:
        pmap(w_lists, lists, rep)
    rep.states += len(rep.nontrivial) + len(core) + len(lists) + sum(len(c[0]) for c in cross)
    return dict(core_cfgs=len(core), cross_cfgs=sum(len(c[0]) for c in cross), list_cfgs=len(lists),
                perpipe_cfgs=sum(len(c[0]) for c in perpipe), burst_cfgs=len(burst))


def run(tier, seed, rep, only=None):
    b = run_link(tier, seed, rep, only=only)
    return dict(
        level="model_checking",
        exhaustive=True,
        rule="E-ENUM: every (length mode dyn|static 1..32) x payload length 0..40 x bytes/bytearray x send|write+poll on a "
             "fresh copy of a configured RF24 pair; every pipe 0..5 x address width x data rate x CRC/auto-ack x ask_no_ack x "
             "channel x SPI front at 3 lengths; every list/tuple/sequence of 1..3 payloads over 3 lengths; per-pipe static length vectors x pipe x boundary "
             "lengths; bursts of 1..5 write(write_only=True) calls before CE is raised (peer must get exactly the accepted ones); two directions: the peer's payload waits unread in the "
             "transmitter's RX FIFO during send(single|list|tuple, send_only=True) and is read afterwards; receiver-side histories (an earlier payload looked at with any() and flushed / read with an explicit length, any() on an empty FIFO) x the application idiom without any(). A case is "
             "non-trivial when the peer received at least one payload or a ValueError was due; distinct = distinct "
             "(configuration, case). states = configured initial states + distinct non-trivial result cases; transitions = executions.",
        bounds=dict(lengths="0..40", static_lengths="1..32", list_depth=3, channels="0,76,125" if tier == "quick" else "0..125", **b),
        trusted_base=["vf/sim.py (nRF24L01+ behavioural model, shared air, SPI fronts, virtual time)", "vf/ref/esb.py"],
        assumptions=["loss-free medium", "payload bytes are seed-derived position-dependent patterns plus all-0x00/all-0xFF, not all 256^32 values",
                     "CPython 3.12 only"],
        min_outcomes=4,
    )


def replay(data):
    r = data["replay"]
    if r.get("part") == "bidir":
        from ..engine import Report
        rep = Report()
        w_bidir((r["cfg"], r["seed"], data.get("property", PID)), rep)
        want = data.get("signature")
        return [(s_, v_["what"]) for s_, v_ in rep.violations.items() if want is None or s_ == want]
    cfg, case, seed = r["cfg"], r["case"], r["seed"]
    pack = link.build_pair(cfg)
    viol, outcome, got = run_case(pack, cfg, case, seed, data.get("property", PID))
    print("outcome:", outcome, "peer got:", got)
    want = data.get("signature")
    return [(s, w) for s, w in viol if want is None or s == want] or viol
