"""C06 - reassembly never delivers a message that was not sent in full.

E-BFS (engine.bfs) over every sequence of delivery events - per fragment stream: deliver the next
fragment / skip it / deliver it twice / deliver the one after it first (one adjacent swap per
stream) / the sender starts over (once); stray MORE and LAST fragments with no FIRST (also ones that
match a never-used reassembly cache); one complete unfragmented frame; application dequeue - for
several sets of streams (1..3 senders, coinciding or different frame ids, 2..7 fragments).

Two parts share one step function and one judge (vf.ref.reasm):
  queue - the events drive a real FrameQueueFrag directly through ONE re-used caller frame object
          (as the network layer does with its frame_buf);
  node  - the same events are packets injected over the air by a ghost PTX into a real RF24Network
          master node, followed by node.update(); dequeue is node.read()  (lower depth).
Fragment frames come from the independent reference encoder in vf.ref.reasm.

Oracle: every frame that becomes available to the application (observed by draining a deep copy of
the queue after every event, and at every dequeue) is byte for byte one complete sent message with
its origin, destination, id and type, and no message becomes available twice."""
import copy

from .. import harness as H
from .. import sim
from ..engine import bfs, pmap
from ..qcopy import fastcopy
from ..ref import reasm
from ..sim import HarnessError, Abort, MS

PID = "C06"
TO_NODE = 0  # the node under test is the master (every sender is one of its children)
STRAY_SENDER, UNFRAG_SENDER = 0o4, 0o5
ALL_KINDS = ("next", "skip", "twice", "swap", "rewind")  # ("again" only where a configuration names it)


# ---------------------------------------------------------------- configurations
def cfg_list(tier, seed):
    """sets of fragment streams; ids X != Y, both different from the id a fresh cache holds (0)"""
    X = 0x9120 + 5 * (seed % 1000)  # (uses the top bits of the 16-bit id)
    Y = X + 1
    q = tier == "quick"
    dq, dn = (8, 5) if q else (11, 6)
    S = lambda sender, fid, typ, n: dict(sender=sender, fid=fid, mtype=typ, n=n)  # noqa: E731
    c = []
    c.append(dict(name="2-senders-same-id", streams=[S(0o1, X, 65, 2), S(0o2, X, 66, 3)], strays=False))
    c.append(dict(name="2-senders-other-id", streams=[S(0o1, X, 65, 3), S(0o2, Y, 66, 2)], strays=False))
    c.append(dict(name="1-sender-two-ids", streams=[S(0o1, X, 65, 2), S(0o1, Y, 65, 3)], strays=False))
    # (three streams that may each start over make the space explode; restarts are explored with 1 and 2 streams)
    c.append(dict(name="3-senders", streams=[S(0o1, X, 65, 2), S(0o2, X, 66, 2), S(0o3, Y, 67, 3)], strays=False,
                  kinds=("next", "skip", "twice", "swap")))
    c.append(dict(name="single-n4-strays", streams=[S(0o1, X, 65, 4)], strays=True))
    c.append(dict(name="blank-cache-id", streams=[S(0o1, 0, 65, 3)], strays=True))
    c.append(dict(name="single-n2", streams=[S(0o1, X, 65, 2)], strays=False))
    c.append(dict(name="single-n3", streams=[S(0o1, X, 65, 3)], strays=False))
    c.append(dict(name="small-type-n3", streams=[S(0o1, X, 3, 3)], strays=False))
    # a queue with room for 1 (2) frames: the LAST fragment arrives while the queue is full, the application reads, the same
    # fragment arrives again ("again": the most recently delivered fragment of a stream is repeated at any later moment,
    # e.g. a re-transmission after a lost acknowledgement that the radio's PID filter no longer catches)
    AG = ("next", "skip", "twice", "again")
    c.append(dict(name="single-n2-queue-of-1", streams=[S(0o1, X, 65, 2)], strays=False, maxq=1, kinds=AG, empty=True))
    c.append(dict(name="single-n3-queue-of-1", streams=[S(0o1, X, 65, 3)], strays=False, maxq=1, kinds=AG))
    c.append(dict(name="2-senders-same-id-queue-of-2", streams=[S(0o1, X, 65, 2), S(0o2, X, 66, 2)], strays=False, maxq=2, kinds=AG))
    c.append(dict(name="single-n3-again", streams=[S(0o1, X, 65, 3)], strays=False, kinds=ALL_KINDS + ("again",), empty=True))
    # the application toggles `fragmentation` off and on (once, at any moment): waiting frames are carried over, duplicates of them
    # must still be refused
    c.append(dict(name="single-n2-toggle", streams=[S(0o1, X, 65, 2)], strays=False, toggle=True))
    c.append(dict(name="2-senders-same-id-toggle", streams=[S(0o1, X, 65, 2), S(0o2, X, 66, 2)], strays=False, toggle=True, kinds=("next", "skip", "twice", "rewind")))
    # message types that look like a fragment counter (1, 2: the reserved byte of a finished message's LAST fragment) with a queue that
    # refuses the finished message (full, or the same message still unread) - and the application reading in between
    c.append(dict(name="type1-n2-queue-of-1", streams=[S(0o1, X, 1, 2)], strays=False, maxq=1, kinds=AG))
    c.append(dict(name="type2-n3-queue-of-1", streams=[S(0o1, X, 2, 3)], strays=False, maxq=1, kinds=AG))
    c.append(dict(name="type1-n2-again", streams=[S(0o1, X, 1, 2)], strays=False, kinds=ALL_KINDS + ("again",)))
    c.append(dict(name="type2-n3-again", streams=[S(0o1, X, 2, 3)], strays=False, kinds=ALL_KINDS + ("again",)))
    # one sender re-uses its header (same frame id, same type) for two different messages in a row: the second stream starts
    # only when the first has ended (a sender transmits one message at a time), whatever was lost of the first.  The FIRST
    # fragment of the second message is never lost here: without it the second message's LAST is, on the wire, exactly the LAST
    # the first message was waiting for (same origin, id and type, no counter in a LAST fragment) and no receiver can tell
    # the splice from a message - my first version allowed that loss and reported FIRST(a) + LAST(b) on the unchanged tree,
    # a false alarm of the new configuration, corrected before it was registered
    c.append(dict(name="1-sender-same-id-in-a-row", streams=[S(0o1, X, 65, 3), dict(S(0o1, X, 65, 3), after=0)], strays=False,
                  kinds=("next", "skip", "twice")))
    c.append(dict(name="1-sender-same-id-in-a-row-n2-n4", streams=[S(0o1, X, 65, 2), dict(S(0o1, X, 65, 4), after=0)], strays=False,
                  kinds=("next", "skip", "twice")))
    if q:
        # the largest message of the quantifier (7 fragments, 149 bytes - more than the 144 a node's own sender produces)
        c.append(dict(name="single-n7", streams=[S(0o1, X, 65, 7)], strays=False, kinds=("next", "skip", "twice")))
    if not q:
        for n in (5, 6, 7):
            c.append(dict(name="single-n%d" % n, streams=[S(0o1, X, 65, n)], strays=False))
        c.append(dict(name="2-senders-same-id-n4-n5", streams=[S(0o1, X, 65, 4), S(0o2, X, 66, 5)], strays=False))
        c.append(dict(name="2-senders-same-id-n7-n2", streams=[S(0o1, X, 65, 7), S(0o2, X, 66, 2)], strays=False))
        c.append(dict(name="3-senders-n3-n4-n2", streams=[S(0o1, X, 65, 3), S(0o2, X, 66, 4), S(0o3, Y, 67, 2)], strays=False,
                      kinds=("next", "skip", "twice", "swap")))
    for x in c:
        x.update(seed=seed, depth=dq, part="queue")
    # through a real node's update(): the configurations that exercise every kind of event
    nodecfg = []
    for name in ("2-senders-same-id", "single-n4-strays", "blank-cache-id", "3-senders", "single-n2-queue-of-1", "single-n3-again", "type1-n2-queue-of-1", "single-n2-toggle"):
        x = dict([y for y in c if y["name"] == name][0])
        x.update(part="node", depth=dn)
        nodecfg.append(x)
    return c + nodecfg


class Cfg:
    """a configuration with its reference-encoded frames and judge"""

    def __init__(self, d):
        self.d = d
        seed = d["seed"]
        self.streams = []
        spec = list(d["streams"])
        self.n_reg = len(spec)
        if d["strays"]:
            Z = 0x0777 + 3 * (seed % 1000)
            spec.append(dict(sender=STRAY_SENDER, fid=0, mtype=70, n=3, label="stray-blank"))
            spec.append(dict(sender=STRAY_SENDER, fid=Z, mtype=72, n=3, label="stray-other"))
        spec.append(dict(sender=UNFRAG_SENDER, fid=0x0555, mtype=71, n=1, label="unfragmented"))
        if d.get("empty"):  # a message without a body (header-only frame), e.g. a heartbeat
            spec.append(dict(sender=UNFRAG_SENDER, fid=0x0556, mtype=73, n=1, label="unfragmented-empty", empty=True))
        for si, s in enumerate(spec):
            n = s["n"]
            if n == 1:
                bodies = [b"" if s.get("empty") else H.pattern(10, seed, 900 + si)]
            else:
                bodies = [H.pattern(24, seed, 100 + 16 * si + fi) for fi in range(n - 1)]
                bodies.append(H.pattern(5 + si, seed, 100 + 16 * si + n - 1))
            msg = reasm.Msg(s["sender"], TO_NODE, s["fid"], s["mtype"], b"".join(bodies))
            frames = reasm.encode(msg)
            if [bytes(f.body) for f in frames] != bodies or len(frames) != n:
                raise HarnessError("reference encoder self-check failed")
            ra = reasm.StrictReassembler()
            outs = [ra.feed(f) for f in frames]
            if outs[-1] != msg or any(o is not None for o in outs[:-1]):
                raise HarnessError("reference encoder/reassembler round trip failed")
            self.streams.append(dict(msg=msg, frames=frames, sender=s["sender"], label=s.get("label", "stream%d" % si)))
        self.unfrag = len(self.streams) - (2 if d.get("empty") else 1)
        self.unfrag_empty = len(self.streams) - 1 if d.get("empty") else None
        self.stray_events = []
        if d["strays"]:
            for si in (self.n_reg, self.n_reg + 1):
                self.stray_events += [(si, 1), (si, 2)]  # its MORE and its LAST
        self.judge = reasm.Judge(self.streams, blank_key=(TO_NODE, 0))

    def alphabet(self, st):
        hs = st.hs
        ev = []
        for k in range(self.n_reg):
            todo = hs.todo[k]
            after = self.d["streams"][k].get("after")
            if after is not None and hs.todo[after]:
                continue  # this stream follows another one of the same sender
            n = len(self.streams[k]["frames"])
            kinds = self.d.get("kinds") or ALL_KINDS
            if todo:
                ev += [(x, k) for x in ("next", "skip", "twice") if x in kinds and not (x == "skip" and after is not None and len(todo) == n)]
                if len(todo) >= 2 and not hs.swapped[k] and "swap" in kinds:
                    ev.append(("swap", k))
            if not hs.rewound[k] and todo != tuple(range(n)) and "rewind" in kinds:
                ev.append(("rewind", k))
            if "again" in kinds and hs.last[k] is not None and not hs.again[k]:
                ev.append(("again", k))
        ns = len(self.stray_events)
        for j in range(ns):
            if not hs.used[j]:
                ev.append(("stray", j))
        if not hs.used[ns]:
            ev.append(("unfrag",))
        if self.unfrag_empty is not None and not hs.used[ns + 1]:
            ev.append(("unfrag0",))
        ev.append(("deq",))
        if self.d.get("toggle") and not hs.toggled:
            ev.append(("toggle",))
        return ev


class HS:
    """harness + model side of a state (all values immutable)"""
    __slots__ = ("todo", "swapped", "rewound", "used", "handed", "prev", "last", "again", "toggled")

    def __init__(self, cfg):
        self.todo = tuple(tuple(range(len(cfg.streams[k]["frames"]))) for k in range(cfg.n_reg))
        self.swapped = (False,) * cfg.n_reg
        self.rewound = (False,) * cfg.n_reg
        self.used = (False,) * (len(cfg.stray_events) + (2 if cfg.unfrag_empty is not None else 1))
        self.last = (None,) * cfg.n_reg  # index of the fragment of stream k delivered most recently
        self.again = (False,) * cfg.n_reg
        self.handed = (0,) * len(cfg.streams)
        self.prev = ()
        self.toggled = False

    def copy(self):
        n = HS.__new__(HS)
        for k in HS.__slots__:
            setattr(n, k, getattr(self, k))
        return n

    def key(self):
        return tuple(getattr(self, k) for k in HS.__slots__)


class St:
    __slots__ = ("q", "buf", "pack", "hs")


def _set(t, i, v):
    return t[:i] + (v,) + t[i + 1:]


# ---------------------------------------------------------------- real objects
def mk_state(cfg):
    H.reset_frame_ids()  # a fresh cache then holds (to_node 0, frame id 0)
    st = St()
    st.hs = HS(cfg)
    if cfg.d["part"] == "node":
        w = sim.World().activate()
        node, radio = H.mk_node(w, TO_NODE)
        if cfg.d.get("maxq"):
            node.queue.max_queue_size = cfg.d["maxq"]
        ghost = H.mk_ghost_tx(w, "ghost")
        w.advance(1 * MS)
        st.pack, st.q, st.buf = (w, node, radio, ghost), None, None
    else:
        st.pack = None
        st.q = H.m_structs.FrameQueueFrag()
        if cfg.d.get("maxq"):
            st.q.max_queue_size = cfg.d["maxq"]
        st.buf = H.RF24NetworkFrame()
    return st


def clone(st):
    n = St()
    memo = {}
    n.q = fastcopy(st.q, memo)
    n.buf = fastcopy(st.buf, memo)
    n.pack = copy.deepcopy(st.pack, memo)
    n.hs = st.hs.copy()
    return n


def queue_of(st):
    return st.q if st.pack is None else st.pack[1].queue


def _reach(o, seen):
    i = id(o)
    if i in seen or isinstance(o, (int, bytes, str, bool, float, type(None))):
        return
    seen.add(i)
    if isinstance(o, (list, tuple)):
        for x in o:
            _reach(x, seen)
    elif hasattr(o, "__dict__"):
        for x in vars(o).values():
            _reach(x, seen)


def canon(st):
    if st.pack is not None:
        w, node, radio, ghost = st.pack
        return (radio.snapshot(), ghost.snapshot(), w.pending(), H.driver_state(node), st.hs.key())
    seen = set()
    _reach(st.q, seen)
    b = st.buf
    alias = (id(b) in seen, id(b.header) in seen, id(b.message) in seen and not isinstance(b.message, bytes))
    return (H._canon_val(st.q), H._canon_val(b), alias, st.hs.key())


def rec_of(fr):
    h = fr.header
    return (h.from_node, h.to_node, h.frame_id, h.message_type, bytes(fr.message))


def observe(st):
    """what the application would be handed if it drained the queue now (on a private copy)"""
    q2 = fastcopy(queue_of(st), {})
    out = []
    for _ in range(64):
        f = q2.dequeue()
        if f is None:
            return tuple(out)
        out.append(rec_of(f))
    raise HarnessError("queue does not drain")


def deliver(st, wire):
    """one frame reaches the node; -> enqueue()'s return value (queue part) / None (node part)"""
    if st.pack is None:
        b = st.buf  # ONE caller object, overwritten for every frame
        h = b.header
        h.from_node, h.to_node, h.frame_id, h.message_type, h.reserved = wire[:5]
        b.message = bytearray(wire.body)
        return st.q.enqueue(b)
    w, node, radio, ghost = st.pack
    pipe = wire.from_node & 7  # a child of the master transmits to the master's pipe <own digit>
    if not H.inject(w, ghost, H.net_pipe_address(TO_NODE, pipe), reasm.pack(wire)):
        raise HarnessError("injected frame was not stored by the node's radio")
    node.update()
    if radio.rx_fifo:
        raise HarnessError("update() left a payload in the RX FIFO")
    return None


def ev_str(cfg, ev):
    if ev[0] == "stray":
        si, fi = cfg.stray_events[ev[1]]
        return "stray-%s(%s)" % ("MORE" if fi == 1 else "LAST", cfg.streams[si]["label"])
    return "%s(%s)" % (ev[0], ",".join(str(x) for x in ev[1:]))


# ---------------------------------------------------------------- one transition + oracle
def step(st, ev, cfg, pid=PID):
    """-> (violations, outcome)"""
    H.reset_frame_ids()  # process-global counter: keep it out of the explored state
    if st.pack is not None:
        st.pack[0].activate()
    hs = st.hs
    kind = ev[0]
    viol = []

    def v(clause, what):
        viol.append(("%s/%s" % (pid, clause), what))

    sends = []
    if kind in ("next", "skip", "twice", "swap"):
        k = ev[1]
        todo = hs.todo[k]
        fr = cfg.streams[k]["frames"]
        if kind == "swap":
            sends = [fr[todo[1]]]
            hs.last = _set(hs.last, k, todo[1])
            hs.todo = _set(hs.todo, k, (todo[0],) + todo[2:])
            hs.swapped = _set(hs.swapped, k, True)
        else:
            sends = {"next": [fr[todo[0]]], "skip": [], "twice": [fr[todo[0]]] * 2}[kind]
            if sends:
                hs.last = _set(hs.last, k, todo[0])
            hs.todo = _set(hs.todo, k, todo[1:])
    elif kind == "again":
        k = ev[1]
        sends = [cfg.streams[k]["frames"][hs.last[k]]]
        hs.again = _set(hs.again, k, True)
    elif kind == "rewind":
        k = ev[1]
        hs.todo = _set(hs.todo, k, tuple(range(len(cfg.streams[k]["frames"]))))
        hs.rewound = _set(hs.rewound, k, True)
    elif kind == "stray":
        si, fi = cfg.stray_events[ev[1]]
        sends = [cfg.streams[si]["frames"][fi]]
        hs.used = _set(hs.used, ev[1], True)
    elif kind == "unfrag":
        sends = [cfg.streams[cfg.unfrag]["frames"][0]]
        hs.used = _set(hs.used, len(cfg.stray_events), True)
    elif kind == "unfrag0":
        sends = [cfg.streams[cfg.unfrag_empty]["frames"][0]]
        hs.used = _set(hs.used, len(cfg.stray_events) + 1, True)
    elif kind == "toggle":
        hs.toggled = True
    elif kind != "deq":
        raise HarnessError("unknown event %r" % (ev,))

    outcome = kind
    try:
        rets = [deliver(st, wr) for wr in sends]
        if kind == "toggle":
            # the application switches fragmentation off and on again (documented attribute): the queue object is rebuilt
            # twice, the frames waiting in it are carried over
            if st.pack is None:
                st.q = H.m_structs.FrameQueueFrag(H.m_structs.FrameQueue(st.q))
            else:
                st.pack[1].fragmentation = False
                st.pack[1].fragmentation = True
        if kind == "deq":
            got = queue_of(st).dequeue() if st.pack is None else st.pack[1].read()
            want = hs.prev[0] if hs.prev else None
            g = None if got is None else rec_of(got)
            if g != want:
                v("dequeue:differs-from-queued", "dequeue returned %r; the queue's head was %r" % (g, want))
            hs.prev = hs.prev[1:]
            outcome = "deq:" + ("none" if want is None else "message")
        obs = observe(st)
    except (HarnessError, Abort):
        raise
    except Exception as e:  # noqa
        v("exception:%s:%s" % (kind, type(e).__name__), "%s raised %r" % (ev_str(cfg, ev), e))
        return viol, kind + ":EXC"

    if obs[:len(hs.prev)] != hs.prev:
        v("queued-frame-changed:" + kind, "frames already queued changed from %r to %r" % (hs.prev, obs[:len(hs.prev)]))
        new = ()
    else:
        new = obs[len(hs.prev):]
    for rec in new:
        i = cfg.judge.match(rec)
        if i is None:
            shape = cfg.judge.shape(rec)
            v("splice:" + shape, "the queue hands out from=%o to=%o id=%d type=%d %d bytes = fragments %s, which no node sent as one message" % (
                rec[0], rec[1], rec[2], rec[3], len(rec[4]),
                [("?" if p is None else "%s#%d" % (cfg.streams[p[0]]["label"], p[1])) for p in cfg.judge.parse(rec[4])]))
            outcome = kind + ":delivers-BAD"
        else:
            if hs.handed[i]:
                shape = "dup-stream-redelivered" if i < cfg.n_reg and hs.rewound[i] else "dup-delivered-again"
                if shape == "dup-stream-redelivered" and any(cfg.judge.match(r0) == i for r0 in hs.prev):
                    shape = "dup-stream-accepted-while-first-copy-unread"  # the queue's own duplicate test sees both copies
                v("splice:" + shape, "message %s (id %d) becomes available a second time" % (cfg.streams[i]["label"], rec[2]))
                outcome = kind + ":delivers-AGAIN"
            else:
                outcome = kind + ":delivers-complete" + ("" if len(cfg.streams[i]["frames"]) > 1 else "-unfragmented")
            hs.handed = _set(hs.handed, i, hs.handed[i] + 1)
    if not new and sends:
        outcome = "%s:%s" % (kind, "cached-or-dropped" if rets[-1] is None else ("accepted" if rets[-1] else "refused"))
    hs.prev = obs
    return viol, outcome


# ---------------------------------------------------------------- work items
def _apply_fn(d, cfg, rep):
    def apply(st, ev, hist):
        viol, outcome = step(st, ev, cfg, d.get("pid", PID))
        rep.traces += 1
        rep.outcome(outcome.split(":", 1)[1] if ":" in outcome else outcome)
        if ":delivers" in outcome or outcome.startswith("deq:message"):
            rep.nt(repr((d["name"], outcome, st.hs.handed, st.hs.prev[-1:] and st.hs.prev[-1][:4])))
        evs = hist[1:] + [ev]
        for sig, what in viol:
            rep.violation(sig, "%s [%s %s: %s]" % (what, d["part"], d["name"], ", ".join(ev_str(cfg, e) for e in evs)),
                          {"cfg": d, "events": evs})
        if len(rep.samples) < 1 and outcome.endswith("delivers-complete") and len(evs) >= 4:
            rep.sample({"part": d["part"], "cfg": d["name"], "events": [ev_str(cfg, e) for e in evs], "outcome": outcome})
    return apply


def w_bfs(d, rep):
    cfg = Cfg(d)
    name = "%s:%s" % (d["part"], d["name"])
    s0, t0 = rep.states, rep.transitions
    done = bfs([(mk_state(cfg), "init")], cfg.alphabet, _apply_fn(d, cfg, rep), canon, d["depth"], rep, clone=clone)
    rep.part(name, states=rep.states - s0, transitions=rep.transitions - t0, depth_completed=done, closed=bool(done < d["depth"]))


# ---------------------------------------------------------------- end to end: the library's own sender
def w_end_to_end(item, rep):
    """Real sender -> (real router ->) real receiver on the simulated air (threaded world, C05's harness):
    whatever reaches an application queue must be byte-for-byte a message that was sent, with its type
    and origin - nothing else (no protocol frame, no shortened message) may be handed to any application.
    Delivery itself (liveness) is C05's business and is not judged here.  Cases with `lose`: two messages in a row through
    a relay that loses a subset of the frames it forwards."""
    from . import c05
    seed, cases = item
    for case in cases:
        obs = c05.run_unicast(case)
        mc = case.get("mcast_level") is not None
        to = 0o100 if mc else case["dst"]
        sent = (case["src"], to, case["mtype"], obs["msg"])
        sent_all = [sent] + ([(case["src"], to, case["second"][1], obs["msg2"])] if case.get("second") and "msg2" in obs else [])
        rep.case()
        rep.traces += 1
        rep.transitions += obs["npkts"]
        rep.nt("e2e:%r" % sorted(case.items(), key=str))
        bad = None
        for key, q in obs["queues"].items():
            for g in q:
                if g not in sent_all or (key != case["dst"] and not mc):
                    what = ("origin/type/destination" if g[3] == obs["msg"] else
                            ("shortened" if obs["msg"].startswith(g[3]) or len(g[3]) < len(obs["msg"]) else "content"))
                    bad = ("e2e:not-a-sent-message:%s:%s" % ("frag" if case["mlen"] > 24 else "single", what),
                           "application of node %o dequeues from=%o to=%o type=%d len=%d, which is none of the message(s) sent: %s" % (
                               key, g[0], g[1], g[2], len(g[3]), "; ".join("from=%o to=%o type=%d len=%d" % (x[0], x[1], x[2], len(x[3])) for x in sent_all)))
                    break
            if any(q.count(x) > 1 for x in sent_all):
                bad = ("e2e:delivered-twice:%s" % ("frag" if case["mlen"] > 24 else "single"), "node %o dequeues the message %d times" % (key, q.count(sent)))
            if bad:
                break
        rep.outcome("e2e:%s:%s%s" % ("frag" if case["mlen"] > 24 else "single", "violation" if bad else ("delivered" if sent in obs["queues"][case["dst"]] else "nothing-delivered"), ":mcast" if mc else ""))
        if bad:
            rep.violation("%s/%s" % (PID, bad[0]), bad[1], {"part": "e2e", "case": case})


def e2e_items(tier, seed):
    O = lambda x: int(x, 8)  # noqa: E731
    cases = []
    k = 0
    lens = (25, 47, 48, 49, 72, 96, 120, 143, 144) if tier == "quick" else tuple(range(25, 145))
    for (s_, d_) in ((O("1"), O("0")), (O("0"), O("1")), (O("11"), O("1"))):  # direct neighbours: every fragment count
        for n in lens:
            k += 1
            cases.append(dict(topo="chain", src=s_, dst=d_, mlen=n, mtype=(1, 65, 127)[k % 3], frag=True, cost=k % 4, lat=k % 3, api="send" if k % 2 else "write",
                              seed=seed, id0=(k * 7919) & 0xFFFF))
    for (s_, d_) in ((O("11"), O("0")), (O("1"), O("5")), (O("111"), O("45"))):  # routed: single frames and 2-3 fragments, all type classes
        for n, t in ((0, 65), (10, 127), (24, 1), (24, 191), (30, 65), (49, 1), (60, 127)):
            k += 1
            cases.append(dict(topo="chain", src=s_, dst=d_, mlen=n, mtype=t, frag=True, cost=0, lat=k % 3, api="send", seed=seed, id0=(k * 7919) & 0xFFFF))
            # ... and sent with a re-used header object that already names an origin (reply idiom: the peer's address; or a third node's)
            cases.append(dict(cases[-1], hdr_from="dst" if k % 2 else 0o2, api="send" if k % 4 < 2 else "write"))
    # two fragmented messages in a row from one sender through a relay that loses any subset of the frames it forwards
    # (the origin does not notice: types below 65 are not acknowledged end to end): what the destination's application
    # gets is one of the two messages or nothing - never the head of one completed by the tail of the other
    import itertools
    for (l1, l2) in ((30, 40), (49, 30), (30, 60), (72, 72)) if tier == "quick" else ((30, 40), (49, 30), (30, 60), (72, 72), (25, 144), (144, 25), (96, 49)):
        nfr = (l1 + 23) // 24 + (l2 + 23) // 24
        for r_ in range(0, nfr + 1):
            for lose in itertools.combinations(range(nfr), r_):
                if r_ > (6 if tier == "quick" else 4) and nfr > 6:
                    continue
                k += 1
                cases.append(dict(topo="chain", src=O("11"), dst=O("0"), mlen=l1, mtype=1, frag=True, cost=(0, 2)[k % 2], lat=k % 2, api="send", seed=seed,
                                  id0=(k * 7919) & 0xFFFF, second=[l2, 1], lose=list(lose), lose_at=O("1")))
    # the same between connected mesh nodes (RF24Mesh.write() by address; master -> 0o11 through relay 0o1, and upwards)
    for (s_, d_, l1, l2) in ((O("0"), O("11"), 30, 40), (O("11"), O("0"), 49, 30)) if tier == "quick" else ((O("0"), O("11"), 30, 40), (O("11"), O("0"), 49, 30), (O("0"), O("11"), 72, 72), (O("21"), O("11"), 30, 60)):
        nfr = (l1 + 23) // 24 + (l2 + 23) // 24
        for r_ in range(0, nfr + 1):
            for lose in itertools.combinations(range(nfr), r_):
                k += 1
                cases.append(dict(topo="meshy", src=s_, dst=d_, mlen=l1, mtype=1, frag=True, cost=(0, 2)[k % 2], lat=k % 2, api="mesh-write", seed=seed,
                                  id0=(k * 7919) & 0xFFFF, second=[l2, 1], lose=list(lose), lose_at=O("1")))
    # the same with two fragmented MULTICASTS in a row (no frame of the sender's own in between), any subset of the frames lost on the air
    for (l1, l2) in ((30, 40), (49, 30), (30, 60), (72, 72)) if tier == "quick" else ((30, 40), (49, 30), (30, 60), (72, 72), (25, 144), (144, 25), (96, 49)):
        nfr = (l1 + 23) // 24 + (l2 + 23) // 24
        for r_ in range(0, nfr + 1):
            for lose in itertools.combinations(range(nfr), r_):
                if r_ > (6 if tier == "quick" else 4) and nfr > 6:
                    continue
                k += 1
                cases.append(dict(topo="chain", src=O("0"), dst=O("1"), mlen=l1, mtype=1, frag=True, cost=(0, 2)[k % 2], lat=0, api="send", seed=seed,
                                  id0=(k * 7919) & 0xFFFF, second=[l2, 1], lose=list(lose), lose_at=O("0"), mcast_level=1, second_gap_ms=0))
    return [(seed, cases[i:i + 6]) for i in range(0, len(cases), 6)]


def run(tier, seed, rep, only=None):
    if not only or "e2e" in only:
        pmap(w_end_to_end, e2e_items(tier, seed), rep)
    cfgs = cfg_list(tier, seed)
    if only:
        cfgs = [c for c in cfgs if c["part"] in only or c["name"] in only]
    cfgs.sort(key=lambda c: (c["part"] != "node", -len(c["streams"])))  # longest jobs first
    pmap(w_bfs, cfgs, rep)
    dq = max([c["depth"] for c in cfgs if c["part"] == "queue"] or [0])
    dn = max([c["depth"] for c in cfgs if c["part"] == "node"] or [0])
    return dict(
        level="model_checking",
        exhaustive=True,
        rule="E-BFS with dedup on (reassembly cache + queue + re-used caller frame incl. aliasing + per-stream delivery "
             "position/swap/restart flags + which messages were already handed out) over every sequence of delivery events up "
             "to the depth, per configuration (set of fragment streams); the queue's complete contents are drained from a deep "
             "copy after every event and every frame that newly became available is judged. The node part injects the same "
             "events as packets from a ghost PTX and calls the real update(). Non-trivial = transitions on which a frame became "
             "available or was dequeued; distinct = distinct (configuration, outcome, messages handed out so far, frame header). End-to-end part (threaded world, the "
             "library's own sender): every fragment count over direct links, routed single frames and 2-3 fragments, and two fragmented messages in a row "
             "through a relay that loses every subset (quick: up to 2 of 5) of the frames it forwards - nothing but a sent message may reach an application.",
        bounds=dict(depth_queue=dq, depth_node=dn,
                    configurations=[dict(part=c["part"], name=c["name"], streams=[(oct(s["sender"]), s["fid"], s["mtype"], s["n"]) for s in c["streams"]],
                                         strays=c["strays"]) for c in cfgs],
                    events=["next(k)", "skip(k)", "twice(k)", "swap(k) (fragment j+1 before j, once per stream)",
                            "rewind(k) (the sender starts the same message over, once per stream)",
                            "stray MORE / stray LAST of a message whose other fragments were lost (id 0 = fresh cache's id, or another id)",
                            "one complete unfragmented frame", "one complete frame with an empty message (configurations with it)",
                            "again(k) (the fragment of stream k delivered most recently arrives once more, at any later moment; configurations with it)",
                            "deq"],
                    queue_capacity="default 6; 1 or 2 in the *-queue-of-N configurations"),
        trusted_base=["vf/ref/reasm.py (reference encoder + judge)", "vf/sim.py and vf/harness.py net_pipe_address (node part only)"],
        assumptions=["fragment bodies are seed-derived, pairwise different and prefix-free (so the composition of a delivered frame is decidable)",
                     "the receiving node is the master (address 0); senders are its children 0o1..0o5",
                     "message types 65..72 (and 3 in one configuration); NETWORK_EXT_DATA (131) is not used",
                     "CPython 3.12 only"],
        min_outcomes=6,
    )


def replay(data):
    r = data["replay"]
    if r.get("part") == "e2e":
        from ..engine import Report
        rp = Report()
        w_end_to_end((r["case"].get("seed", 0), [r["case"]]), rp)
        want = data.get("signature")
        return [(s_, v_["what"]) for s_, v_ in rp.violations.items() if want is None or s_ == want]
    d = dict(r["cfg"])
    d["streams"] = [dict(s) for s in d["streams"]]
    cfg = Cfg(d)
    st = mk_state(cfg)
    want = data.get("signature")
    found = []
    for ev in r["events"]:
        ev = tuple(ev)
        viol, outcome = step(st, ev, cfg, data.get("property", PID))
        print("%-28s -> %-32s queue=%s" % (ev_str(cfg, ev), outcome, [(oct(x[0]), x[2], x[3], len(x[4])) for x in st.hs.prev]))
        found += viol
    return [f for f in found if want is None or f[0] == want] or found
