"""C10 - FIFO and status accessors report the radio's true state.

E-BFS (engine.bfs) over sequences of traffic events and accessor calls.  A state is the deep-copied
tuple (world, device-under-test driver, its radio, ghost peers).  Traffic is produced by ghosts:
a ghost PTX injects payloads into pipes 0/1/5 of the listening DUT; in TX role the DUT transmits to
a ghost PRX that acknowledges (optionally with an ACK payload) or is deaf (-> MAX_RT).

Oracle after every operation, from the simulator's ground truth only (FIFO lists, STATUS/CONFIG/
OBSERVE_TX registers, IRQ line, the STATUS byte the radio shifted out in the last SPI transaction,
packets on the air): see `Checker`.
"""
import pickle

from .. import harness as H
from .. import link
from .. import sim
from ..engine import pmap, bfs, jsonable
from ..sim import HarnessError, Abort, MS, US

PID = "C10"
PIPES = (0, 1, 5)
LENS = (1, 5, 32)
STATIC_LEN = {0: 5, 1: 32, 5: 1}  # per-pipe static payload lengths (full driver); lite: 5 everywhere
BUSY = ("tx_settle", "tx", "ack_wait")


class LoseFirst:
    """world.fault: the first k data packets of the DUT are lost"""

    def __init__(self, k):
        self.k = k

    def __call__(self, pkt):
        if not pkt.is_ack and self.k > 0:
            self.k -= 1
            return True
        return False


class St:
    """one explicit state (deep-copied as a whole)"""
    __slots__ = ("w", "d", "rd", "gs", "gl", "spec", "irq_cfg", "last_retx", "last_status", "addr", "bystander")


# ---------------------------------------------------------------- roots
def addr_of(seed, pipe):
    s = seed & 0x3F
    base = bytes([(0xB1 + s) & 0xFF, 0xB2, 0xB3, 0xB4, 0xB5])
    if pipe == 0:
        return bytes([0xA0 + (s & 0x0F), 0xA2, 0xA3, 0xA4, 0xA5])
    if pipe == 1:
        return base
    return bytes([0xC0 + pipe]) + base[1:]


def static_len(spec, pipe):
    return 5 if spec["cls"] == "lite" else STATIC_LEN[pipe]


def mk_root(spec, seed):
    """spec: dict(cls, role 'rx'|'tx', mode 'dyn'|'static'|'mixed', ackpl bool)"""
    w = sim.World().activate()
    lite = spec["cls"] == "lite"
    d, rd = H.mk_driver(w, "D", cls=link.cls_of(spec["cls"]), front="busio" if lite else "spidev", spilog=True)
    mode = spec["mode"]
    if mode == "static":
        d.dynamic_payloads = False
        if lite:
            d.payload_length = 5
        else:
            d.payload_length = [STATIC_LEN.get(p, 32) for p in range(6)]
    elif mode == "mixed":  # full driver only: pipe 1 static (32 bytes), the others dynamic
        d.dynamic_payloads = [True, False, True, True, True, True]
        d.payload_length = [STATIC_LEN.get(p, 32) for p in range(6)]
    if spec["ackpl"]:
        d.ack = True
    s = St()
    s.w, s.d, s.rd, s.gs, s.gl, s.spec = w, d, rd, None, None, spec
    s.bystander = None
    s.irq_cfg = (True, True, True)
    s.last_retx = 0
    s.addr = {p: addr_of(seed, p) for p in PIPES}
    if spec["role"] == "rx":
        d.open_rx_pipe(1, s.addr[1])
        d.open_rx_pipe(5, s.addr[5])
        d.open_rx_pipe(0, s.addr[0])
        d.listen = True
        dyn = mode != "static"
        s.gs = sim.ghost_sender(w, "gs", dynpd=0x3F if dyn else 0, feature=0x05 if dyn else 0x01)
    else:
        d.arc = 3
        d.ard = 500
        d.listen = False
        d.open_tx_pipe(s.addr[1])
        dyn = mode != "static"
        s.gl = sim.ghost_listener(w, "gl", [None, s.addr[1]], dynpd=0x3F if dyn else 0,
                                  feature=(0x06 if spec["ackpl"] else 0x04) if dyn else 0, pw=static_len(spec, 0))
    w.advance(500 * US)
    if spec.get("bystander"):
        s.bystander = H.bystander(w, link.cls_of(spec["cls"]))  # another object of the class, configured differently (kept alive)
        w.advance(500 * US)
    w.airlog.clear()
    rd.spilog[:] = rd.spilog[-1:]
    s.last_status = rd.spilog[-1][2][0]
    return s


# ---------------------------------------------------------------- canonical state
def canon_radio(r):
    """radio.snapshot() without the PID counters / last-received signature (no duplicate is ever
    injected: checked in ev_rx) and without PLOS_CNT (no operation of the alphabet reads it)"""
    regs = tuple((k, (v & 0x0F) if k == 0x08 else v) for k, v in sorted(r.r.items()))
    return (regs, tuple((k, bytes(v)) for k, v in sorted(r.a.items())), r.features_active,
            tuple((e.data, e.noack, e.ack_pipe, e.pid is not None) for e in r.tx_fifo), tuple(r.rx_fifo),
            r.reuse, r.ce_pin.value, r.state, r.in_txn, r.arc_cnt,
            tuple(sorted((p, e.data) for p, e in r.pending_ack.items())))


def canon(s):
    return (canon_radio(s.rd), H.driver_state(s.d), s.w.pending(), s.last_status, s.irq_cfg, s.last_retx)


# ---------------------------------------------------------------- ground truth views
def view(rd):
    return dict(flags=rd.r[7] & 0x70, rx=tuple(rd.rx_fifo),
                tx=tuple((e.data, e.noack, e.ack_pipe) for e in rd.tx_fifo), config=rd.r[0],
                arc_cnt=rd.r[8] & 0x0F, ce=rd.ce_pin.value,
                registers=tuple(sorted((k, v) for k, v in rd.r.items() if k not in (0, 7, 8, 9, 0x17))),
                addresses=tuple((k, bytes(v)) for k, v in sorted(rd.a.items())),
                mode=(rd.state, rd.features_active, rd.reuse))


def decode(st):
    """STATUS byte -> documented accessor values (datasheet 9.1, register 07)"""
    p = (st >> 1) & 7
    return {"tx_full": bool(st & 1), "pipe": p if p <= 5 else None, "irq_dr": bool(st & 0x40),
            "irq_ds": bool(st & 0x20), "irq_df": bool(st & 0x10)}


def fifo_expect(n, about_tx_unused, check_empty):
    """documented fifo() result for a FIFO holding n of 3 payloads"""
    if check_empty is None:
        return 1 if n == 0 else (2 if n >= 3 else 0)
    return (n == 0) if check_empty else (n >= 3)


PROPS = ("tx_full", "pipe", "irq_dr", "irq_ds", "irq_df")
READONLY = ("update", "available", "pipe", "any", "fifo", "fifo0", "tx_full", "irq_dr", "irq_ds", "irq_df", "last_tx_arc")
EVENTS = ("rx", "load_ack", "tx", "wo", "pulse")


def opname(op):
    if op[0] == "fifo":
        return "fifo(%s,%s)" % ("tx" if op[1] else "rx", {None: "None", True: "empty", False: "full"}[op[2]])
    if op[0] == "fifo0":
        return "fifo()"
    if op[0] == "clear":
        return "clear_status_flags"
    if op[0] == "clear0":
        return "clear_status_flags()"
    if op[0] == "irqcfg":
        return "interrupt_config"
    if op[0] == "irqcfg0":
        return "interrupt_config()"
    if op[0] == "readn":
        return "read"
    return op[0]


def showop(op):
    return "%s(%s)" % (op[0], ",".join(repr(x) for x in op[1:]))


# ---------------------------------------------------------------- traffic events
def ev_payload(seed, kind, a, b):
    return H.pattern(b, seed, {"rx": 10, "ack": 60, "tx": 110, "gack": 160}[kind] + a * 7 + b)


def settle(s):
    try:
        s.w.settle(max_ns=200 * MS)
    except Abort:
        raise HarnessError("horizon while letting the radios finish")
    if s.rd.in_txn or s.rd.state in BUSY:
        raise HarnessError("DUT radio still busy after settle")


def reset_ghost(g):
    g.rx_fifo.clear()
    g.tx_fifo.clear()
    g.pending_ack.clear()
    g.r[0x07] &= ~0x70


def apply_event(s, op, seed):
    """environment / application traffic step (not an accessor under test).  Goes through the
    real driver where the DUT has to act (write, load_ack, CE)."""
    w, d, rd = s.w, s.d, s.rd
    k = op[0]
    if k == "rx":
        _, pipe, n = op
        before = len(rd.rx_fifo)
        gs = s.gs
        pid0 = gs.pid
        H.inject(w, gs, s.addr[pipe], ev_payload(seed, "rx", pipe, n), wait=3 * MS)
        for p in w.airlog:
            if any(h.endswith(":dup") for h in p.heard_by):
                raise HarnessError("an injected packet was classified as a duplicate")
        if len(rd.rx_fifo) == before:
            if before < 3:
                raise HarnessError("injected packet was not received (pipe %d, %d bytes)" % (pipe, n))
            gs.pid = pid0  # the sender will retry *this* packet later: its PID is not consumed
        reset_ghost(gs)
    elif k == "load_ack":
        _, pipe, n = op
        d.load_ack(ev_payload(seed, "ack", pipe, n), pipe)
    elif k in ("tx", "wo", "pulse"):
        gl = s.gl
        air0 = len(w.airlog)
        if k == "wo":
            d.write(ev_payload(seed, "tx", 0, op[1]), write_only=True)
        else:
            lost, ackn, deaf = (op[2], op[3], op[4]) if k == "tx" else (0, 0, False)
            if lost:
                w.fault = LoseFirst(lost)
            if deaf:
                gl.ce_pin.value = False
            if ackn:
                gl.uid += 1
                gl.tx_fifo.append(sim.TxEntry(ev_payload(seed, "gack", 1, ackn), False, 1, gl.uid))
            if k == "tx":
                d.write(ev_payload(seed, "tx", 1, op[1]))
            else:
                d.ce_pin = True
            settle(s)
            d.ce_pin = False
            w.fault = None
            if deaf:
                gl.ce_pin.value = True
            settle(s)
            reset_ghost(gl)
        mine = [p for p in w.airlog[air0:] if p.src is rd and not p.is_ack]
        if mine:
            last = mine[-1]
            n = 0
            for p in reversed(mine):
                if p.pid == last.pid and p.payload == last.payload:
                    n += 1
                else:
                    break
            s.last_retx = n - 1
    else:
        raise HarnessError("unknown event %r" % (op,))
    settle(s)
    w.airlog.clear()


# ---------------------------------------------------------------- the oracle
class Checker:
    def __init__(self, rep, seed, pid, root_label):
        self.rep, self.seed, self.pid, self.root = rep, seed, pid, root_label

    def report(self, clause, what, s, hist, op):
        sig = "%s/%s" % (self.pid, clause)
        ops = [list(o) for o in hist[1:]] + [list(op)]
        what = "%s [root %s; after %s]" % (what, self.root, " ".join(showop(o) for o in hist[1:]) or "-")
        rank = [len(ops), repr(ops)]
        key = "c10cand|%s|%s" % (sig, self.root)
        self.rep.violation(sig, what, {"spec": s.spec, "ops": ops, "seed": self.seed})
        if key not in self.rep.notes or rank < self.rep.notes[key][0]:
            self.rep.notes[key] = [rank, what, jsonable({"spec": s.spec, "ops": ops, "seed": self.seed})]

    def apply(self, s, op, hist):
        """bfs callback: apply `op` to the (private) state and check every clause"""
        s.w.activate()
        rd, d = s.rd, s.d
        rd.spilog[:] = rd.spilog[-1:]
        nlog = len(rd.spilog)
        name = opname(op)
        before = view(rd)
        st_before = s.last_status
        k = op[0]
        ret, exc = None, None
        try:
            if k in EVENTS:
                apply_event(s, op, self.seed)
            elif k == "update":
                ret = d.update()
            elif k == "available":
                ret = d.available()
            elif k in PROPS:
                ret = getattr(d, k)
            elif k == "any":
                ret = d.any()
            elif k == "read":
                ret = d.read()
            elif k == "readn":  # explicit length == length of the head payload (other lengths: see assumptions)
                ret = d.read(len(rd.rx_fifo[0][1]))
            elif k == "fifo":
                ret = d.fifo(op[1], op[2])
            elif k == "fifo0":
                ret = d.fifo()
            elif k == "clear":
                d.clear_status_flags(op[1], op[2], op[3])
            elif k == "clear0":
                d.clear_status_flags()
            elif k == "flush_rx":
                d.flush_rx()
            elif k == "flush_tx":
                d.flush_tx()
            elif k == "last_tx_arc":
                ret = d.last_tx_arc
            elif k == "irqcfg":
                d.interrupt_config(op[1], op[2], op[3])
            elif k == "irqcfg0":
                d.interrupt_config()
            else:
                raise HarnessError("unknown op %r" % (op,))
        except (HarnessError, Abort):
            raise
        except Exception as e:  # noqa
            exc = type(e).__name__
        after = view(rd)
        did_spi = len(rd.spilog) > nlog
        s.last_status = rd.spilog[-1][2][0]
        bad = False

        def V(clause, what):
            nonlocal bad
            bad = True
            self.report(clause, what, s, hist, op)

        if exc is not None:
            V("exception:%s:%s" % (name, exc), "%s raised %s" % (showop(op), exc))
            return False
        if rd.anomalies or rd.illegal_writes or rd.ro_writes:
            V("spi-undefined:%s" % name, "%s issued a command the datasheet leaves undefined / a reserved write: %r"
              % (showop(op), (rd.anomalies + rd.illegal_writes + rd.ro_writes)[:2]))
            del rd.anomalies[:], rd.illegal_writes[:], rd.ro_writes[:]
        n_rx, n_tx = len(before["rx"]), len(before["tx"])
        if k not in EVENTS:
            # ---- effect on the radio: exactly the documented one
            exp = dict(before)
            if k in ("read", "readn") and n_rx:
                exp["rx"] = before["rx"][1:]
                exp["flags"] = before["flags"] & ~0x40
            elif k in ("clear", "clear0"):
                a, b, c = (op[1], op[2], op[3]) if k == "clear" else (True, True, True)
                exp["flags"] = before["flags"] & ~((0x40 if a else 0) | (0x20 if b else 0) | (0x10 if c else 0))
            elif k == "flush_rx":
                exp["rx"] = ()
            elif k == "flush_tx":
                exp["tx"] = ()
            elif k in ("irqcfg", "irqcfg0"):
                a, b, c = (op[1], op[2], op[3]) if k == "irqcfg" else (True, True, True)
                exp["config"] = (before["config"] & 0x0F) | (0 if a else 0x40) | (0 if b else 0x20) | (0 if c else 0x10)
                s.irq_cfg = (bool(a), bool(b), bool(c))
            for key in ("rx", "tx", "flags", "config", "arc_cnt", "ce", "registers", "addresses", "mode"):
                if after[key] != exp[key]:
                    V("effect:%s:%s" % (name, key), "%s changed the radio's %s from %r to %r, expected %r"
                      % (showop(op), key, _brief(before[key]), _brief(after[key]), _brief(exp[key])))
                    break
            # ---- return values against the ground truth (state before == state after for these)
            if k == "update":
                if ret is not True:
                    V("value:update", "update() returned %r" % (ret,))
                elif not did_spi or s.last_status != rd.status():
                    V("stale:update", "after update() the last STATUS shifted out is %#04x, the radio's STATUS is %#04x" % (s.last_status, rd.status()))
            elif k == "available":
                if ret is not (n_rx > 0):
                    V("value:available", "available() returned %r with %d payload(s) in the RX FIFO" % (ret, n_rx))
                elif not did_spi or s.last_status != rd.status():
                    V("stale:available", "available() did not refresh the status byte")
            elif k == "any":
                want = len(before["rx"][0][1]) if n_rx else 0
                if ret != want or isinstance(ret, bool):
                    V("value:any", "any() returned %r, the next payload in the RX FIFO has %d bytes (pipe %s, %d queued)"
                      % (ret, want, before["rx"][0][0] if n_rx else None, n_rx))
            elif k in ("read", "readn"):
                want = bytes(before["rx"][0][1]) if n_rx else None
                got = bytes(ret) if isinstance(ret, (bytes, bytearray)) else ret
                if got != want:
                    V("value:read", "read() returned %r, the head of the RX FIFO was %r" % (_brief(got), _brief(want)))
                elif n_rx and (s.last_status >> 1) & 7 != (after["rx"][0][0] if after["rx"] else 7):
                    # "after ... any other transaction ... pipe describes the next payload's pipe": read() is the transaction that
                    # changes what the next payload is, and it ends with a status-refreshing transaction of its own
                    V("stale:read", "after read() the status byte names pipe %s as the next payload's, the RX FIFO's head is %s (%d left)"
                      % ((s.last_status >> 1) & 7, after["rx"][0][0] if after["rx"] else "empty (7)", len(after["rx"])))
            elif k in ("fifo", "fifo0"):
                about_tx, ce = (op[1], op[2]) if k == "fifo" else (False, None)
                want = fifo_expect(n_tx if about_tx else n_rx, about_tx, ce)
                if ret != want or (ce is not None and not isinstance(ret, bool)) or (ce is None and isinstance(ret, bool)):
                    V("value:%s" % name, "%s returned %r with %d payload(s) in the %s FIFO, documented result %r"
                      % (showop(op), ret, n_tx if about_tx else n_rx, "TX" if about_tx else "RX", want))
            elif k == "last_tx_arc":
                if ret != s.last_retx or isinstance(ret, bool):
                    V("value:last_tx_arc", "last_tx_arc is %r, the last packet was retransmitted %d time(s) on the air (ARC_CNT=%d)"
                      % (ret, s.last_retx, before["arc_cnt"]))
            elif k in PROPS:
                pass  # checked below for every operation
        else:
            if s.last_retx != (rd.r[8] & 0x0F) and k in ("tx", "pulse"):
                raise HarnessError("simulator ARC_CNT %d disagrees with the air log (%d retransmissions)" % (rd.r[8] & 0x0F, s.last_retx))
        # ---- cached status == STATUS shifted out in the most recent transaction (all property accessors)
        want = decode(s.last_status)
        for pname in PROPS:
            try:
                got = getattr(d, pname)
            except Exception as e:  # noqa
                V("exception:%s:%s" % (pname, type(e).__name__), "%s raised %s" % (pname, type(e).__name__))
                break
            if got != want[pname] or (pname != "pipe" and not isinstance(got, bool)):
                V("cache:%s" % pname, "%s is %r after %s; the STATUS byte shifted out in the last SPI transaction was %#04x (-> %r)"
                  % (pname, got, showop(op), s.last_status, want[pname]))
                break
        # ---- IRQ line asserted iff an enabled event is latched
        fl = after["flags"]
        en = s.irq_cfg
        asserted = bool((fl & 0x40 and en[0]) or (fl & 0x20 and en[1]) or (fl & 0x10 and en[2]))
        if not bad and (not rd.irq_line()) != asserted:
            which = "+".join(n for n, bit in (("dr", 0x40), ("ds", 0x20), ("df", 0x10)) if fl & bit) or "none"
            V("irq-line:%s" % ("missing" if asserted else "spurious"),
              "IRQ pin is %s with latched events {%s} and interrupt_config(data_recv=%s, data_sent=%s, data_fail=%s)"
              % ("idle" if asserted else "asserted", which, en[0], en[1], en[2]))
        # ---- coverage bookkeeping
        rep = self.rep
        if k in EVENTS:
            rep.outcome("%s:rx%d,tx%d,fl%x->rx%d,tx%d,fl%x" % (k, n_rx, n_tx, before["flags"] >> 4, len(after["rx"]), len(after["tx"]), after["flags"] >> 4))
        else:
            rep.outcome("%s:rx%d,tx%d,fl%x=%s" % (name, n_rx, n_tx, before["flags"] >> 4, _brief(ret) if not isinstance(ret, (bytes, bytearray)) else "bytes%d" % len(ret)))
        if n_rx or n_tx or before["flags"] or k in EVENTS:
            # counted conservatively per abstract source state (not per path): see `rule`
            head = before["rx"][0] if n_rx else None
            rep.nt("%s|rx%d:%s|tx%d|fl%x|st%02x|%s" % (self.root, n_rx, (head[0], len(head[1])) if head else "-", n_tx,
                                                     before["flags"] >> 4, st_before, showop(op)))
        rep.traces += 1
        return not bad  # do not explore beyond a violating state


def _brief(x):
    if isinstance(x, (bytes, bytearray)):
        return "bytes:" + bytes(x).hex()
    if isinstance(x, tuple):
        return tuple(_brief(y) for y in x)
    return x


# ---------------------------------------------------------------- alphabets
def accessor_ops(group, cls):
    ops = []
    if group in ("fifo", "all"):
        ops += [("update",), ("available",), ("pipe",), ("any",), ("read",), ("tx_full",), ("irq_dr",), ("irq_ds",), ("irq_df",),
                ("fifo0",), ("flush_rx",), ("flush_tx",), ("clear0",), ("clear", True, False, False)]
        ops += [("fifo", t, e) for t in (False, True) for e in (None, True, False)]
        if cls != "lite":
            ops.append(("last_tx_arc",))
    if group in ("flags", "all"):
        ops += [("clear", a, b, c) for a in (False, True) for b in (False, True) for c in (False, True)]
        ops += [("update",), ("read",), ("irq_dr",), ("irq_ds",), ("irq_df",), ("clear0",)]
    if group in ("irq", "all"):
        ops += [("irqcfg", a, b, c) for a in (False, True) for b in (False, True) for c in (False, True)]
        ops += [("irqcfg0",), ("update",), ("read",), ("clear", True, False, False), ("clear", False, True, False), ("clear", False, False, True)]
    out = []
    for o in ops:
        if o not in out:
            out.append(o)
    return out


def event_ops(spec, group, variant=0):
    """traffic alphabet of a search (reduced in the flags / irq groups).  In dynamic mode the nine
    (pipe, length) combinations are spread over three alphabet variants so that every search
    stays small enough to reach its depth (or to exhaust its state space)."""
    full = group == "fifo"
    v = variant
    ev = []
    if spec["role"] == "rx":
        if spec["mode"] == "static":
            ev += [("rx", p, static_len(spec, p)) for p in PIPES]
        elif spec["mode"] == "mixed":
            ev += [("rx", 0, LENS[v % 3]), ("rx", 1, 32), ("rx", 5, LENS[(v + 1) % 3])]
        else:
            ev += [("rx", p, LENS[(i + v) % 3]) for i, p in enumerate(PIPES)]
        if spec["ackpl"]:
            la = [[("load_ack", 1, 32), ("load_ack", 5, 5)], [("load_ack", 0, 1), ("load_ack", 1, 5)], [("load_ack", 5, 32), ("load_ack", 0, 5)]][v % 3]
            ev += la if full else la[:1]
    else:
        # ("tx", len, first k transmissions lost, ACK payload length, peer deaf)
        ev += [("tx", 5, 0, 0, False), ("tx", 32, 2, 0, False), ("tx", 5, 0, 0, True)]
        if full:
            ev += [("tx", 1, 1, 0, False), ("tx", 32, 0, 0, True)]
        if spec["ackpl"]:
            ev += [("tx", 1, 0, 1, False), ("tx", 5, 1, 32, False)] if full else [("tx", 1, 0, 1, False)]
        ev += [("wo", 1), ("wo", 32), ("pulse",)] if full else [("wo", 1), ("pulse",)]
    return ev


def make_alphabet(spec, group, variant=0):
    ev = event_ops(spec, group, variant)
    acc = accessor_ops(group, spec["cls"])

    def alphabet(s):
        out = []
        for o in ev:
            if o[0] == "load_ack" and len(s.rd.tx_fifo) >= 3:
                continue  # a W_ACK_PAYLOAD into a full TX FIFO is undefined in the datasheet
            out.append(o)
        if group == "fifo" and s.rd.rx_fifo:
            out.append(("readn",))
        return out + acc
    return alphabet


def fast_clone(s):
    """deep copy of a whole state through pickle (3x faster than copy.deepcopy, same semantics here:
    one object graph, no shared references to the outside)"""
    return pickle.loads(pickle.dumps(s, -1))


# ---------------------------------------------------------------- work items
def root_label(spec, prefix, group, variant=0):
    return "%s/%s/%s%s%s/%s%s%s" % (spec["cls"], spec["role"], spec["mode"], "+ackpl" if spec["ackpl"] else "", "+bystander" if spec.get("bystander") else "", group, "abc"[variant],
                                ("/" + "+".join(showop(o) for o in prefix)) if prefix else "")


def w_bfs(item, rep):
    spec, prefix, group, depth, seed, pid, variant = item
    max_states = None
    label = root_label(spec, prefix, group, variant)
    ck = Checker(rep, seed, pid, label)
    s = mk_root(spec, seed)
    hist = [label]
    ok = True
    for op in prefix:  # pre-filled root: the prefix is applied under the oracle as well
        rep.transitions += 1
        rep.case()
        ok = ck.apply(s, tuple(op), hist) and ok
        hist = hist + [tuple(op)]
    if not ok:
        return
    ck2 = Checker(rep, seed, pid, label)
    base_hist = hist

    def apply(st, op, h):
        return ck2.apply(st, op, base_hist + h[1:])

    t0 = rep.transitions
    done = bfs([(s, label)], make_alphabet(spec, group, variant), apply, canon, depth, rep, max_states=max_states, clone=fast_clone)
    rep.part(group, searches=1, transitions=rep.transitions - t0, exhausted_before_depth=1 if done < depth else 0)
    if len(rep.samples) < 2:
        rep.sample({"root": label, "depth_completed": done, "alphabet": [showop(o) for o in make_alphabet(spec, group, variant)(s)]})


def plan(tier, cls_name="full"):
    """-> [(spec, prefix, group, depth, variant)]"""
    quick = tier == "quick"
    depth = 5 if quick else 7
    lite = cls_name == "lite"
    specs = []
    for role in ("rx", "tx"):
        specs.append(dict(cls=cls_name, role=role, mode="dyn", ackpl=True))
        specs.append(dict(cls=cls_name, role=role, mode="static", ackpl=False))
        if not quick:
            specs.append(dict(cls=cls_name, role=role, mode="dyn", ackpl=False))
    if not lite:
        specs.append(dict(cls=cls_name, role="rx", mode="mixed", ackpl=False))
    # another object of the class in the same program, configured with other lengths / modes / masks after the object under
    # test was set up (H.bystander): the accessors still describe THIS radio (fifo group only)
    specs.append(dict(cls=cls_name, role="rx", mode="static", ackpl=False, bystander=True))
    specs.append(dict(cls=cls_name, role="tx", mode="dyn", ackpl=True, bystander=True))
    items = []
    for spec in specs:
        rx = spec["role"] == "rx"
        variants = (0, 1, 2) if (rx and spec["mode"] == "dyn") else ((0, 1) if spec["mode"] == "mixed" and not quick else (0,))
        for v in variants:
            if rx:
                fill = [o for o in event_ops(spec, "fifo", v) if o[0] == "rx"]
                prefixes = [[], fill]
                if spec["ackpl"]:
                    la = [o for o in event_ops(spec, "fifo", v) if o[0] == "load_ack"]
                    hit = [o for o in fill if o[1] == la[0][1]][0]
                    prefixes.append([la[0], hit, la[0], hit])  # ACK payload went out, TX_DS latched, one more queued
            else:
                prefixes = [[], [("wo", 1), ("wo", 32), ("tx", 5, 0, 0, True)]]
                if spec["ackpl"]:
                    prefixes.append([("tx", 1, 0, 1, False), ("tx", 5, 1, 32, False), ("tx", 5, 0, 0, True)])
            for prefix in prefixes:
                for group in ("fifo", "flags", "irq", "all"):
                    if v and group != "fifo":
                        continue  # the flags / irq / all groups do not depend on the payload-length variant
                    if spec.get("bystander") and group != "fifo":
                        continue
                    items.append((spec, prefix, group, depth - 1 if group == "all" else depth, v))
    return items, depth


def w_irq_role(item, rep):
    """interrupt_config() must stay in force when the role is (re-)asserted afterwards (the listen setter
    re-writes CONFIG): for every IRQ mask x role x {same role re-assigned, role toggled twice} x event the IRQ
    line is asserted iff the event that occurs is enabled"""
    import itertools
    cls_name, seed, pid = item
    for role in ("rx", "tx"):
        for cfg in itertools.product((True, False), repeat=3):
            for how in ("reassign", "toggle-twice", "crc-same", "power-cycle", "with-cycle", "channel+rate+pa"):
                if how in ("crc-same", "with-cycle") and cls_name == "lite":
                    continue  # (no crc attribute / context manager in rf24_lite)
                events = [("rx", 1, 5)] if role == "rx" else [("tx", 5, 0, 0, False), ("tx", 5, 0, 0, True)]
                for ev in events:
                    s = mk_root(dict(cls=cls_name, role=role, mode="dyn", ackpl=False), seed)
                    s.w.activate()
                    d, rd = s.d, s.rd
                    d.interrupt_config(*cfg)
                    if how == "reassign":
                        d.listen = (role == "rx")
                    elif how == "toggle-twice":
                        d.listen = (role != "rx")
                        d.listen = (role == "rx")
                    elif how == "crc-same":
                        # another attribute that lives in CONFIG, assigned the value it already has (both ends keep 2 bytes)
                        d.crc = 2
                        d.listen = (role == "rx")
                    elif how == "power-cycle":
                        d.power = False
                        s.w.advance(300 * US)
                        d.power = True
                        d.listen = (role == "rx")
                    elif how == "with-cycle":
                        d.__exit__(None, None, None)
                        s.w.advance(300 * US)
                        d.__enter__()
                        d.listen = (role == "rx")
                    else:
                        # attributes of other registers, assigned the values in effect
                        d.channel = d.channel
                        d.data_rate = d.data_rate
                        d.pa_level = d.pa_level
                        d.listen = (role == "rx")
                    if role == "tx":
                        d.open_tx_pipe(s.addr[1])
                    s.w.advance(500 * US)
                    apply_event(s, ev, seed)
                    flag = 0x40 if role == "rx" else (0x10 if ev[4] else 0x20)
                    latched = bool(rd.r[0x07] & flag)
                    enabled = cfg[0] if flag == 0x40 else (cfg[1] if flag == 0x20 else cfg[2])
                    asserted = not rd.irq_line()
                    rep.case()
                    rep.transitions += 3
                    rep.traces += 1
                    rep.outcome("irq-role:%s:%s:%s" % (role, "enabled" if enabled else "masked", "asserted" if asserted else "idle"))
                    rep.nt("irq-role:%s:%r:%s:%r" % (role, cfg, how, ev))
                    if not latched:
                        raise HarnessError("the event did not latch its flag (STATUS %#04x)" % rd.r[0x07])
                    if asserted != enabled:
                        rep.violation("%s/irq-line:%s:after-role-%s" % (pid, "spurious" if asserted else "missing", how),
                                      "interrupt_config%r, then listen %s, then a %s event: the IRQ line is %s (CONFIG %#04x)" % (
                                          cfg, how, {0x40: "data-ready", 0x20: "data-sent", 0x10: "data-fail"}[flag], "asserted" if asserted else "idle", rd.r[0]),
                                      {"part": "irq-role", "cls": cls_name, "seed": seed})


def w_arc_enum(item, rep):
    """last_tx_arc over the whole range of the counter: every arc 0..15 x every number k of lost transmissions
    0..arc+1 (k <= arc: acknowledged after k retransmissions; k = arc+1: MAX_RT after arc retransmissions), then a
    second packet that gets through at once (the counter restarts)"""
    cls_name, seed, pid = item
    lite = cls_name == "lite"
    for arc in range(16):
        for k in range(arc + 2):
            s = mk_root(dict(cls=cls_name, role="tx", mode="dyn", ackpl=False), seed)
            s.w.activate()
            d = s.d
            d.arc = arc
            s.w.advance(100 * US)
            apply_event(s, ("tx", 5, k, 0, False), seed)
            want = min(k, arc)
            got = d.last_tx_arc if not lite else (d._reg_read(8) & 0x0F if not hasattr(d, "last_tx_arc") else d.last_tx_arc)
            ok = bool(s.rd.r[0x07] & 0x20)
            rep.case()
            rep.transitions += 1
            rep.traces += 1
            rep.outcome("arc-enum:%s:%s" % ("sent" if ok else "failed", "retx" if want else "first-try"))
            rep.nt("arc-enum:%d:%d" % (arc, k))
            if s.last_retx != want or ok != (k <= arc):
                raise HarnessError("arc %d, %d lost: %d retransmissions on the air, delivered=%s" % (arc, k, s.last_retx, ok))
            if got != want:
                rep.violation("%s/value:last_tx_arc:%s" % (pid, "retx>=8" if want >= 8 else "retx<8"),
                              "arc=%d, the first %d transmission(s) lost: last_tx_arc is %r, the packet was retransmitted %d time(s)" % (arc, k, got, want),
                              {"part": "arc-enum", "cls": cls_name, "seed": seed, "arc": arc, "lost": k})
                continue
            if not ok:
                d.flush_tx()
                d.clear_status_flags()
            apply_event(s, ("tx", 1, 0, 0, False), seed)
            got2 = d.last_tx_arc
            if got2 != 0:
                rep.violation("%s/value:last_tx_arc:not-restarted" % pid, "after a packet that got through at once last_tx_arc is %r (the one before needed %d)" % (got2, want),
                              {"part": "arc-enum", "cls": cls_name, "seed": seed, "arc": arc, "lost": k})


def run_accessors(tier, seed, rep, cls_name="full", pid=PID, only=None):
    if not only or "irqrole" in only:
        pmap(w_irq_role, [(cls_name, seed, pid)], rep)
    if (not only or "arc" in only) and hasattr(H.LiteRF24 if cls_name == "lite" else H.RF24, "last_tx_arc"):
        pmap(w_arc_enum, [(cls_name, seed, pid)], rep)
    items, depth = plan(tier, cls_name)
    work = []
    for spec, prefix, group, dep, v in items:
        if only and not any(tok in (group, spec["role"], spec["mode"]) for tok in only.split(",")):
            continue
        work.append((spec, prefix, group, dep, seed, pid, v))
    work.sort(key=lambda it: (it[2] != "fifo", it[0]["role"] != "rx", not it[1]))
    pmap(w_bfs, work, rep)
    best = {}
    for key in [k for k in rep.notes if k.startswith("c10cand|")]:
        rank, what, rd = rep.notes.pop(key)
        sig = key.split("|")[1]
        if sig not in best or rank < best[sig][0]:
            best[sig] = (rank, what, rd)
    for sig, (rank, what, rd) in best.items():
        if sig in rep.violations:
            rep.violations[sig]["what"] = what
            rep.violations[sig]["replay"] = rd
    modes = sorted({"%s/%s%s" % (it[0]["role"], it[0]["mode"], "+ackpl" if it[0]["ackpl"] else "") for it in items})
    return dict(depth=depth, searches=len(work), cls=cls_name,
                roots="role/payload mode %s (rx: DUT listens on pipes 0/1/5 and is fed by a ghost PTX; tx: DUT transmits to a ghost PRX that "
                      "acknowledges, attaches ACK payloads, or is deaf; mixed: pipe 1 static, others dynamic) x start {empty FIFOs; RX FIFO full / "
                      "TX FIFO 3 deep behind a failed transmission; after ACK-payload traffic} x operation group {fifo, flags, irq, all (depth-1)} x payload-length "
                      "variant {a,b,c} (dynamic rx searches: the 9 pipe x length combinations are spread over 3 alphabets)" % ", ".join(modes),
                fifo_occupancy="0..3 payloads per FIFO (a 4th arrival is dropped by the radio and explored too)",
                payloads="lengths {1,5,32} on pipes {0,1,5}; static lengths 5/32/1 on pipes 0/1/5 (lite: 5 everywhere)")


def run(tier, seed, rep, only=None):
    b = run_accessors(tier, seed, rep, only=only)
    return dict(
        level="model_checking",
        exhaustive=True,
        rule="E-BFS with duplicate-state elimination: from every root all sequences over (traffic events + accessor calls of the group) "
             "up to the depth are applied to deep-copied (world, RF24, radio, ghost) states; the oracle runs after every operation. "
             "E-ENUM of last_tx_arc over arc 0..15 x 0..arc+1 lost transmissions (+ a following packet that gets through at once). Groups: fifo = update/available/pipe/any/read/read(n)/fifo(7 forms)/tx_full/irq_*/flush_rx/flush_tx/last_tx_arc + full traffic alphabet; "
             "flags = clear_status_flags (8 combinations + default) + reduced traffic; irq = interrupt_config (8 + default) + single-flag clears "
             "+ reduced traffic; all = union of the three accessor alphabets + reduced traffic, one level shallower (cross-group interleavings). A transition is non-trivial when a FIFO is occupied, a flag is latched or it is a traffic event; distinct is "
             "counted conservatively as distinct (search, RX occupancy + head pipe/length, TX occupancy, latched flags, cached STATUS, operation) - "
             "many more distinct (state, operation) pairs are executed (see transitions). Canonical state = radio registers/FIFOs/CE/mode (without PID counters and PLOS_CNT) + all "
             "driver attributes + last shifted-out STATUS + harness bookkeeping.",
        bounds=b,
        trusted_base=["vf/sim.py (nRF24L01+ behavioural model: FIFOs, STATUS shifted out as sampled at CSN fall, write-1-to-clear flags, "
                      "OBSERVE_TX, IRQ line, ACK payloads, ghosts)"],
        assumptions=["between two operations the radios are quiescent (every traffic event runs to completion)",
                     "no duplicate packet is injected (asserted), therefore PID counters are not part of the canonical state",
                     "read(length) is explored only with length == length of the head payload (over/under-reading is described by the documentation in terms of hardware behaviour the simulator does not model)",
                     "CPython 3.12 only"],
        min_outcomes=30,
    )


def replay(data):
    r = data["replay"]
    if r.get("part") in ("irq-role", "arc-enum"):
        from ..engine import Report
        rp = Report()
        (w_irq_role if r["part"] == "irq-role" else w_arc_enum)((r["cls"], r["seed"], data.get("property", PID)), rp)
        want = data.get("signature")
        return [(s_, v_["what"]) for s_, v_ in rp.violations.items() if want is None or s_ == want]
    spec, ops, seed = r["spec"], [tuple(o) for o in r["ops"]], r["seed"]
    from ..engine import Report
    rep = Report()
    label = root_label(spec, [], "replay")
    ck = Checker(rep, seed, data.get("property", PID), label)
    s = mk_root(spec, seed)
    hist = [label]
    for op in ops:
        ok = ck.apply(s, op, hist)
        print("  %-40s RX FIFO %d, TX FIFO %d, flags %#04x, last STATUS %#04x%s" % (showop(op), len(s.rd.rx_fifo), len(s.rd.tx_fifo),
              s.rd.r[7] & 0x70, s.last_status, "" if ok else "   <-- violation"))
        hist = hist + [op]
    want = data.get("signature")
    out = [(sig, v["what"]) for sig, v in rep.violations.items()]
    return [x for x in out if want is None or x[0] == want] or out
