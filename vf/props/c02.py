"""C02 - send()/resend() report the true fate of the payload and always terminate.

E-DFS fault enumeration: the real driver pair (RF24 or rf24_lite, chosen by parameter) runs on two
simulated radios; `world.fault` is driven by an `engine.Chooser` that decides, for every *data*
transmission of the PTX, {0: delivered, 1: packet lost, 2: delivered but the ACK answering it is
lost}.  `engine.explore` walks the choice tree (complete where it is small, bounded in the number
of loss-kind *switches* where it is not) for every configuration x call history.

Oracle = simulator ground truth only: `ra.truth` (tx_ok / max_rt events of the PTX radio),
`world.airlog` (every packet on the air), the PTX radio's transaction state and virtual time.
Nothing of the driver's own state is consulted.
"""
import copy
import itertools

from .. import harness as H
from .. import link
from ..engine import pmap, explore, digest, jsonable
from ..ref import esb
from ..sim import HarnessError, Abort, MS, US

PID = "C02"
PLENS = (5, 32, 1, 17, 9, 24)  # payload length per slot: all different, so payloads are distinct
ALENS = (4, 32, 1)  # length of the ACK payload the peer loads before call i
BUSY = ("tx_settle", "tx", "ack_wait")
ACKED = ("plain", "ackpl")
MODES = ("plain", "ackpl", "noack", "noaa")
ARCS = (0, 1, 2, 3, 15)
ARDS = (250, 1500, 4000)
KIND_NAMES = {0: "delivered", 1: "lost", 2: "ack-lost"}
AW, CRC, RATE = 5, 2, 1000  # link defaults used throughout (C01 varies them)


# ---------------------------------------------------------------- configuration
def mk_fc(arc, ard, fr, mode, so, listen, tx_cls="full", rx_cls="full", cost=30, dynack_off=False):
    fc = dict(arc=arc, ard=ard, fr=fr, mode=mode, so=so if so == "alt" else bool(so), listen=bool(listen), tx_cls=tx_cls, rx_cls=rx_cls, cost=cost)
    if dynack_off:
        # plain auto-ack mode reached another way: allow_ask_no_ack = False, every call passes ask_no_ack=True
        # (documented: the parameter then has no effect) - everything is expected exactly as in plain mode
        fc["dynack_off"] = True
    return fc


def fc_id(fc):
    return "%s>%s a%d d%d f%d %s%s%s c%d%s" % (fc["tx_cls"][0], fc["rx_cls"][0], fc["arc"], fc["ard"], fc["fr"], fc["mode"],
                                              {False: "", True: "+so", "alt": "+soalt"}[fc["so"]], "" if fc["listen"] else " deaf", fc["cost"],
                                              " ask_no_ack-disallowed" if fc.get("dynack_off") else "")


def link_cfg(fc, seed):
    return link.default_cfg(
        tx_cls=fc["tx_cls"], rx_cls=fc["rx_cls"],
        front_a="busio" if fc["tx_cls"] == "lite" else "spidev",
        front_b="busio" if fc["rx_cls"] == "lite" else "spidev",
        arc=fc["arc"], ard=fc["ard"], auto_ack=fc["mode"] != "noaa", ack=fc["mode"] == "ackpl",
        cost_a=fc["cost"] * US, cost_b=(fc["cost"] + 1) * US, addr_salt=seed)


def build(fc, seed):
    pack = link.build_pair(link_cfg(fc, seed), spilog=False)
    w, a, ra, b, rb = pack
    if fc.get("dynack_off"):
        a.allow_ask_no_ack = False
    if not fc["listen"]:
        b.listen = False
        w.advance(300 * US)
    return pack


def payload(seed, slot):
    return H.pattern(PLENS[slot % 6], seed, 1 + slot)


def ackpayload(seed, call):
    return H.pattern(ALENS[call % 3], seed, 101 + call)


def attempts_allowed(fc, resend=False):
    """transmissions the configuration allows for one payload"""
    if fc["mode"] not in ACKED:
        return 1
    return (1 + fc["arc"]) * (1 if resend else 1 + fc["fr"])


def total_attempts(fc, hist):
    n = 0
    for k in hist:
        n += {"S": attempts_allowed(fc), "L": 2 * attempts_allowed(fc), "R": attempts_allowed(fc, True)}[k]
    return n


def call_bound_ns(fc, kind, lens):
    """time bound of one call from the retry configuration (vf.ref.esb)"""
    acked = fc["mode"] in ACKED
    tot = 0
    for n in lens:
        tot += esb.send_time_bound_ns(fc["arc"], fc["ard"], 0 if kind == "R" else fc["fr"], AW, n, CRC, RATE,
                                      ack_bytes=32 if fc["mode"] == "ackpl" else 0, spi_cost_ns=fc["cost"] * US, acked=acked)
    if not lens:  # resend() with nothing to re-send: a few SPI transactions
        tot = esb.send_time_bound_ns(0, 0, 0, AW, 0, CRC, RATE, spi_cost_ns=fc["cost"] * US, acked=False)
    return tot


# ---------------------------------------------------------------- loss oracle
class Losses:
    """world.fault: one decision per data transmission of the PTX radio.
    enc 'direct': the choice is the loss kind; enc 'switch': the choice is the distance to the
    previous kind (0 = same kind again), so that a deviation bound limits *switches*."""

    def __init__(self, ra, arity, enc, ch, fixed, max_points):
        self.ra, self.arity, self.enc, self.ch, self.fixed, self.max_points = ra, arity, enc, ch, fixed, max_points
        self.kinds = []
        self.cur = 0

    def __call__(self, pkt):
        if pkt.is_ack:
            return self.cur == 2
        if pkt.src is not self.ra:
            return False
        i = len(self.kinds)
        if self.arity <= 1:
            k = 0
        elif i >= self.max_points:
            k = self.cur  # runaway execution: no more choice points (it will hit a clause anyway)
        elif self.fixed is not None:
            k = self.fixed[i] if i < len(self.fixed) else (0 if self.enc == "direct" else self.cur)
        else:
            c = self.ch.choose(self.arity, "tx")
            k = c if self.enc == "direct" else (self.cur + c) % self.arity
        self.cur = k
        self.kinds.append(k)
        return k == 1


# ---------------------------------------------------------------- one execution
def ret_class(r):
    if r is True:
        return "True"
    if r is False:
        return "False"
    if isinstance(r, (bytes, bytearray, memoryview)):
        return "bytes"
    if r is None:
        return "None"
    return type(r).__name__


def show(r):
    if isinstance(r, (bytes, bytearray, memoryview)):
        return "bytes:" + bytes(r).hex()
    if isinstance(r, (list, tuple)):
        return [show(x) for x in r]
    return repr(r)


def execute(pack, fc, hist, seed, pid=PID, ch=None, fixed=None, enc="direct"):
    """Run the call history `hist` (string over S = send(p), L = send([p, q]), R = resend()) on a
    private copy of the configured pair under the loss pattern given by `ch` / `fixed`.
    -> dict(viol=(sig, what)|None, outcome, kinds, obs, ncalls)"""
    w, a, ra, b, rb = copy.deepcopy(pack)
    w.activate()
    mode, fr, arc = fc["mode"], fc["fr"], fc["arc"]
    acked = mode in ACKED
    arity = (3 if acked else 2) if fc["listen"] else 1
    los = Losses(ra, arity, enc, ch, fixed, total_attempts(fc, hist))
    w.fault = los
    bounds = []
    for i, kind in enumerate(hist):
        lens = [PLENS[(2 * i + k) % 6] for k in range({"S": 1, "L": 2, "R": 0}[kind])]
        bounds.append(lens)
    # a call that overruns its bound is a violation anyway: the horizon only has to tell 'slow' from 'never'
    w.horizon = w.now + 2 * sum(call_bound_ns(fc, k, l or [32]) for k, l in zip(hist, bounds)) + 5 * MS

    viol = None
    outcomes = []
    obs = []
    pending_failed = None  # payload whose last transmission round failed and was not superseded
    earlier = []  # payloads of earlier calls
    air_mark = len(w.airlog)
    ncalls = 0
    last_kind = "first"

    def V(clause, kind, what):
        return ("%s/%s:%s:%s" % (pid, clause, kind, mode),
                "%s [%s; history %s, call %d; losses %s]" % (what, fc_id(fc), hist, ncalls, "".join(map(str, los.kinds)) or "-"))

    for i, kind in enumerate(hist):
        ncalls = i + 1
        so = (i % 2 == 0) if fc["so"] == "alt" else fc["so"]  # 'alt': send_only on the 1st, 3rd call only
        if fc["listen"]:
            b.flush_rx()  # the peer's application has consumed what it received
            if mode == "ackpl":
                b.load_ack(ackpayload(seed, i), 1)
        pls = [payload(seed, 2 * i + k) for k in range(len(bounds[i]))]
        target = pls if kind != "R" else ([pending_failed] if pending_failed is not None else [])
        n_allowed = attempts_allowed(fc, kind == "R")
        t0 = w.now
        tr0 = len(ra.truth)
        ret, exc = None, None
        try:
            if kind == "S":
                ret = a.send(pls[0], ask_no_ack=(mode == "noack" or bool(fc.get("dynack_off"))), force_retry=fr, send_only=so)
            elif kind == "L":
                ret = a.send(list(pls), ask_no_ack=(mode == "noack" or bool(fc.get("dynack_off"))), force_retry=fr, send_only=so)
            else:
                ret = a.resend(send_only=so)
        except Abort:
            exc = "Abort"
        except HarnessError:
            raise
        except Exception as e:  # noqa
            exc = type(e).__name__
        t1 = w.now
        busy = ra.in_txn or ra.state in BUSY
        air = [p for p in w.airlog[air_mark:] if p.src is ra and not p.is_ack]
        air_mark = len(w.airlog)
        tru = ra.truth[tr0:]
        obs.append((kind, show(ret), exc, t1 - t0, [p.payload.hex() for p in air], [(e[0], e[1].hex()) for e in tru], busy))

        def kind_of(p):
            """shape of the element: resend / forced retry involved / first round only"""
            if kind == "R":
                return "resend"
            tx = [k for k in air if k.payload == p]
            if acked and fr and len(tx) >= 1 + arc and not any(k.acked for k in tx[:1 + arc]):
                return "forced-retry"
            return "first"

        ckind = "resend" if kind == "R" else ("list" if kind == "L" else kind_of(pls[0]))
        last_kind = ckind
        # ---- termination / exceptions
        if exc == "Abort":
            viol = V("nonterm", ckind, "%s did not return within the virtual-time horizon (%d data transmissions on the air)"
                     % ({"S": "send()", "L": "send(list)", "R": "resend()"}[kind], len(air)))
            outcomes.append(kind + ":hang")
            break
        if exc is not None:
            viol = V("exception-" + exc, ckind, "call raised %s" % exc)
            outcomes.append(kind + ":" + exc)
            break
        # ---- (e) only the current call's payloads on the air, in order
        seq = [p.payload for p in air]
        want_order = [t for t in target]
        pos = 0
        bad = None
        for pl in seq:
            while pos < len(want_order) and want_order[pos] != pl:
                pos += 1
            if pos >= len(want_order):
                bad = pl
                break
        if bad is not None:
            if bad in earlier:
                why = "a payload of an earlier call (%d bytes) was transmitted" % len(bad)
            elif bad in target:
                why = "payloads of the list were transmitted out of order"
            else:
                why = "an unknown payload (%d bytes) was transmitted" % len(bad)
            if kind == "R" and not target:
                why += " although there is no failed payload to re-send"
            viol = V("air-foreign", ckind, "between the previous return and the return of this call " + why)
            outcomes.append(kind + ":foreign")
            break
        # ---- an acknowledgement is requested on the air iff the caller did not ask for no-ack
        #      ("sent without waiting when no acknowledgement is requested"); resend() keeps the flag
        wrong = [p for p in air if p.noack != (mode == "noack")]
        if wrong:
            viol = V("air-noack-flag", ckind, "data packet transmitted with NO_ACK=%s in %s mode" % (wrong[0].noack, mode))
            outcomes.append(kind + ":flag")
            break
        # ---- (c) list shape
        if kind == "L":
            if not isinstance(ret, list) or len(ret) != len(pls):
                viol = V("list-shape", "list", "send(list of %d) returned %s" % (len(pls), show(ret)))
                outcomes.append("L:shape")
                break
            rets = ret
        else:
            rets = [ret]
        # ---- (c) one result per payload *in order*: the right results in the wrong positions
        if kind == "L":
            exps = []
            for p in pls:
                oks = [e for e in tru if e[0] == "tx_ok" and e[1] == p]
                ackpl = bytes(oks[-1][2] or b"") if oks else b""
                exps.append(False if not oks else (ackpl if (mode == "ackpl" and not so and ackpl) else True))
            norm = [bytes(x) if isinstance(x, (bytes, bytearray, memoryview)) else x for x in rets]
            # (two booleans swapped cannot be told from two inverted results: left to the element check)
            if norm != exps and sorted(map(repr, norm)) == sorted(map(repr, exps)) and not all(isinstance(x, bool) for x in norm):
                viol = V("list-order", "list", "send(list) returned %s, the payloads' fates in order are %s" % (show(ret), show(exps)))
                outcomes.append("L:order")
                break
        # ---- (a)/(b) per element: return value vs. fate of this payload
        call_out = []
        if kind == "R" and not target:
            if ret is not False:
                viol = V("ret:False->" + ret_class(ret), "resend", "resend() with no failed payload returned %s" % show(ret))
            call_out.append("none")
        for k, p in enumerate(target):
            r = rets[k]
            ek = kind_of(p)
            tx = [q for q in air if q.payload == p]
            oks = [e for e in tru if e[0] == "tx_ok" and e[1] == p]
            got = ret_class(r)
            last = k == len(target) - 1
            if oks:
                ackpl = bytes(oks[-1][2] or b"")
                exp = ackpl if (mode == "ackpl" and not so and ackpl) else True
                idx = next((j for j, q in enumerate(tx) if q.acked), 0) if acked else 0
                call_out.append("ok1" if idx == 0 else ("okA" if idx < 1 + arc else "okF"))
            else:
                exp = False
                call_out.append("fail")
            if exp is False:
                if got != "False":
                    viol = V("ret:False->" + got, ek, "returned %s although the radio never completed a transmission of this payload "
                             "(%d transmissions, none acknowledged)" % (show(r), len(tx)))
                elif (last and busy) or len(tx) < n_allowed:
                    viol = V("false-early", ek, "returned False after %d of the %d transmissions the configuration allows%s"
                             % (len(tx), n_allowed, "; the radio is still mid-transaction (state %s) at return" % ra.state if last and busy else ""))
            elif exp is True:
                if got != "True":
                    viol = V("ret:True->" + got, ek, "returned %s although the radio completed the transmission (ACK received%s)"
                             % (show(r), " / no-ack transmission finished" if not acked else ""))
            else:
                if got != "bytes":
                    viol = V("ret:ackpl->" + got, ek, "returned %s although the ACK carried the payload %s" % (show(r), exp.hex()))
                elif bytes(r) != exp:
                    viol = V("ret:ackpl->wrong-bytes", ek, "returned %s, the ACK carried %s" % (show(r), exp.hex()))
            if viol is None and len(tx) > n_allowed:
                viol = V("attempts-excess", ek, "%d transmissions of one payload, the configuration allows %d" % (len(tx), n_allowed))
            if viol is not None:
                break
        outcomes.append(kind + ":" + "+".join(call_out))
        if viol is not None:
            break
        # ---- (b) nothing in flight at return
        if busy:
            viol = V("in-flight", ckind, "the radio is still mid-transaction (state %s) when the call returns %s" % (ra.state, show(ret)))
            break
        # ---- (d) time bound
        tb = call_bound_ns(fc, kind, [len(p) for p in target])
        if t1 - t0 > tb:
            viol = V("time", ckind, "call took %d us of virtual time, bound from the retry configuration is %d us" % ((t1 - t0) // 1000, tb // 1000))
            break
        # ---- bookkeeping for the next call
        if target:
            pending_failed = target[-1] if call_out[-1] == "fail" else None
        else:
            pending_failed = None
        earlier.extend(pls)

    if viol is None:
        # nothing may be transmitted after the last return
        try:
            w.horizon = max(w.horizon, w.now + 100 * MS)
            w.advance(2 * (fc["ard"] * US + 130 * US + esb.airtime_ns(AW, 32, CRC, RATE)) + MS)
        except Abort:
            raise HarnessError("horizon during the trailing quiet period")
        late = [p for p in w.airlog[air_mark:] if p.src is ra and not p.is_ack]
        if late:
            viol = V("air-after-return", last_kind, "%d data transmission(s) started after the last call had returned" % len(late))
    outcome = "%s%s/%s" % (mode, "" if fc["listen"] else "-deaf", ",".join(outcomes))
    return dict(viol=viol, outcome=outcome, kinds=list(los.kinds), obs=obs, ncalls=ncalls)


# ---------------------------------------------------------------- exploration of one (config, history)
def replay_data(fc, hist, seed, enc, kinds):
    return {"fc": fc, "hist": hist, "seed": seed, "enc": enc, "kinds": kinds,
            "legend": "kinds: per data transmission of the PTX 0=delivered 1=packet lost 2=ACK lost; hist: S=send(p) L=send([p,q]) R=resend()"}


def switch_bound(strat, hist, fc):
    """number of loss-kind switches explored in a switch-bounded tree: K when the history allows
    at most Ktot transmissions, K2 beyond"""
    return strat["K"] if total_attempts(fc, hist) <= strat.get("Ktot", 10 ** 9) else strat.get("K2", strat["K"])


def explore_hist(pack, fc, hist, seed, pid, strat, rep):
    tot = total_attempts(fc, hist)
    if not fc["listen"]:
        part, enc, bound = "deaf", "direct", 0
    elif tot <= strat["T"]:
        part, enc, bound = "complete", "direct", tot + 4
    else:
        part, enc, bound = "switch", "switch", switch_bound(strat, hist, fc)
    n = 0
    cid = fc_id(fc)

    def run(ch):
        return execute(pack, fc, hist, seed, pid, ch=ch, enc=enc)

    for ch, res in explore(run, bound):
        n += 1
        rep.case()
        rep.traces += 1
        rep.transitions += res["ncalls"]
        rep.outcome(res["outcome"])
        kinds = res["kinds"]
        if any(kinds) or not fc["listen"]:
            rep.nt("%s|%s|%s" % (cid, hist, "".join(map(str, kinds))))
        if res["viol"] is not None:
            sig, what = res["viol"]
            if sig not in rep.violations:
                # determinism: the schedule is re-run twice from the recorded loss pattern
                d0 = digest(res["obs"])
                for _ in range(2):
                    again = execute(pack, fc, hist, seed, pid, fixed=kinds, enc=enc)
                    if digest(again["obs"]) != d0 or again["viol"] != res["viol"]:
                        raise HarnessError("non-deterministic execution: %s %s %r" % (cid, hist, kinds))
            rd = replay_data(fc, hist, seed, enc, kinds)
            rep.violation(sig, what, rd)
            # candidate for the reported (minimal) counterexample of this signature, see _pick_minimal
            rank = [len(hist), tot, len(kinds), fc["ard"], fc["arc"], fc["fr"], cid, hist, "".join(map(str, kinds))]
            key = "c02cand|%s|%s|%s" % (sig, cid, hist)
            if key not in rep.notes or rank < rep.notes[key][0]:
                rep.notes[key] = [rank, what, jsonable(rd)]
    rep.part(part, executions=n, trees=1)
    if len(rep.samples) < 3 and n > 1:
        rep.sample({"config": cid, "history": hist, "strategy": part, "executions": n,
                    "last_loss_pattern": [KIND_NAMES[k] for k in kinds], "last_outcome": res["outcome"]})
    return n


def w_item(item, rep):
    fc, hists, seed, pid, strat = item
    pack = build(fc, seed)
    for hist in hists:
        explore_hist(pack, fc, hist, seed, pid, strat, rep)


# ---------------------------------------------------------------- plan
H1 = ["S", "L", "R"]
H2 = H1 + ["".join(t) for t in itertools.product("SLR", repeat=2)]
H3 = H2 + ["".join(t) for t in itertools.product("SLR", repeat=3)]
HPAIR = ["S", "L", "R", "SR", "SS", "RS"]

QUICK_RULES = [
    "Q1 listening peer, plain auto-ack and ACK payloads (send_only off), ard=250: every history of <= 2 calls when (1+arc)(1+fr) <= 4; "
    "{S,L,R,SR,SS,RS} for 5..8 attempts; {S,R,SR} for 9..16 attempts (arc 2/3); arc=15: {S,SR} for fr<=1, {S} for fr>=2",
    "Q2 same modes, ard 1500 and 4000: {S,SR} for <= 8 attempts, {S} for 9..16 attempts, arc=15: {S} with fr=0",
    "Q3 ACK payloads with send_only=True (ard=250): {S,L,R,SR,SS,RS} for <= 4 attempts, {S,SR} for 5..8 attempts and for arc=15/fr=0; "
    "send_only=True without ACK payloads is left to the thorough tier (the PTX never receives a payload there)",
    "Q4 ask_no_ack and auto-ack off (binary choices, one transmission per payload): every history of <= 2 calls, every (arc,fr), ard=250; "
    "ard 1500/4000 for (arc,fr) in {(0,0),(3,1),(15,3)}",
    "Q5 deaf peer (one execution per history), every mode: every history of <= 2 calls for arc <= 3 (all ard, all fr); arc=15: ard=250 "
    "{S,L,R,SR,SS,RS} for fr<=1, {S,SR} for fr>=2; ard 1500/4000 {S,SR} for fr=0 only",
    "Q6 send_only alternating per call (True on the 1st call, False on the 2nd): ACK payloads, (arc,fr) in {(0,0),(1,0),(0,1)}, ard=250, {SS,SL,LS,SR,RS,LR}",
    "Q7 SPI transaction cost 30 us; 12 us and 100 us for (arc,fr)=(1,1), ard=250, plain and ACK payloads, {S,SR,SS,RS}",
]
THOROUGH_RULES = [
    "T1 listening peer, acked modes (plain, ACK payloads with send_only off/on): (1+arc)(1+fr) <= 8: histories of <= 3 calls for ard=250 and <= 4 attempts, "
    "<= 2 calls for ard=250 or <= 4 attempts, else {S,L,R,SR,SS,RS}; arc 2/3 with > 8 attempts: <= 2 calls for ard=250, else {S,L,R,SR,SS,RS}; arc=15: ard=250 {S,L,R,SR,SS,RS} for fr<=1, "
    "{S,SR} for fr>=2; other ard {S,SR} for fr<=1",
    "T2 send_only=True without ACK payloads: (arc,fr) in {(0,0),(1,1),(3,0)}",
    "T3 ask_no_ack / auto-ack off: every history of <= 3 calls, every (arc,fr,ard)",
    "T4 deaf peer: histories of <= 3 calls; arc=15: <= 2 calls when fr>1 or ard=4000",
    "T5 send_only alternating per call: ACK payloads, (arc,fr) in {(0,0),(1,0),(0,1),(1,1)}, ard=250, every history of 2..3 calls",
    "T6 SPI cost 12 us and 100 us: (arc,fr) in {(0,1),(1,1),(1,0),(3,1)}, ard=250, acked modes, histories of <= 2 calls",
]


def quick_hists(arc, ard, fr, mode, so, listen):
    n = (1 + arc) * (1 + fr)
    if not listen:
        if so and mode != "ackpl":
            return None
        if arc < 15:
            return H2
        if ard == 250:
            return HPAIR if fr <= 1 else ["S", "SR"]
        return ["S", "SR"] if fr == 0 else None
    if mode not in ACKED:
        if so:
            return None
        return H2 if (ard == 250 or (arc, fr) in ((0, 0), (3, 1), (15, 3))) else None
    if so:
        if mode != "ackpl" or ard != 250:
            return None
        return HPAIR if n <= 4 else (["S", "SR"] if (n <= 8 or (arc, fr) == (15, 0)) else None)
    if ard == 250:
        if arc == 15:
            return ["S", "SR"] if fr <= 1 else ["S"]
        return H2 if n <= 4 else (HPAIR if n <= 8 else ["S", "R", "SR"])
    if arc == 15:
        return ["S"] if fr == 0 else None
    return ["S", "SR"] if n <= 8 else ["S"]


def thorough_hists(arc, ard, fr, mode, so, listen):
    n = (1 + arc) * (1 + fr)
    if so and mode != "ackpl" and (arc, fr) not in ((0, 0), (1, 1), (3, 0)):
        return None
    if not listen:
        if arc == 15:
            return H2 if (fr > 1 or ard == 4000) else H3
        return H3
    if mode not in ACKED:
        return H3
    if arc == 15:
        if ard == 250:
            return HPAIR if fr <= 1 else ["S", "SR"]
        return ["S", "SR"] if fr <= 1 else None
    if n <= 8:
        return H3 if (ard == 250 and n <= 4) else (H2 if (ard == 250 or n <= 4) else HPAIR)
    return H2 if ard == 250 else HPAIR


def plan(tier, tx_cls="full", rx_cls="full"):
    """-> (items [(fc, [hist...])], strat, bounds-dict describing the grid and its pruning)"""
    lite = "lite" in (tx_cls, rx_cls)
    quick = tier == "quick"
    strat = dict(T=8, K=2) if quick else dict(T=10, K=3, Ktot=32, K2=2)
    modes = [m for m in MODES if not (lite and m == "noaa")]
    rule = quick_hists if quick else thorough_hists
    items = []
    for arc in ARCS:
        for fr in range(4):
            for ard in ARDS:
                for mode in modes:
                    for so in (False, True):
                        for listen in (True, False):
                            hs = rule(arc, ard, fr, mode, so, listen)
                            if hs:
                                items.append((mk_fc(arc, ard, fr, mode, so, listen, tx_cls, rx_cls), list(hs)))
    # send_only alternating between the calls of one history (ACK payloads left in / flushed from the PTX RX FIFO)
    for arc, fr in ((0, 0), (1, 0), (0, 1)) if quick else ((0, 0), (1, 0), (0, 1), (1, 1)):
        for ard in (250,):
            items.append((mk_fc(arc, ard, fr, "ackpl", "alt", True, tx_cls, rx_cls),
                          ["SS", "SL", "LS", "SR", "RS", "LR"] if quick else [h for h in H3 if len(h) > 1]))
    # ask_no_ack=True passed while allow_ask_no_ack is off (full driver only): plain auto-ack behaviour
    if tx_cls == "full":
        for arc, fr in ((0, 0), (1, 0), (1, 1), (3, 0)) if quick else ((0, 0), (1, 0), (1, 1), (3, 0), (3, 1), (15, 0)):
            for listen in (True, False):
                hs = rule(arc, 250, fr, "plain", False, listen)
                if hs:
                    items.append((mk_fc(arc, 250, fr, "plain", False, listen, tx_cls, rx_cls, dynack_off=True), list(hs)))
    # SPI cost (polling period) classes
    for cost in (12, 100):
        for arc, fr in ((1, 1),) if quick else ((0, 1), (1, 1), (1, 0), (3, 1)):
            for ard in (250,):
                for mode, so in (("plain", False), ("ackpl", False)) if quick else (("plain", False), ("ackpl", False), ("ackpl", True)):
                    items.append((mk_fc(arc, ard, fr, mode, so, True, tx_cls, rx_cls, cost), ["S", "SR", "SS", "RS"] if quick else list(H2)))
    bounds = dict(
        choice="per data transmission of the PTX: delivered | packet lost | ACK lost (binary delivered|lost when no ACK is requested; none when the peer does not listen)",
        history_depth=2 if quick else 3, calls="S=send(p) L=send([p,q]) R=resend(); all payloads of a history are distinct",
        complete_tree_when="sum over the history of allowed transmissions <= %d (then every loss pattern is enumerated: bound = tree height)" % strat["T"],
        otherwise="loss-kind switch encoding (choice = change of kind relative to the previous transmission) explored up to %s "
                  "(covers: all lost, all ack-lost, k failures then success for every k, lost-then-ack-lost for every k ...); this applies to all arc=15 configurations"
                  % ("%d switches" % strat["K"] if "Ktot" not in strat else
                     "%d switches when the history allows <= %d transmissions, %d switches beyond" % (strat["K"], strat["Ktot"], strat["K2"])),
        grid="arc {0,1,2,3,15} x ard {250,1500,4000} x force_retry 0..3 x mode {plain auto-ack, ackpl, ask_no_ack, auto-ack off} x send_only x peer {listening, deaf}",
        pruning=QUICK_RULES if quick else THOROUGH_RULES,
        tx_cls=tx_cls, rx_cls=rx_cls)
    return items, strat, bounds


def est_cost(fc, hists, strat_T=8):
    """rough CPU seconds (load balancing only; never prunes)"""
    c = 0
    for h in hists:
        tot = total_attempts(fc, h)
        slots = len(h.replace("L", "LL"))
        per = 4e-4 + tot * (fc["ard"] + 500) / fc["cost"] * 3e-6
        if not fc["listen"]:
            c += per
        elif fc["mode"] not in ACKED:
            c += 4e-4 * 2 ** slots
        elif tot <= strat_T:
            leaves = 1
            for k in h.replace("L", "SS"):
                leaves *= 2 ** (attempts_allowed(fc, k == "R") + 1) - 1
            c += per * 0.5 * min(leaves, 2 ** (tot + 1))
        else:
            c += per * 0.5 * (1 + 2 * slots + 2 * slots * tot)
    return c


def _pick_minimal(rep):
    """the workers finish in any order: report, per signature, the smallest counterexample
    (shortest history, fewest allowed transmissions, shortest loss pattern ...) so that the
    replay file is the same on every run"""
    best = {}
    for key in [k for k in rep.notes if k.startswith("c02cand|")]:
        rank, what, rd = rep.notes.pop(key)
        sig = key.split("|")[1]
        if sig not in best or rank < best[sig][0]:
            best[sig] = (rank, what, rd)
    for sig, (rank, what, rd) in best.items():
        if sig in rep.violations:
            rep.violations[sig]["what"] = what
            rep.violations[sig]["replay"] = rd


def w_resend_fifo(item, rep):
    """resend() with 1..3 payloads in the TX FIFO (write(write_only=True) bursts behind a failed head payload): it
    retransmits exactly the payload that failed - also when the FIFO is full - and reports its fate"""
    seed, pid, tx_cls, rx_cls = item
    for arc in (0, 1, 3):
        for depth in (1, 2, 3):
            for heard in (True, False):
                fc = mk_fc(arc, 250, 0, "plain", False, True, tx_cls, rx_cls)
                w, a, ra, b, rb = build(fc, seed)
                w.activate()
                pls = [payload(seed, k) for k in range(depth)]
                b.listen = False  # the head payload fails: nobody answers
                w.advance(300 * US)
                acc = [a.write(p, write_only=True) for p in pls]
                a.ce_pin = True
                for _ in range(4000):
                    a.update()
                    if a.irq_df or a.irq_ds:
                        break
                failed_first = bool(a.irq_df)
                if heard:
                    b.listen = True
                    w.advance(300 * US)
                mark = len(w.airlog)
                w.horizon = w.now + 200 * MS
                exc = None
                try:
                    ret = a.resend()
                except Abort:
                    ret, exc = None, "Abort"
                except HarnessError:
                    raise
                except Exception as e:  # noqa
                    ret, exc = None, type(e).__name__
                w.advance(2 * MS)
                air = [p for p in w.airlog[mark:] if p.src is ra and not p.is_ack]
                rep.case()
                rep.transitions += 2
                rep.traces += 1
                rep.part("resend-fifo", executions=1)
                rep.outcome("resend-fifo:%d-deep:%s:%s" % (depth, "heard" if heard else "deaf", show(ret) if not exc else exc))
                rep.nt("resend-fifo:%d:%d:%s" % (arc, depth, heard))
                rd = {"part": "resend-fifo", "seed": seed, "tx_cls": tx_cls, "rx_cls": rx_cls}
                if not all(acc) or not failed_first:
                    raise HarnessError("set-up failed: write() results %r, head payload failed=%s" % (acc, failed_first))
                what = "arc=%d, %d payload(s) in the TX FIFO behind a failed head, peer %s: resend() %s; on the air afterwards: %s" % (
                    arc, depth, "listening again" if heard else "still deaf", ("raised " + exc) if exc else "returned " + show(ret),
                    [p.payload.hex()[:8] for p in air[:3]] or "nothing")
                if exc:
                    rep.violation("%s/resend-fifo:%s:%d-deep" % (pid, "nonterm" if exc == "Abort" else "raises-" + exc, depth), what, rd)
                elif not air or air[0].payload != pls[0]:
                    rep.violation("%s/resend-fifo:%s:%d-deep" % (pid, "nothing-retransmitted" if not air else "wrong-payload", depth), what, rd)
                elif bool(ret) != heard:
                    rep.violation("%s/resend-fifo:ret-%s:%d-deep" % (pid, "False-though-acked" if heard else "True-though-failed", depth), what, rd)


def w_send_fifo(item, rep):
    """send() after 1..3 write(write_only=True) calls whose payloads still wait in the TX FIFO (CE was never raised):
    the call terminates within the bound of the retry configuration and does not raise; when the FIFO was full (3 deep)
    send() is documented to flush it first, so its result is the truth about its own payload and the peer receives
    exactly that payload"""
    seed, pid, tx_cls, rx_cls = item
    for arc in (0, 1, 3):
        for depth in (1, 2, 3):
            for heard in (True, False):
                for send_only in (False, True):
                    fc = mk_fc(arc, 250, 0, "plain", False, True, tx_cls, rx_cls)
                    w, a, ra, b, rb = build(fc, seed)
                    w.activate()
                    pls = [payload(seed, k) for k in range(depth)]
                    own = payload(seed, 7)
                    if not heard:
                        b.listen = False
                    w.advance(300 * US)
                    acc = [a.write(p, write_only=True) for p in pls]
                    mark = len(w.airlog)
                    w.horizon = w.now + 200 * MS
                    exc = None
                    try:
                        ret = a.send(own, send_only=send_only)
                    except Abort:
                        ret, exc = None, "Abort"
                    except HarnessError:
                        raise
                    except Exception as e:  # noqa
                        ret, exc = None, type(e).__name__
                    if exc != "Abort":
                        w.advance(20 * MS)
                    air = [p for p in w.airlog[mark:] if p.src is ra and not p.is_ack]
                    got = [d for (_, _, d) in link.drain(b)] if heard and exc != "Abort" else []
                    rep.case()
                    rep.transitions += depth + 1
                    rep.traces += 1
                    rep.part("send-fifo", executions=1)
                    rep.outcome("send-fifo:%d-deep:%s:%s" % (depth, "heard" if heard else "deaf", show(ret) if not exc else exc))
                    rep.nt("send-fifo:%d:%d:%s:%s" % (arc, depth, heard, send_only))
                    rd = {"part": "send-fifo", "seed": seed, "tx_cls": tx_cls, "rx_cls": rx_cls}
                    if not all(acc):
                        raise HarnessError("set-up failed: write() results %r" % (acc,))
                    what = "arc=%d, %d payload(s) put into the TX FIFO with write(write_only=True), peer %s: send(send_only=%s) %s; on the air: %s; peer read %s" % (
                        arc, depth, "listening" if heard else "deaf", send_only, ("raised " + exc) if exc else "returned " + show(ret),
                        [p.payload.hex()[:8] for p in air[:5]] or "nothing", [g.hex()[:8] for g in got])
                    if exc:
                        rep.violation("%s/send-fifo:%s:%d-deep" % (pid, "nonterm" if exc == "Abort" else "raises-" + exc, depth), what, rd)
                    elif depth == 3:
                        if bool(ret) != heard:
                            rep.violation("%s/send-fifo:ret-%s:full" % (pid, "False-though-acked" if heard else "True-though-failed"), what, rd)
                        elif heard and got != [own]:
                            rep.violation("%s/send-fifo:peer-got-other-than-own-payload:full" % pid, what, rd)


def run_faults(tier, seed, rep, tx_cls="full", rx_cls="full", pid=PID, only=None):
    if not only or "resendfifo" in only:
        pmap(w_resend_fifo, [(seed, pid, tx_cls, rx_cls)], rep)
    if not only or "sendfifo" in only:
        pmap(w_send_fifo, [(seed, pid, tx_cls, rx_cls)], rep)
    items, strat, bounds = plan(tier, tx_cls, rx_cls)
    work = []
    for fc, hs in items:
        if only and not any(tok in (fc["mode"], "deaf" if not fc["listen"] else "listening", "arc%d" % fc["arc"]) for tok in only.split(",")):
            continue
        if est_cost(fc, hs, strat["T"]) > 2.0 and len(hs) > 1:
            for h in hs:
                work.append((fc, [h], seed, pid, strat))
        else:
            work.append((fc, hs, seed, pid, strat))
    work.sort(key=lambda it: -est_cost(it[0], it[1], strat["T"]))
    pmap(w_item, work, rep)
    _pick_minimal(rep)
    rep.states += len(rep.nontrivial) + sum(len(hs) for _, hs in items)
    bounds["configurations"] = len(items)
    bounds["config_x_history_trees"] = sum(len(hs) for _, hs in items)
    return strat, bounds


def run(tier, seed, rep, only=None):
    strat, bounds = run_faults(tier, seed, rep, only=only)
    return dict(
        level="fault_enumeration",
        exhaustive=True,
        rule="E-DFS: for every configuration x call history of the (pruned, see bounds) grid the tree of loss decisions "
             "(one per data transmission of the PTX) is walked by stateless replay on a fresh copy of the configured RF24 pair: "
             "completely when the history allows <= %d transmissions, otherwise up to %s loss-kind switches. An execution is "
             "non-trivial when at least one packet/ACK was lost or the peer is deaf; distinct = distinct (configuration, history, "
             "loss pattern). states = trees + distinct non-trivial executions; transitions = send()/resend() calls executed."
             % (strat["T"], strat["K"] if "Ktot" not in strat else "%d (<= %d transmissions) / %d" % (strat["K"], strat["Ktot"], strat["K2"])),
        bounds=bounds,
        trusted_base=["vf/sim.py (nRF24L01+ behavioural model: Enhanced ShockBurst retransmission, ACK payloads, MAX_RT, shared air, fault oracle, virtual time)",
                      "vf/ref/esb.py (time bound from the retry configuration)"],
        assumptions=["5-byte addresses, 1 Mbps, CRC-2, dynamic payloads (C01 varies these)",
                     "the peer application empties its RX FIFO (and, in ACK-payload mode, loads one ACK payload) between the calls",
                     "SPI transaction cost 30 us (+0.8 us/byte; 12 and 100 us on a few small configurations), clock read 1 us",
                     "where a tree is switch-bounded the claim is limited to <= K switches of loss kind",
                     "CPython 3.12 only"],
        min_outcomes=12,
    )


def replay(data):
    if data["replay"].get("part") in ("resend-fifo", "send-fifo"):
        from ..engine import Report
        r, rp = data["replay"], Report()
        (w_resend_fifo if r["part"] == "resend-fifo" else w_send_fifo)((r["seed"], data.get("property", PID), r["tx_cls"], r["rx_cls"]), rp)
        want = data.get("signature")
        return [(s_, v_["what"]) for s_, v_ in rp.violations.items() if want is None or s_ == want]
    return _replay(data)


def _replay(data):
    r = data["replay"]
    fc, hist, seed = r["fc"], r["hist"], r["seed"]
    pack = build(fc, seed)
    res = execute(pack, fc, hist, seed, data.get("property", PID), fixed=list(r["kinds"]), enc=r.get("enc", "direct"))
    print("config:", fc_id(fc), "history:", hist, "losses:", [KIND_NAMES[k] for k in res["kinds"]])
    for o in res["obs"]:
        print("  call %s -> %s exc=%s took %d us; on air %s; truth %s; radio busy at return: %s" % (o[0], o[1], o[2], o[3] // 1000, o[4], o[5], o[6]))
    print("outcome:", res["outcome"])
    return [res["viol"]] if res["viol"] else []
