"""C15 - no received frame can crash a node or make it forward garbage.

E-ENUM: every frame of a structured domain (256 types x lengths x destination classes x origin
classes, raw short payloads, raw patterned payloads of every radio length, crafted mesh payloads)
is transmitted by a ghost PTX into a pipe of a real node of every role and level, then update()
runs.  E-BFS depth 2: every ordered pair over a representative sub-alphabet.  E-ENUM of
is_address_valid over all 65 536 16-bit values and None against an independent predicate."""
import copy

from .. import harness as H
from ..engine import pmap, cpu_guard, CpuHang
from ..ref import netwire as NW
from ..ref import route as R
from ..sim import World, MS, HarnessError, Abort

PID = "C15"
CPU_BOUND_S = 20  # one update() normally needs a few ms of CPU time
MC = 0o100
DEFAULT = 0o4444
RESERVED_MC = (0o100, 0o10, 0o1000)
MASTER_TABLE = ((3, 0o3), (7, 0o13), (200, 0o1234), (255, 0o5))
MASTER_TABLE_FULL = ((3, 0o3), (7, 0o1), (200, 0o2), (255, 0o5), (11, 0o4))

T_NAMES = {128: "addr-response", 130: "ping", 131: "ext-data", 148: "frag-first", 149: "frag-more", 150: "frag-last",
           193: "net-ack", 194: "poll", 195: "addr-request", 196: "addr-lookup", 197: "addr-release", 198: "id-lookup"}


def _always(pkt):
    return True


def ref_valid(v):
    """An address is valid only if it is 0, one of the reserved multicast addresses, or one to
    four octal digits each in 1..5 (property text / topology.rst)."""
    if v is None:
        return False
    if v in RESERVED_MC:
        return True
    return R.is_valid(v)


def addr_shape(v):
    if v is None:
        return "None"
    d = R.digits(v)
    s = []
    if len(d) > 4:
        s.append("more-than-4-digits")
    if 0 in d:
        s.append("digit-0")
    if any(x > 5 for x in d):
        s.append("digit-6-7")
    return "+".join(s) or "well-formed"


# ---------------------------------------------------------------- roles
ROLE_ADDR = {0: 0, 1: 0o2, 2: 0o32, 3: 0o432, 4: 0o1432}


def roles(tier):
    out = []
    for lvl in range(5):
        out.append(("routing", lvl))
        out.append(("network", lvl))
        out.append(("network-relay", lvl))
        if lvl:
            out.append(("mesh", lvl))
            if tier != "quick" or lvl in (1, 3):
                out.append(("mesh-relay", lvl))  # a connected mesh node (moved there from 0o4444) that also relays multicasts
    out.append(("mesh-unassigned", 4))
    out.append(("master", 0))
    out.append(("master-full", 0))  # every level-1 address is leased: a direct request cannot be served
    out.append(("meshclass-node", 2))  # an RF24Mesh object that is not the master
    return out


def node_addr(role, lvl):
    return DEFAULT if role == "mesh-unassigned" else ROLE_ADDR[lvl]


def build(role, lvl, env):
    w = World(horizon_ns=10 ** 15).activate()
    H.reset_frame_ids()
    a = node_addr(role, lvl)
    if role == "routing":
        n, r = H.mk_node(w, a, cls=H.RF24NetworkRoutingOnly)
    elif role in ("network", "network-relay"):
        n, r = H.mk_node(w, a, cls=H.RF24Network)
        if role == "network-relay":
            n.multicast_relay = True
    elif role in ("master", "master-full"):
        n, r = H.mk_node(w, 0, cls=H.RF24Mesh, node_id=0)
        for k, x in (MASTER_TABLE if role == "master" else MASTER_TABLE_FULL):
            n.set_address(k, x)
    elif role == "meshclass-node":
        n, r = H.mk_node(w, 0, cls=H.RF24Mesh, node_id=9)
        n._begin(a)
    else:
        n, r = H.mk_node(w, 0, cls=H.RF24MeshNoMaster, node_id=9)
        if role in ("mesh", "mesh-relay"):
            n._begin(a)  # what renew_address() does once an address was granted
            if role == "mesh-relay":
                n.multicast_relay = True
    if env == "ack":
        w.phantom_ack = _always
    g = H.mk_ghost_tx(w)
    w.advance(1 * MS)
    return (w, n, r, g)


def time_bound_ns(node, nframes):
    """virtual-time bound for update(): per received frame at most 2 replies/forwards (frame +
    NETWORK_ACK, or the master's repeated address response), each = a full auto-retry cycle + the
    tx_timeout stand-by + one more retry cycle it may overrun by + route_timeout, plus fixed sleeps"""
    retry_cycle = 6 * (4000 + 500) * 1000  # (1 + ARC 5) x (max ARD 4 ms + air time/settling)
    per_write = 2 * retry_cycle + (node.tx_timeout + node.route_timeout) * MS + 10 * MS
    return nframes * (4 * per_write + 20 * MS)


# ---------------------------------------------------------------- frame domain
def dest_classes(a):
    lvl = R.level(a)
    d = {"self": [a]}
    if a != DEFAULT:
        if lvl < 4:
            child = a | (2 << (3 * lvl))
            d["child"] = [child]
            if lvl < 3:
                d["descendant"] = [child | (3 << (3 * (lvl + 1)))]
        d["parent-side"] = [0o5 if (a & 7) != 5 else 0o4] if a else []
        # more than 4 digits: two that lie "below" this node (extend it with digits 1) and two elsewhere
        x = a
        for k in range(lvl, 5):
            x |= 1 << (3 * k)
        d["inv-5+digits"] = sorted({x, x | (1 << 15), 0o12345, 0o111111})
    else:
        d["parent-side"] = [0o5]
        d["inv-5+digits"] = [0o11111, 0o111111, 0o14444]
    d["mcast"] = [MC]
    d["reserved-mc-other"] = [0o10, 0o1000]
    d["default-addr"] = [DEFAULT] if a != DEFAULT else [0o1]
    d["inv-digit0"] = [0o20, 0o104]
    d["inv-digit67"] = [0o17, 0o6, 0o171]
    d["inv-16bit"] = [0x8001, 0xFFFF]
    return {k: v for k, v in d.items() if v}


def origin_classes(a):
    return {"valid": [0o3 if a != 0o3 else 0o4], "default-addr": [DEFAULT], "inv-digit": [0o20, 0o7],
            "inv-5+digits": [0o11111, 0o111111], "self": [a], "mcast": [MC]}


def type_class(t):
    if t in T_NAMES:
        return T_NAMES[t]
    return "user" if t < 128 else "sys-other"


def len_class(n):
    return "len%d" % n if n < 3 else "len3+"


def content_class(t, msg):
    """for the two lookup types: does the payload name something the master knows?"""
    if t == 196 and len(msg) >= 1:
        return "known-id" if msg[0] == 0 or msg[0] in dict(MASTER_TABLE) else "unknown-id"
    if t == 198 and len(msg) >= 2:
        v = msg[0] | (msg[1] << 8)
        return "known-address" if v == 0 or v in {x for _, x in MASTER_TABLE} else "unknown-address"
    return len_class(len(msg))


def frame_class(a, raw):
    """shape of one injected payload relative to node a (used in signatures)"""
    f = NW.unpack_frame(raw)
    if f is None:
        return "short", "short-frame"
    (frm, to, fid, typ, res), msg = f
    bad = []
    if not ref_valid(to):
        bad.append("dst-" + addr_shape(to))
    if not ref_valid(frm):
        bad.append("origin-" + addr_shape(frm))
    if bad:
        return "invalid", ",".join(bad)  # the shape of an invalid frame is what makes it invalid
    if to == a:
        dc = "self/%s/%s" % (type_class(typ), content_class(typ, msg))
    elif to == MC:
        dc = "mcast/%s" % type_class(typ)
    elif to in RESERVED_MC:
        dc = "dst-reserved-mc"
    elif to == DEFAULT:
        dc = "dst-default-addr"
    else:
        dc = "dst-" + R.relation(a, to) if R.is_valid(a) else "dst-other"
    return "valid", dc


def role_tag(role, lvl):
    return "%s-L%d" % (role, lvl)


def exc_name(e):
    t = type(e)
    return t.__name__ if t.__module__ == "builtins" else "%s.%s" % (t.__module__, t.__name__)


def phys_for(a, raw):
    """where the ghost transmits the payload: the level's multicast address for frames addressed
    to 0o100 (no auto-ack there), otherwise a child pipe of the node"""
    f = NW.unpack_frame(raw)
    if f is not None and f[0][1] == MC:
        return R.pipe_address(a, 0) if a else R.pipe_address(0, 0), True
    return R.pipe_address(a, 1 + len(raw) % 5), False


def run_case(pack, role, lvl, payloads, mode="each"):
    """inject the payload(s) into a private copy and run update(); -> (violations, outcome)"""
    w, n, r, g = copy.deepcopy(pack)
    w.activate()
    a = node_addr(role, lvl)
    viol = []
    tag = role_tag(role, lvl)
    outs = []
    classes = [frame_class(a, p) for p in payloads]
    w.horizon = w.now + 3 * time_bound_ns(n, len(payloads)) + 100 * MS

    def v(clause, cls, what, with_level=True):
        viol.append(("%s/%s:%s:%s" % (PID, clause, tag if with_level else role, cls), what))

    def one_update(idx_list):
        q0 = len(n.queue)
        mark = len(w.airlog)
        t0 = w.now
        pending0 = len(r.rx_fifo)
        cls = "+".join(sorted({classes[i][1] for i in idx_list}))

        def culprit():
            # the frame being handled when update() was left: the last one popped from the RX FIFO
            k = pending0 - len(r.rx_fifo) - 1
            return classes[idx_list[k]][1] if 0 <= k < len(idx_list) else cls

        try:
            with cpu_guard(CPU_BOUND_S):
                n.update()
            res = "ok"
        except Abort:
            v("not-terminating", culprit(), "update() still running after %d ms of virtual time" % ((w.now - t0) // MS))
            return "hang"
        except CpuHang:
            v("not-terminating", culprit(), "update() used %d s of CPU time without returning (virtual time advanced by %d ms)" % (
                CPU_BOUND_S, (w.now - t0) // MS))
            return "hang"
        except HarnessError:
            raise
        except Exception as e:  # noqa
            v(exc_name(e), culprit(), "update() raised %s: %s on payload %s" % (exc_name(e), e, " + ".join(payloads[i].hex() for i in idx_list)))
            res = "exc:" + exc_name(e)
        dt = w.now - t0
        if dt > time_bound_ns(n, len(idx_list)):
            v("time-bound", cls, "update() took %d ms of virtual time (bound %d ms)" % (dt // MS, time_bound_ns(n, len(idx_list)) // MS))
        sent = [p for p in w.airlog[mark:] if p.src is r and not p.is_ack]
        queued = len(n.queue) - q0
        # "forward garbage": a transmitted frame that carries the complete header of a received frame IS that frame being
        # passed on (replies, acknowledgements and re-typed frames have another header) - it must be the received bytes
        for p in sent:
            for i in idx_list:
                if len(payloads[i]) >= 8 and p.payload[:8] == payloads[i][:8] and p.payload != payloads[i]:
                    v("forwarded-altered", classes[i][1], "received %s, passed on as %s (to %s)%s" % (
                        payloads[i].hex(), p.payload.hex(), p.addr.hex(),
                        "; earlier frames: " + " + ".join(x.hex() for x in payloads[:idx_list[0]]) if idx_list[0] else ""), with_level=False)
                    break
        if all(classes[i][0] != "valid" for i in idx_list):
            kind = "short" if all(classes[i][0] == "short" for i in idx_list) else "invalid"

            def blame(raw):
                # which injected payload does this transmitted / queued frame stem from? (same destination and frame id)
                h = NW.unpack_header(raw)
                for i in idx_list:
                    hi = NW.unpack_header(payloads[i])
                    if h is not None and hi is not None and (h[1] & 0xFFF, h[2]) == (hi[1] & 0xFFF, hi[2]):  # pack() keeps 12 bits
                        return classes[i][1]
                return cls

            if sent:
                v("%s-frame-transmitted" % kind, blame(sent[0].payload), "node reacted to %s by transmitting %d packet(s), first %s to %s"
                  % (" + ".join(payloads[i].hex() for i in idx_list), len(sent), sent[0].payload.hex(), sent[0].addr.hex()), with_level=False)
            if queued > 0:
                qf = n.queue.peek()
                v("%s-frame-queued" % kind, blame(qf.pack()) if qf is not None else cls,
                  "node queued %d frame(s) for %s" % (queued, " + ".join(payloads[i].hex() for i in idx_list)), with_level=False)
        return "%s:%s%s" % (res, "tx" if sent else "-", "+q" if queued > 0 else "")

    if mode == "batch":
        for p in payloads:
            phys, noack = phys_for(a, p)
            if not H.inject(w, g, phys, p, noack=noack):
                raise HarnessError("injected payload was not received by the node's radio")
        while r.rx_fifo and not viol and len(outs) <= len(payloads):
            outs.append(one_update(list(range(len(payloads) - len(r.rx_fifo), len(payloads)))))
    else:
        for i, p in enumerate(payloads):
            phys, noack = phys_for(a, p)
            if not H.inject(w, g, phys, p, noack=noack):
                raise HarnessError("injected payload was not received by the node's radio")
            outs.append(one_update([i]))
            if viol:
                break
    return viol, "|".join(outs), classes


def mk_payload(frm, to, typ, n, seed, res=None):
    msg = H.pattern(n, seed, typ)
    return NW.pack_frame(frm, to, (typ * 5 + n) & 0xFFFF, typ, (typ * 7 + n + 1) & 0xFF if res is None else res, msg)


def lengths(tier):
    return (0, 1, 2, 3, 8, 24) if tier == "quick" else tuple(range(25))


SILENT_TYPES = (0, 1, 64, 65, 127, 128, 129, 130, 131, 148, 149, 150, 191, 192, 193, 194, 195, 196, 197, 198, 199, 255)


def w_frames(item, rep):
    role, lvl, env, dname, oname, types, lens, seed = item
    pack = build(role, lvl, env)
    a = node_addr(role, lvl)
    dsts = dest_classes(a)[dname]
    orgs = origin_classes(a)[oname]
    k = 0
    for typ in types:
        for n in lens:
            # one case per (type, length); the representatives of the two classes rotate so that each meets
            # many types and every length
            for to in [dsts[(typ + n) % len(dsts)]]:
                for frm in [orgs[(typ // 3 + n) % len(orgs)]]:
                    raw = mk_payload(frm, to, typ, n, seed)
                    viol, out, classes = run_case(pack, role, lvl, [raw])
                    k += 1
                    rep.outcome("%s:%s" % (classes[0][0], out))
                    rep.nt("%s|%s|%s|%s" % (role_tag(role, lvl), env, classes[0][1], out))
                    for sig, what in viol:
                        rep.violation(sig, what, {"part": "frames", "role": role, "level": lvl, "env": env, "payloads": [raw], "mode": "each"})
    rep.case(k)
    rep.transitions += k
    rep.traces += k
    rep.states += k
    rep.part("frames:" + env, cases=k)


def crafted_mesh(a, seed):
    """lookup / request / release / response payloads with known and unknown contents, truncated and oversized"""
    out = []
    known_id, known_addr = MASTER_TABLE[1]
    for frm in (0o3, 0o13, DEFAULT, 0):
        for res in (0, 9, 255):
            for body in (b"", bytes([known_id]), bytes([99]), bytes([0]), bytes([255]), bytes([known_id, 0]), bytes([99, 0, 0]),
                         bytes([known_id]) + H.pattern(23, seed, 1)):
                out.append(NW.pack_frame(frm, a, 11, 196, res, body))
            for body in (b"", b"\x0b", bytes([known_addr & 0xFF, known_addr >> 8]), b"\x01\x00", b"\x00\x00", b"\x24\x09", b"\xff\xff",
                         bytes([known_addr & 0xFF, known_addr >> 8, 7]), b"\x1b\x00" + H.pattern(22, seed, 2)):
                out.append(NW.pack_frame(frm, a, 12, 198, res, body))
            for body in (b"", b"\x05", b"\x0c\x00", b"\x24\x09", b"\xff\xff\xff"):
                out.append(NW.pack_frame(frm, a, 13, 195, res, body))
                out.append(NW.pack_frame(frm, a, 14, 197, res, body))
                out.append(NW.pack_frame(frm, a, 15, 128, res, body))
                out.append(NW.pack_frame(frm, a, 16, 194, res, body))
                out.append(NW.pack_frame(frm, MC, 17, 194, res, body))
    return out


def w_raw(item, rep):
    role, lvl, env, kind, seed = item
    pack = build(role, lvl, env)
    a = node_addr(role, lvl)
    k = 0
    if kind == "short":
        cases = [H.pattern(n, seed, s) for n in range(1, 8) for s in range(8)] + [bytes([x]) * n for n in range(1, 8) for x in (0, 0xFF)]
        cases += [NW.pack_frame(0o3, a, 1, t, 0, b"")[:n] for n in range(1, 8) for t in (0, 130, 195)]
    elif kind == "pattern":
        cases = [H.pattern(n, seed, s) for n in range(8, 33) for s in range(12)]
    else:
        cases = crafted_mesh(a, seed)
    for raw in cases:
        viol, out, classes = run_case(pack, role, lvl, [raw])
        k += 1
        rep.outcome("%s:%s" % (classes[0][0], out))
        rep.nt("%s|%s|%s|%s" % (role_tag(role, lvl), env, classes[0][1], out))
        for sig, what in viol:
            rep.violation(sig, what, {"part": kind, "role": role, "level": lvl, "env": env, "payloads": [raw], "mode": "each"})
    rep.case(k)
    rep.transitions += k
    rep.traces += k
    rep.states += k
    rep.part("raw:" + kind, cases=k)


def seq_alphabet(a, tier, seed):
    """representative frames for the depth-2 exploration"""
    lvl = R.level(a)
    dc = dest_classes(a)
    al = []
    child = (dc.get("child") or dc.get("parent-side") or [0o1])[0]
    org = 0o3 if a != 0o3 else 0o4
    for t, res, n in ((0, 0, 3), (65, 0, 24), (130, 0, 0), (128, 9, 2), (131, 0, 4), (193, 0, 0), (194, 0, 0), (195, 9, 0),
                      (196, 0, 1), (197, 0, 0), (198, 0, 2), (148, 3, 24), (148, 2, 24), (149, 2, 24), (150, 65, 5), (150, 131, 5), (150, 0, 0)):
        al.append(NW.pack_frame(org, a, 7, t, res, H.pattern(n, seed, t)))
    for t, res, n in ((65, 0, 8), (193, 0, 0), (148, 2, 24), (150, 1, 3)):
        al.append(NW.pack_frame(org, child, 7, t, res, H.pattern(n, seed, t + 1)))
    for t, res, n in ((0, 0, 2), (194, 0, 0), (148, 2, 24), (150, 131, 3)):
        al.append(NW.pack_frame(DEFAULT if t == 194 else org, MC, 8, t, res, H.pattern(n, seed, t + 2)))
    # mesh requests that arrive as multicasts (what a node without an address can send), and frames whose addresses contain the digits 6 / 7
    for t, res, n in ((196, 0, 1), (198, 0, 2), (197, 0, 0), (195, 9, 0)):
        al.append(NW.pack_frame(org, MC, 11, t, res, H.pattern(n, seed, t + 3)))
    al.append(NW.pack_frame(0o7777, 0o7777, 9, 1, 0, b"xy"))
    al.append(NW.pack_frame(0o6, a, 9, 196, 0, b"\x03z"))
    if a == 0:
        al.append(NW.pack_frame(DEFAULT, 0, 6, 195, 9, b""))  # a direct address request (denied by a master whose level 1 is full)
    al.append(NW.pack_frame(org, dc["inv-5+digits"][0], 9, 1, 0, b"xy"))
    al.append(NW.pack_frame(0o20, a, 9, 1, 0, b"xy"))
    al.append(H.pattern(5, seed, 3))
    if tier != "quick":
        for t in (1, 127, 129, 192, 199, 255):
            al.append(NW.pack_frame(org, a, 10, t, 1, H.pattern(6, seed, t)))
            al.append(NW.pack_frame(org, child, 10, t, 1, H.pattern(6, seed, t)))
    return al


def w_pairs(item, rep):
    role, lvl, env, first_idx, tier, seed = item
    pack = build(role, lvl, env)
    a = node_addr(role, lvl)
    al = seq_alphabet(a, tier, seed)
    k = 0
    for i in first_idx:
        for j in range(len(al)):
            for mode in ("each", "batch"):
                viol, out, classes = run_case(pack, role, lvl, [al[i], al[j]], mode)
                k += 1
                rep.outcome("pair:%s:%s" % (mode, out))
                rep.nt("%s|pair|%d|%d|%s|%s" % (role_tag(role, lvl), i, j, mode, out))
                for sig, what in viol:
                    rep.violation(sig, what, {"part": "pairs", "role": role, "level": lvl, "env": env, "payloads": [al[i], al[j]], "mode": mode})
    rep.case(k)
    rep.transitions += 2 * k
    rep.traces += k
    rep.states += k
    rep.part("pairs", cases=k)


def frag_alphabet(a, seed):
    """fragments of one stream (origin, frame id 7) that can complete a message, stray ones, a second stream and a
    multicast stream: histories of depth 3 reach 'a message was completed, then another fragment arrives'"""
    org = 0o3 if a != 0o3 else 0o4
    other = 0o5
    al = []
    for t, res, n, fid, frm, to in ((148, 2, 24, 7, org, a), (148, 3, 24, 7, org, a), (149, 2, 24, 7, org, a), (149, 1, 24, 7, org, a),
                                    (150, 65, 5, 7, org, a), (150, 131, 5, 7, org, a), (150, 0, 0, 7, org, a), (148, 2, 24, 8, org, a),
                                    (150, 65, 5, 7, other, a), (65, 0, 6, 9, org, a), (148, 2, 24, 7, org, MC), (150, 66, 4, 7, org, MC)):
        al.append(NW.pack_frame(frm, to, fid, t, res, H.pattern(n, seed, t + res)))
    return al


FRAG_ROLES_QUICK = (("network", 0), ("network", 2), ("network-relay", 1), ("mesh", 1), ("master", 0))


def w_triples(item, rep):
    role, lvl, env, first, seed = item
    pack = build(role, lvl, env)
    a = node_addr(role, lvl)
    al = frag_alphabet(a, seed)
    k = 0
    for j in range(len(al)):
        for l in range(len(al)):
            for mode in ("each", "batch"):
                ps = [al[first], al[j], al[l]]
                viol, out, classes = run_case(pack, role, lvl, ps, mode)
                k += 1
                rep.outcome("triple:%s:%s" % (mode, out))
                rep.nt("%s|triple|%d|%d|%d|%s|%s" % (role_tag(role, lvl), first, j, l, mode, out))
                for sig, what in viol:
                    rep.violation(sig, what, {"part": "triples", "role": role, "level": lvl, "env": env, "payloads": ps, "mode": mode})
    rep.case(k)
    rep.transitions += 3 * k
    rep.traces += k
    rep.states += k
    rep.part("triples", cases=k)


def w_dhcp_origins(item, rep):
    """the master's address assignment works on the request's origin: every valid origin (every possible relaying
    node, levels 0-4), the default address and ill-formed ones x node ids {new, leased elsewhere, leased there}"""
    chunk, env, seed = item
    pack = build("master", 0, env)
    k = 0
    for frm in chunk:
        for nid in (9, MASTER_TABLE[1][0], 0):
            for typ in (195, 197, 196, 198):
                if typ != 195 and nid != 9:
                    continue
                body = {195: b"", 197: b"", 196: bytes([MASTER_TABLE[0][0]]), 198: bytes([MASTER_TABLE[1][1] & 0xFF, MASTER_TABLE[1][1] >> 8])}[typ]
                raw = NW.pack_frame(frm, 0, 21, typ, nid, body)
                viol, out, classes = run_case(pack, "master", 0, [raw])
                k += 1
                rep.outcome("origin:%s:%s" % (T_NAMES[typ], out))
                rep.nt("master|origin|L%d|%s|%s|%d|%s" % (R.level(frm) if R.is_valid(frm) else 9, addr_shape(frm), T_NAMES[typ], nid, out))
                for sig, what in viol:
                    rep.violation(sig, what, {"part": "dhcp-origins", "role": "master", "level": 0, "env": env, "payloads": [raw], "mode": "each"})
    rep.case(k)
    rep.transitions += k
    rep.traces += k
    rep.states += k
    rep.part("dhcp-origins", cases=k)


def all_origins():
    out = [0]
    lvl = [0]
    for depth in range(4):
        lvl = [x | (d << (3 * depth)) for x in lvl for d in range(1, 6)]
        out += lvl
    return out + [DEFAULT, 0o20, 0o7, 0o11111, 0o100]


def w_predicate(item, rep):
    lo, hi = item
    fn = H.m_structs.is_address_valid
    vals = list(range(lo, hi)) + ([None] if lo == 0 else [])
    for val in vals:
        want = ref_valid(val)
        try:
            got = fn(val)
        except Exception as e:  # noqa
            rep.violation("%s/is_address_valid:raises-%s:%s" % (PID, exc_name(e), addr_shape(val)), "is_address_valid(%r) raised %r" % (val, e),
                          {"part": "predicate", "value": val})
            continue
        if bool(got) != want:
            rep.violation("%s/is_address_valid:%s:%s" % (PID, "accepts" if got else "rejects", addr_shape(val)),
                          "is_address_valid(%s) is %r, the documented rule says %r" % ("None" if val is None else oct(val), got, want),
                          {"part": "predicate", "value": val})
        rep.outcome("predicate:%s" % ("valid" if want else addr_shape(val)))
    rep.case(len(vals))
    rep.transitions += len(vals)
    rep.traces += len(vals)
    rep.states += len(vals)
    rep.part("predicate", values=len(vals))


SIDE_ROLES = ("network-relay", "meshclass-node", "mesh-relay", "master-full")  # differ from network / mesh only in how frames for self / 0o100 are handled


def items(tier, seed):
    fr, raw, pairs = [], [], []
    lens = lengths(tier)
    for role, lvl in roles(tier):
        a = node_addr(role, lvl)
        dcs = dest_classes(a)
        ocs = origin_classes(a)
        fwd = "child" if "child" in dcs else "parent-side"
        for dname in dcs:
            if role in SIDE_ROLES and tier == "quick" and dname not in ("self", "mcast", fwd):
                continue
            for oname in ocs:
                # full origin x destination product in the thorough tier; quick: every destination class with a
                # valid origin, and every other origin class with the destinations self / child (or parent side) / 0o100
                # at lengths 0 and 2
                ll = lens
                if tier == "quick" and oname != "valid":
                    if dname not in ("self", fwd, "mcast"):
                        continue
                    ll = (0, 2)
                elif dname not in ("self", "mcast"):
                    # only frames for this node / multicasts are parsed beyond the header: the other classes are
                    # dropped or forwarded whatever their length
                    if tier == "quick":
                        ll = (0, 24) if dname.startswith("inv-") else (0, 3, 24)
                    else:
                        ll = (0, 1, 2, 3, 8, 24)
                for lo in range(0, 256, 64):
                    fr.append((role, lvl, "ack", dname, oname, list(range(lo, lo + 64)), ll, seed))
                if oname == "valid":
                    st = SILENT_TYPES if tier == "quick" else tuple(range(256))
                    sl = (0, 2, 24) if tier == "quick" else (0, 1, 2, 3, 8, 24)
                    step = 11 if tier == "quick" else 32
                    for i in range(0, len(st), step):
                        fr.append((role, lvl, "silent", dname, oname, list(st[i:i + step]), sl, seed))
        for env in ("ack", "silent"):
            for kind in ("short", "pattern", "mesh"):
                raw.append((role, lvl, env, kind, seed))
        n_al = len(seq_alphabet(a, tier, seed))
        for env in (("ack",) if tier == "quick" else ("ack", "silent")):
            for i in range(0, n_al, 4):
                pairs.append((role, lvl, env, list(range(i, min(i + 4, n_al))), tier, seed))
    return fr, raw, pairs


def run(tier, seed, rep, only=None):
    fr, raw, pairs = items(tier, seed)
    if not only or "predicate" in only:
        pmap(w_predicate, [(lo, lo + 4096) for lo in range(0, 65536, 4096)], rep)
    if not only or "frames" in only:
        # silent-environment items are ~20x as expensive per case: schedule them first
        fr.sort(key=lambda it: (0 if it[2] == "silent" else 1))
        pmap(w_frames, fr, rep)
    if not only or "raw" in only:
        pmap(w_raw, raw, rep)
    if not only or "pairs" in only:
        pmap(w_pairs, pairs, rep)
    trip, orig = [], []
    for role, lvl in (FRAG_ROLES_QUICK if tier == "quick" else [x for x in roles(tier) if x[0] != "routing"]):
        for env in (("ack",) if tier == "quick" else ("ack", "silent")):
            for first in range(len(frag_alphabet(0o2, seed))):
                trip.append((role, lvl, env, first, seed))
    ao = sorted(set(all_origins()))
    for env in (("ack",) if tier == "quick" else ("ack", "silent")):
        for i in range(0, len(ao), 25):
            orig.append((ao[i:i + 25], env, seed))
    if not only or "triples" in only:
        pmap(w_triples, trip, rep)
    if not only or "origins" in only:
        pmap(w_dhcp_origins, orig, rep)
    H.reset_frame_ids()
    rl = roles(tier)
    rep.sample({"role": "network", "level": 4, "node": oct(ROLE_ADDR[4]), "destination classes": {k: [oct(x) for x in v] for k, v in dest_classes(ROLE_ADDR[4]).items()}})
    rep.sample({"role": "master", "dhcp table": [(k, oct(x)) for k, x in MASTER_TABLE]})
    return dict(
        level="model_checking",
        exhaustive=True,
        rule="E-ENUM: for each of %d (role, level) nodes {RF24NetworkRoutingOnly, RF24Network, RF24Network with multicast_relay: levels 0-4; "
             "connected RF24MeshNoMaster (also with multicast_relay): levels 1-4; unassigned mesh node; RF24Mesh master with 4 leases / with all five level-1 addresses leased; RF24Mesh object as ordinary node}: "
             "all 256 message types x message lengths %s x destination classes {self, child, descendant, parent side, 0o100, other reserved "
             "multicast, 0o4444, digit 0, digit 6/7, more than 4 digits, >12-bit} x origin classes {valid, 0o4444, invalid digit, more than 4 digits, "
             "self, 0o100} (%s), each transmitted by a ghost PTX into the node's pipe (level multicast address for 0o100 frames) of a "
             "private deep copy, then update(); environments: next hop acknowledges / nobody answers (%s). Raw payloads of every length 1..7 "
             "and patterned payloads of every length 8..32; crafted mesh lookup/request/release/response payloads (known/unknown, truncated, "
             "oversized). E-BFS depth 2: every ordered pair over a %s-frame sub-alphabet, delivered one by one and both before one update(). "
             "E-BFS depth 3 over a 12-fragment sub-alphabet (one stream that can complete a message, stray / foreign / multicast fragments) on the "
             "nodes that re-assemble (quick: 5 of them). Master: address request / release / lookups from every valid origin address of levels 0-4 "
             "(781), 0o4444 and ill-formed ones x node ids {new, leased, 0}. A single update() is also cut after 20 s of own CPU time (a loop that never "
             "reaches a simulated-time call). is_address_valid on all 65 536 values and None. states = distinct injected inputs, transitions = update() executions; "
             "non-trivial = distinct (node, environment, frame class, reaction)."
             % (len(rl), "{0,1,2,3,8,24}" if tier == "quick" else "0..24",
                "quick: destinations self / 0o100 with a valid origin at all lengths, forwarded destination classes at lengths {0,3,24}, invalid ones at {0,24}; every other origin class with destinations self / child / 0o100 at lengths 0 and 2; the relay / RF24Mesh-as-node variants on destinations self / child / 0o100 only" if tier == "quick" else "full destination x origin product; lengths 0..24 for destinations self / 0o100, {0,1,2,3,8,24} for the classes that are forwarded or dropped unparsed",
                "silent environment with valid origins on 22 representative types x 3 lengths" if tier == "quick" else "silent environment with valid origins on all types x 6 lengths",
                len(seq_alphabet(0o32, tier, seed))),
        bounds=dict(nodes=["%s-L%d" % x for x in rl], frame_items=len(fr), raw_items=len(raw), pair_items=len(pairs), lengths=list(lengths(tier)),
                    time_bound="4 x (2 retry cycles + tx_timeout + route_timeout + 10 ms) + 20 ms per received frame"),
        trusted_base=["vf/sim.py (reception path: ghost PTX -> air -> RX FIFO)", "vf/ref/netwire.py (frame codec)", "vf/ref/route.py (address tree, pipe addresses)"],
        assumptions=["a connected mesh node is produced by calling the same internal _begin(address) that renew_address() calls once an address was granted",
                     "the radio cannot deliver a 0-byte dynamic payload: raw lengths start at 1",
                     "message bytes are seed-derived patterns; all header fields are enumerated by class representatives, the type over all 256 values",
                     "cases are independent (private deep copy per case); histories are covered to depth 2 only"],
        min_outcomes=12,
    )


def replay(data):
    r = data["replay"]
    if r["part"] == "predicate":
        from ..engine import Report
        rep = Report()
        v = r["value"]
        w_predicate((v, v + 1) if v is not None else (0, 1), rep)
        out = [(s, x["what"]) for s, x in rep.violations.items()]
    else:
        pack = build(r["role"], r["level"], r["env"])
        out, outcome, classes = run_case(pack, r["role"], r["level"], [bytes(p) for p in r["payloads"]], r.get("mode", "each"))
        print("node %s (0o%o), env %s, frame classes %s -> %s" % (role_tag(r["role"], r["level"]), node_addr(r["role"], r["level"]), r["env"], classes, outcome))
    want = data.get("signature")
    return [(s, w) for s, w in out if s == want] or out
