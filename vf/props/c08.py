"""C08 - RX/TX switching preserves the user's pipe-0 address and ACK reception.

E-BFS (engine.bfs) over every sequence of open_rx_pipe / close_rx_pipe / open_tx_pipe / auto_ack /
listen calls on a real driver object (RF24, or rf24_lite.RF24 for C20) bound to a simulated
radio; state = deep copy of (world, driver, radio, reference model).  Oracle: vf.ref.pipe0 (what the
user last asked for) against the radio's ground-truth registers, the merged CE/SPI log of each
call, and two behavioural probes on deep copies (a ghost PTX sending to the user's pipe-0 address
after `listen = True`; `send()` to a listening ghost after `open_tx_pipe()`)."""
import copy

from .. import harness as H
from .. import sim
from ..engine import bfs, pmap
from ..ref.pipe0 import Pipe0Model
from ..sim import HarnessError, Abort, US, MS

PID = "C08"


# ---------------------------------------------------------------- alphabet
def addresses(seed, aw):
    """seed-derived addresses, pairwise different in byte 0 (hence for every address width) except
    B5, which shares T5's first four bytes (equal to T for aw < 5, one byte off for aw = 5)"""
    out = {}
    first = 0x30 + 4 * (seed % 16)
    for k, name in enumerate(("A5", "T5", "U5", "AS")):
        body = H.pattern(5, seed, 11 + k)
        a = bytes([first + k]) + body[1:]
        out[name] = a
    out["B5"] = out["T5"][:4] + bytes([out["T5"][4] ^ 0x5A])
    out["SH"] = bytes([first + 5, 0x9E])  # shorter than every address width: alters the first bytes of the existing address
    if aw < 5:
        out["AS"] = out["AS"][:aw]  # an address exactly as long as the address width
        out["SUB"] = out["T5"][1:1 + aw]  # aw bytes that occur INSIDE the TX address buffer (at offset 1)
    else:
        del out["AS"]
    return out


def alphabet(cls_name, aw):
    ops = []
    rx_names = ["A5", "T5", "B5"] + (["AS"] if aw < 5 else [])
    for p in (0, 1):
        for n in rx_names:
            ops.append(("orx", p, n))
    if aw < 5:
        ops.append(("orx", 0, "SUB"))
    ops.append(("orx", 0, "SH"))
    ops += [("crx", 0), ("crx", 1)]
    ops += [("otx", "T5"), ("otx", "U5"), ("otx", "A5")]
    if cls_name != "lite":  # rf24_lite has no auto_ack attribute (always on)
        ops += [("aa", True), ("aa", False), ("aa", 0x3E)]
        ops += [("saa", True), ("saa", False)]  # the per-pipe function: set_auto_ack(x, 0)
    ops += [("listen", True), ("listen", False)]
    # the radio put to sleep and woken up again (sleepy receiver / transmitter); judged by the clauses that speak about
    # states only (CE high whenever PWR_UP=1 and PRIM_RX=1 at a return; the RX / TX clauses at later listen / open_tx_pipe calls)
    ops += [("power", False), ("power", True)]
    # another object of the same class, in the same program, on a radio of its own, is set up and used (H.bystander: it opens
    # its own pipes 0 / 1 / 4, a TX pipe, toggles listen, fails one transmission); invisible to this object on a correct library
    ops += [("other",)]
    ops += [("tx1",)]  # one unacknowledged transmission (leaves CE high in TX mode); offered in TX mode only
    return ops


def op_str(op):
    k = op[0]
    if k == "orx":
        return "open_rx_pipe(%d,%s)" % (op[1], op[2])
    if k == "crx":
        return "close_rx_pipe(%d)" % op[1]
    if k == "otx":
        return "open_tx_pipe(%s)" % op[1]
    if k == "aa":
        return "auto_ack=%s" % (hex(op[1]) if not isinstance(op[1], bool) else op[1])
    if k == "saa":
        return "set_auto_ack(%s,0)" % op[1]
    if k == "tx1":
        return "send(1 byte, ask_no_ack=True)"
    if k == "other":
        return "<another object of the class is set up and used on its own radio>"
    if k == "power":
        return "power=%s" % op[1]
    return "listen=%s" % op[1]


# ---------------------------------------------------------------- state
def mk_state(cls_name, aw):
    w = sim.World().activate()
    cls = H.LiteRF24 if cls_name == "lite" else H.RF24
    drv, radio = H.mk_driver(w, "dut", cls=cls, front="busio" if cls_name == "lite" else "spidev")
    if aw != 5:
        drv.address_length = aw
    if radio.aw() != aw:
        raise HarnessError("address width not programmed")
    radio.spilog = radio.celog = []  # ONE list: CE edges and SPI transactions in their true order
    return (w, drv, radio, Pipe0Model(aw))


def canon(st):
    w, drv, radio, m = st
    return (radio.snapshot(), w.pending(), H.driver_state(drv), m.key())


# ---------------------------------------------------------------- probes (on deep copies)
def probe_rx(st, addr, aw):
    """a ghost PTX transmits one payload to `addr`; -> pipes on which the DUT stored it"""
    w, drv, radio, m = copy.deepcopy(st)
    w.activate()
    radio.spilog = radio.celog = None
    g = sim.ghost_sender(w, "probe_tx", aw=aw)
    payload = b"C08-probe"
    n0 = len(radio.rx_fifo)
    sim.ghost_send(g, addr[:aw], payload)
    w.advance(2 * MS)
    return [p for (p, d) in radio.rx_fifo[n0:] if d == payload]


def probe_tx(st, addr, aw):
    """a ghost PRX listens (auto-ack) on `addr`; -> (result of the DUT's send(), ghost got it)"""
    w, drv, radio, m = copy.deepcopy(st)
    w.activate()
    radio.spilog = radio.celog = None
    g = sim.ghost_listener(w, "probe_rx", [None, addr[:aw]], aw=aw)
    w.advance(200 * US)
    # keep a failing probe short: no auto-retransmit on this throw-away copy (ARD 500us, ARC 0)
    radio.r[0x04] = 0x10
    payload = b"C08-probe-tx"
    try:
        res = drv.send(payload)
    except (HarnessError, Abort):
        raise
    except Exception as e:  # noqa
        res = "exc:" + type(e).__name__
    return res, any(d == payload for (_, d) in g.rx_fifo)


# ---------------------------------------------------------------- one transition + oracle
def step(st, op, ctx):
    """apply `op` to the state (in place) and evaluate every clause; -> (violations, outcome, nt)"""
    w, drv, radio, m = st
    w.activate()
    aw, A, pid = ctx["aw"], ctx["addr"], ctx["pid"]
    log = radio.spilog
    del log[:]
    cfg0, ce0 = radio.r[0], radio.ce_pin.value
    kind = op[0]
    viol = []

    def v(clause, what):
        viol.append(("%s/%s" % (pid, clause), what))

    exc = None

    def arg(name):
        """the address as the caller passes it: `bytes`, or - for every other operation of the alphabet (ctx['flip'] swaps
        the halves) - a bytearray that the caller re-uses (overwrites) as soon as the call has returned"""
        if (ctx["opidx"][op] + ctx.get("flip", 0)) % 2:
            return A[name]
        buf = bytearray(A[name])
        scratch.append(buf)
        return buf

    scratch = []
    try:
        if kind == "orx":
            given = A[op[2]]
            if len(given) < aw:
                # documented: "The existing address can be altered by writing a bytearray with a length less than 5" - the
                # pipe is opened on the given bytes followed by what the address register held above them (datasheet:
                # a shorter write leaves the upper bytes of a 5-byte register alone); ground truth taken before the call
                given = given + bytes(radio.a[0x0A + op[1]])[len(given):aw]
            drv.open_rx_pipe(op[1], arg(op[2]))
            m.open_rx_pipe(op[1], given)
        elif kind == "crx":
            drv.close_rx_pipe(op[1])
            m.close_rx_pipe(op[1])
        elif kind == "otx":
            drv.open_tx_pipe(arg(op[1]))
            m.open_tx_pipe(A[op[1]])
        elif kind == "power":
            drv.power = op[1]
        elif kind == "aa":
            drv.auto_ack = op[1]
            m.auto_ack(op[1])
        elif kind == "saa":
            drv.set_auto_ack(op[1], 0)
            m.auto_ack(bool(op[1]))
        elif kind == "tx1":
            drv.send(b"\x01", ask_no_ack=True)
        elif kind == "other":
            try:
                H.bystander(sim.World().activate(), type(drv))  # (a world of its own: nothing is added to this state)
            finally:
                w.activate()
        elif kind == "listen":
            drv.listen = op[1]
            m.listen(op[1])
        else:
            raise HarnessError("unknown op %r" % (op,))
    except (HarnessError, Abort):
        raise
    except Exception as e:  # noqa
        exc = type(e).__name__
        v("exception:%s:%s" % (kind, exc), "%s raised %s" % (op_str(op), exc))
    for buf in scratch:
        for i in range(len(buf)):
            buf[i] = (0xC3 + 29 * i) & 0xFF  # the caller's scratch buffer now holds something else

    # ---- CE clause, from the merged pin/SPI log of this call
    cfg, ce = cfg0, ce0
    for ent in log:
        if len(ent) == 2:  # CE edge
            ce = ent[1]
            if not ce and (cfg & 3) == 3 and kind not in ("listen", "power"):
                v("ce:dropped-in-rx:" + kind, "%s pulled CE low while the radio was in RX mode" % op_str(op))
        else:
            mosi = ent[1]
            if mosi and mosi[0] == 0x20 and len(mosi) > 1:  # W_REGISTER CONFIG
                new = mosi[1] & 0x7F
                if (new ^ cfg) & 1 and ce:
                    v("ce:high-at-role-change:" + ("to-rx" if new & 1 else "to-tx"),
                      "%s wrote CONFIG %#04x -> %#04x (PRIM_RX changes) while CE was high" % (op_str(op), cfg, new))
                cfg = new
    if cfg != radio.r[0]:
        raise HarnessError("CONFIG tracking out of step with the radio")
    in_rx = radio.pwr() and radio.prx()
    in_tx = radio.pwr() and not radio.prx()
    if in_rx and not radio.ce_pin.value:
        v("ce:low-in-rx:" + kind, "CE is low at the return of %s although PWR_UP=1 and PRIM_RX=1" % op_str(op))
    if kind == "listen" and exc is None:
        if op[1] and not in_rx:
            v("role:rx-not-entered", "CONFIG=%#04x after listen=True" % radio.r[0])
        if not op[1] and not in_tx:
            v("role:tx-not-entered", "CONFIG=%#04x after listen=False" % radio.r[0])

    outcome = kind
    nt = None
    erx0 = bool(radio.r[0x02] & 1)
    p0reg = radio.pipe_addr(0)
    txreg = radio.tx_addr()

    # ---- RX clause: evaluated when the radio enters RX mode
    if kind == "listen" and op[1] and exc is None:
        want_open, want_addr = m.rx_expect()
        ok = True
        if not want_open:
            if erx0:
                ok = False
                v("rx:left-open" + (":on-tx-address" if p0reg == txreg else ""),
                  "pipe 0 is enabled on %s after listen=True although the user %s" % (
                      p0reg.hex(), "never opened it / closed it"))
            # nothing may arrive on pipe 0, whatever its address register holds
            got = probe_rx(st, p0reg, aw)
            if 0 in got:
                if ok:
                    v("rx:probe-received-on-closed-pipe0", "a packet to %s was stored as pipe 0" % p0reg.hex())
                ok = False
            outcome = "listen=True:user-closed:" + ("closed" if ok else "OPEN")
        else:
            if not erx0:
                ok = False
                v("rx:closed", "pipe 0 is disabled after listen=True although the user opened it on %s" % want_addr.hex())
            elif p0reg != want_addr:
                ok = False
                v("rx:not-restored" + (":on-tx-address" if p0reg == txreg else ":other"),
                  "pipe 0 listens on %s after listen=True; the user opened it on %s (TX address %s)" % (
                      p0reg.hex(), want_addr.hex(), txreg.hex()))
            got = probe_rx(st, want_addr, aw)
            if 0 not in got:
                if ok:
                    v("rx:probe-not-received", "a packet sent to the user's pipe-0 address %s was stored on %r" % (want_addr.hex(), got))
                ok = False
            elif not ok:
                raise HarnessError("RX probe received although the registers are wrong")
            rel = "eq-tx" if (m.tx is not None and want_addr == m.tx[:aw]) else "ne-tx"
            outcome = "listen=True:user-open:%s:%s" % (rel, "ok" if ok else "BAD")
        nt = ("rx", m.p0, m.tx, m.aa0, p0reg, erx0)

    # ---- TX clause: right after open_tx_pipe() in TX mode with auto-ack on pipe 0
    if kind == "otx" and exc is None:
        if txreg != m.tx_expect():
            v("tx:tx-address-not-written", "TX_ADDR is %s after %s" % (txreg.hex(), op_str(op)))
        if in_tx and m.aa0:
            if not radio.r[0x01] & 1:
                v("tx:enaa-p0-clear", "the user enabled auto-ack on pipe 0 but EN_AA=%#04x" % radio.r[0x01])
            want = m.tx_expect()
            regs_ok = True
            eq_read = m.p0 is not None and m.p0 == m.tx
            if not erx0:
                regs_ok = False
                shape = "pipe0-never-opened" if not m.should_be_open else "pipe0-closed"
                v("tx:" + shape, "pipe 0 is disabled right after %s in TX mode with auto-ack on: no ACK can be received" % op_str(op))
            elif p0reg != want:
                regs_ok = False
                shape = "equal-to-read-addr-skip" if eq_read else "wrong-address"
                v("tx:" + shape, "pipe 0 listens on %s right after %s (%s) in TX mode with auto-ack on" % (
                    p0reg.hex(), op_str(op), want.hex()))
            res, heard = probe_tx(st, m.tx, aw)
            if regs_ok and txreg == want and res is not True:
                v("tx:probe-send-failed", "send() to a peer listening on %s returned %r (peer %s the payload)" % (
                    want.hex(), res, "got" if heard else "did not get"))
            if not regs_ok and res is True:
                raise HarnessError("TX probe acknowledged although pipe 0 cannot receive the ACK")
            outcome = "otx:tx-mode:aa0:%s:%s" % ("eq-read" if eq_read else "ne-read",
                                                 "acked" if res is True else "NOT-acked")
            nt = ("tx", m.p0, m.tx, m.should_be_open, p0reg, erx0)
        else:
            outcome = "otx:%s:%s" % ("rx-mode" if in_rx else ("tx-mode" if in_tx else "off"), "aa0" if m.aa0 else "noaa0")
    return viol, outcome, nt


# ---------------------------------------------------------------- work item
def w_bfs(item, rep):
    cls_name, aw, seed, depth, pid = item[:5]
    flip = item[5] if len(item) > 5 else 0
    ops = alphabet(cls_name, aw)
    ctx = dict(aw=aw, addr=addresses(seed, aw), pid=pid, flip=flip, opidx={o: i for i, o in enumerate(ops)})
    part = "pipe0-%s-aw%d%s" % (cls_name, aw, "-flip" if flip else "")

    def apply(st, op, hist):
        viol, outcome, nt = step(st, op, ctx)
        rep.traces += 1
        rep.outcome(outcome)
        if nt is not None:
            rep.nt(repr(nt))
            rep.part(part, clause_evaluations=1)
        for sig, what in viol:
            rep.violation(sig, "%s [%s]" % (what, ", ".join(op_str(o) for o in hist[1:] + [op])),
                          {"cls": cls_name, "aw": aw, "seed": seed, "flip": flip, "ops": hist[1:] + [op], "addr": ctx["addr"]})
        if len(rep.samples) < 2 and nt is not None and len(hist) >= 3:
            rep.sample({"part": part, "ops": [op_str(o) for o in hist[1:] + [op]], "outcome": outcome})
        if viol:
            return False  # a call sequence is cut at its first violation (its continuations would only repeat it)

    s0 = rep.states
    def alpha(st):
        radio = st[2]
        if radio.pwr() and not radio.prx():
            return ops
        return [o for o in ops if o[0] != "tx1"]
    done = bfs([(mk_state(cls_name, aw), "init")], alpha, apply, canon, depth, rep)
    rep.part(part, states=rep.states - s0, depth_completed=done, alphabet=len(ops), closed=bool(done < depth))


def run_pipe0(tier, seed, rep, cls_name="full", pid=PID, only=None):
    # quick: depth 6 for 5-byte addresses, 5 for the (larger) alphabets of address widths 4 and 3; thorough: two levels more.
    # (Before the operands SH / `other` and the power operations were added the thorough tier ran until the state space closed
    # at depth 12..13; with them one address width no longer finishes within an hour on this machine, so the bound is stated.)
    depth = 6 if tier == "quick" else 8
    items = [(cls_name, aw, seed, depth if aw == 5 else depth - 1, pid, 0) for aw in (5, 4, 3)]
    # the other half of the address arguments passed as re-used bytearrays (quick: 5-byte addresses only), one level less
    items += [(cls_name, aw, seed, depth - 1, pid, 1) for aw in ((5,) if tier == "quick" else (5, 4, 3))]
    if only:
        items = [it for it in items if ("aw%d" % it[1]) in only]
    pmap(w_bfs, items, rep)
    closed = sorted(k for k, p in rep.parts.items() if p.get("closed"))
    if closed:
        rep.notes["closure"] = ("no new state at depth %s for %s: every longer call sequence over this alphabet only revisits "
                                "explored states, so the result holds for sequences of any length" % (
                                    "/".join(str(rep.parts[k]["depth_completed"]) for k in closed), ", ".join(closed)))
    return dict(depth={("aw%d%s" % (it[1], "-flip" if it[5] else "")): it[3] for it in items}, address_lengths=sorted({it[1] for it in items}),
                address_arguments="every other open_rx_pipe / open_tx_pipe operation of the alphabet passes a bytearray that the caller overwrites right after "
                                  "the call (the '-flip' runs swap the halves); the others pass bytes",
                alphabet={("aw%d" % aw): [op_str(o) for o in alphabet(cls_name, aw)] for aw in (5, 3)})


def run(tier, seed, rep, only=None):
    b = run_pipe0(tier, seed, rep, only=only)
    return dict(
        level="model_checking",
        exhaustive=True,
        rule="E-BFS with canonical-state dedup (radio ground truth + all driver attributes + reference model) over every "
             "sequence of the alphabet's calls up to the depth, per address length 3/4/5, from the freshly constructed driver. "
             "RX clause at every return of listen=True (registers + ghost PTX probe on a deep copy), TX clause at every "
             "open_tx_pipe() in TX mode (PWR_UP=1, PRIM_RX=0) with auto-ack on pipe 0 (registers + send() to a listening ghost "
             "on a deep copy), CE clause on every call from the merged CE/SPI log. A transition is non-trivial when the RX or "
             "TX clause was evaluated on it; distinct = distinct (clause, user's pipe-0 address, TX address, pipe-0 registers).",
        bounds=b,
        trusted_base=["vf/sim.py (nRF24L01+ behavioural model: address registers with partial writes, EN_RXADDR, ACK reception "
                      "on pipe 0 only if ERX_P0 and RX_ADDR_P0==TX_ADDR, CE/PRIM_RX state machine)", "vf/ref/pipe0.py"],
        assumptions=["an address shorter than address_length alters the first bytes of the address the pipe register holds at that moment "
                     "(docs/core_api/basic_api.rst, open_rx_pipe; datasheet partial-write semantics): the 2-byte operand SH", "seed-derived address bytes, not all 2^40 values",
                     "'TX mode' = PWR_UP=1 and PRIM_RX=0; a powered-down radio straight after the constructor is in neither mode",
                     "CPython 3.12 only"],
        min_outcomes=6,
        explanation=rep.notes.get("closure", ""),
    )


def replay(data):
    r = data["replay"]
    pid = data.get("property", PID)
    aw = r["aw"]
    ops_all = alphabet(r["cls"], aw)
    ctx = dict(aw=aw, addr=addresses(r["seed"], aw), pid=pid, flip=r.get("flip", 0), opidx={o: i for i, o in enumerate(ops_all)})
    st = mk_state(r["cls"], aw)
    want = data.get("signature")
    found = []
    for i, op in enumerate(r["ops"]):
        op = tuple(op)
        viol, outcome, nt = step(st, op, ctx)
        w, drv, radio, m = st
        print("%-22s -> %-40s CONFIG=%#04x CE=%d EN_RXADDR=%#04x RX_ADDR_P0=%s TX_ADDR=%s user-p0=%s" % (
            op_str(op), outcome, radio.r[0], radio.ce_pin.value, radio.r[2], radio.pipe_addr(0).hex(), radio.tx_addr().hex(),
            None if m.p0 is None else m.p0[:aw].hex()))
        for sig, what in viol:
            if i == len(r["ops"]) - 1 or sig == want:
                found.append((sig, what))
    return [f for f in found if want is None or f[0] == want] or found
