"""C11 - header / fragment wire format.

E-ENUM over the header field domains (real RF24NetworkHeader / RF24NetworkFrame objects vs the
explicit little-endian codec of vf.ref.netwire) + every message length 0..144 written by a real
RF24Network node and collected from a hardware-level listener on the simulated air, compared
with the reference fragment encoder and fed to a TMRh20-style reference reassembler."""
import copy

from .. import harness as H
from .. import sim
from ..engine import pmap
from ..ref import netwire as NW
from ..sim import World, MS, HarnessError, Abort

PID = "C11"

B16 = (0, 1, 0xFF, 0x100, 0x0FF0, 0xFFE, 0xFFF)  # boundary 12-bit values (lo byte only / hi byte / all ones)
ADDR_B = (0, 0o1, 0o5, 0o100, 0o10, 0o1000, 0o4444, 0o5555, 0o1234, 0o7777, 0x0FF, 0x100, 0xF0F)
IDS_B = (0, 1, 0xFF, 0x100, 0xFFFE, 0xFFFF, 0x1234)
TR_B = ((0, 0), (1, 2), (127, 128), (255, 255), (148, 6), (150, 65), (0x80, 0x7F))


# ---------------------------------------------------------------- header codec (E-ENUM)
def _layout_shape(got, exp):
    if len(got) != len(exp):
        return "length"
    names = (("from", 0, 2), ("to", 2, 4), ("id", 4, 6), ("type", 6, 7), ("reserved", 7, 8))
    for name, a, b in names:
        if got[a:b] != exp[a:b]:
            if b - a == 2 and got[a:b] == exp[a:b][::-1]:
                return "byte-order"
            return name
    return "?"


_PREV = []  # [object returned by the previous pack(), its bytes at that time, the field values]


def check_fields(h, h2, frm, to, fid, typ, res, out):
    """pack() of a header carrying these field values == reference bytes; unpack() of those
    bytes restores the values.  h/h2 are scratch header objects.  Appends (sig, what, data)."""
    h.from_node, h.to_node, h.frame_id, h.message_type, h.reserved = frm, to, fid, typ, res
    exp = NW.pack_header(frm, to, fid, typ, res)
    tclass = "str" if isinstance(typ, str) else "int"
    data = {"part": "header", "kind": "fields", "fields": [frm, to, fid, typ, res]}
    try:
        got = h.pack()
    except (HarnessError, Abort):
        raise
    except Exception as e:  # noqa
        out.append(("%s/pack-raises:%s:%s" % (PID, type(e).__name__, tclass), "pack() raised %r for %r" % (e, data["fields"]), data))
        return False
    # the bytes handed out by the PREVIOUS pack() (of another header value) are still what they were
    if _PREV and bytes(_PREV[0]) != _PREV[1]:
        out.append(("%s/pack-result-overwritten" % PID, "the result of an earlier pack() (%s) reads %s after packing another header" % (
            _PREV[1].hex(), bytes(_PREV[0]).hex()), dict(data, previous=list(_PREV[2]))))
        _PREV.clear()
        return False
    if isinstance(got, (bytes, bytearray)):
        _PREV[:] = [got, bytes(got), [frm, to, fid, typ, res]]
    if not isinstance(got, (bytes, bytearray)) or bytes(got) != exp:
        shape = _layout_shape(bytes(got), exp) if isinstance(got, (bytes, bytearray)) else "not-bytes"
        out.append(("%s/pack-layout:%s:%s" % (PID, shape, tclass),
                    "pack() of from=%o to=%o id=%d type=%r reserved=%d gave %s, wire format is %s"
                    % (frm, to, fid, typ, res, bytes(got).hex() if isinstance(got, (bytes, bytearray)) else repr(got), exp.hex()), data))
        return False
    if len(h) != 8:
        out.append(("%s/header-len:%s" % (PID, tclass), "len(header) == %r" % len(h), data))
    ok = h2.unpack(got)
    want = (frm, to, fid, NW.type_byte(typ), res)
    have = (h2.from_node, h2.to_node, h2.frame_id, h2.message_type, h2.reserved)
    if not ok or have != want:
        fld = "refused" if not ok else [n for n, a, b in zip(("from", "to", "id", "type", "reserved"), have, want) if a != b][0]
        out.append(("%s/round-trip:%s:%s" % (PID, fld, tclass),
                    "unpack(pack()) of %r returned %r and fields %r" % (want, ok, have), data))
        return False
    return True


def check_raw(h2, buf, out):
    """unpack() of arbitrary >= 8 byte buffers decodes little-endian fields"""
    data = {"part": "header", "kind": "raw", "buf": bytes(buf)}
    exp = NW.unpack_header(buf)
    ok = h2.unpack(buf)
    have = (h2.from_node, h2.to_node, h2.frame_id, h2.message_type, h2.reserved)
    if not ok or have != exp:
        fld = "refused" if not ok else [n for n, a, b in zip(("from", "to", "id", "type", "reserved"), have, exp) if a != b][0]
        out.append(("%s/unpack-layout:%s" % (PID, fld), "unpack(%s) returned %r, fields %r, wire format says %r" % (bytes(buf).hex(), ok, have, exp), data))
        return False
    return True


def _flush(out, rep):
    for sig, what, data in out:
        rep.violation(sig, what, data)
    del out[:]


def w_header(item, rep):
    kind, arg, seed = item
    h, h2 = H.RF24NetworkHeader(), H.RF24NetworkHeader()
    out = []
    n = 0
    if kind == "from" or kind == "to":
        lo, hi = arg
        for v in range(lo, hi):
            for o in ADDR_B:
                for fid in IDS_B:
                    for typ, res in TR_B[:4]:
                        if kind == "from":
                            check_fields(h, h2, v, o, fid, typ, res, out)
                        else:
                            check_fields(h, h2, o, v, fid, typ, res, out)
                        n += 1
            if out:
                _flush(out, rep)
    elif kind == "pairs":  # thorough: every from x to pair
        lo, hi = arg
        fid, typ, res = (seed * 31 + 0x1234) & 0xFFFF, 65, 3
        for frm in range(lo, hi):
            for to in range(4096):
                check_fields(h, h2, frm, to, fid, typ, res, out)
            n += 4096
            if out:
                _flush(out, rep)
    elif kind == "typeres":
        lo, hi = arg
        for typ in range(lo, hi):
            for res in range(256):
                for frm, to, fid in ((0o1, 0, 0), (0o4444, 0o100, 0xFFFF), (0x100, 0xFF, 0x100)):
                    check_fields(h, h2, frm, to, fid, typ, res, out)
                    n += 1
            if out:
                _flush(out, rep)
    elif kind == "ids":
        lo, hi = arg
        for fid in range(lo, hi):
            for frm, to, typ, res in ((0o1, 0, 0, 0), (0o4321, 0o1234, 200, 100)):
                check_fields(h, h2, frm, to, fid, typ, res, out)
                n += 1
            if out:
                _flush(out, rep)
    elif kind == "strtypes":
        chars = [chr(c) for c in range(256)] + ["Ā", "€", "\U0010ffff"]
        for c in chars:
            for res in (0, 255):
                for frm, to, fid in ((0o1, 0, 0), (0x100, 0xFF, 0xFF00)):
                    check_fields(h, h2, frm, to, fid, c, res, out)  # type attribute holds a str
                    n += 1
            # constructor form: RF24NetworkHeader(to, "c")
            for to in (0, 0o4444, 0xFFF):
                hc = H.RF24NetworkHeader(to, c)
                data = {"part": "header", "kind": "ctor", "to": to, "type": c}
                n += 1
                if hc.to_node != to or (ord(c) < 256 and hc.message_type != ord(c)):
                    out.append(("%s/ctor:str" % PID, "RF24NetworkHeader(%o, %r) has to_node=%r message_type=%r" % (to, c, hc.to_node, hc.message_type), data))
                elif bytes(hc.pack())[2:4] + bytes(hc.pack())[6:] != NW.pack_header(0, to, 0, c, 0)[2:4] + NW.pack_header(0, to, 0, c, 0)[6:]:
                    out.append(("%s/pack-layout:type:ctor-str" % PID, "RF24NetworkHeader(%o, %r).pack() = %s" % (to, c, bytes(hc.pack()).hex()), data))
        _flush(out, rep)
    elif kind == "ctor":
        lo, hi = arg
        for to in range(lo, hi):
            for typ in (0, 1, 65, 127, 128, 255):
                H.set_frame_id((to * 7 + typ) & 0xFFFF)
                hc = H.RF24NetworkHeader(to, typ)
                n += 1
                data = {"part": "header", "kind": "ctor", "to": to, "type": typ}
                exp = NW.pack_header(hc.from_node, to, (to * 7 + typ) & 0xFFFF, typ, 0)
                if (hc.to_node, hc.message_type, hc.reserved) != (to, typ, 0) or not 0 <= hc.from_node <= 0xFFF:
                    out.append(("%s/ctor:int" % PID, "RF24NetworkHeader(%o, %d) has to=%r type=%r reserved=%r from=%r"
                                % (to, typ, hc.to_node, hc.message_type, hc.reserved, hc.from_node), data))
                elif bytes(hc.pack()) != exp:
                    out.append(("%s/pack-layout:%s:ctor" % (PID, _layout_shape(bytes(hc.pack()), exp)),
                                "RF24NetworkHeader(%o, %d).pack() = %s, wire format %s" % (to, typ, bytes(hc.pack()).hex(), exp.hex()), data))
        for typ in range(256):
            for to in (0, 0o1, 0o4444, 0xFFF) if lo == 0 else ():
                hc = H.RF24NetworkHeader(to, typ)
                n += 1
                if (hc.to_node, hc.message_type) != (to, typ) or bytes(hc.pack())[6] != typ:
                    out.append(("%s/ctor:int" % PID, "RF24NetworkHeader(%o, %d) has to=%r type=%r" % (to, typ, hc.to_node, hc.message_type),
                                {"part": "header", "kind": "ctor", "to": to, "type": typ}))
        _flush(out, rep)
    elif kind == "raw16":
        lo, hi = arg
        for v in range(lo, hi):
            b = bytes([v & 0xFF, v >> 8])
            t = bytes([(v * 7) & 0xFF, (v >> 3) & 0xFF])
            for buf in (b + b"\x01\x00\x02\x00" + t, b"\x34\x12" + b + b"\xfe\xff" + t, b"\x00\x00\x09\x02" + b + t,
                        bytearray(b + b[::-1] + b + t + b"tail")):
                check_raw(h2, buf, out)
                n += 1
            if out:
                _flush(out, rep)
    elif kind == "wrap":
        n += check_wrap(rep)
    elif kind == "refusal":
        n += check_refusal(seed, rep)
    elif kind == "frame":
        n += check_frames(seed, rep)
    rep.case(n)
    rep.transitions += n
    rep.traces += n
    rep.states += n
    rep.part("header:" + kind, cases=n)
    rep.outcome("codec:%s:%s" % (kind, "ok" if not rep.violations else "VIOLATION"))
    rep.nt("codec:%s:%r" % (kind, arg))


def check_wrap(rep):
    """65 537 real constructions: the class-level id counter wraps from 0xFFFF to 0"""
    H.reset_frame_ids()
    bad = None
    prev_pack = None
    for i in range(65537):
        hd = H.RF24NetworkHeader(0o1, 1)
        if hd.frame_id != (i & 0xFFFF) and bad is None:
            bad = (i, hd.frame_id)
        if i in (0, 255, 256, 65534, 65535, 65536):
            exp = NW.pack_header(hd.from_node, 0o1, i & 0xFFFF, 1, 0)
            if bytes(hd.pack()) != exp and prev_pack is None:
                prev_pack = (i, bytes(hd.pack()), exp)
    if bad:
        rep.violation("%s/id-counter:%s" % (PID, "wrap" if bad[0] >= 0xFFFF else "sequence"),
                      "construction #%d got frame id %r, expected %d" % (bad[0], bad[1], bad[0] & 0xFFFF),
                      {"part": "header", "kind": "wrap"})
    if prev_pack:
        rep.violation("%s/pack-layout:%s:wrap" % (PID, _layout_shape(prev_pack[1], prev_pack[2])),
                      "header #%d packs to %s, wire format %s" % (prev_pack[0], prev_pack[1].hex(), prev_pack[2].hex()),
                      {"part": "header", "kind": "wrap"})
    rep.outcome("codec:id-wrap-%s" % ("seen" if not bad else "wrong"))
    H.reset_frame_ids()
    return 65537


def check_refusal(seed, rep):
    """buffers of length 0..9 (and a few longer): < 8 bytes are refused and leave the object alone"""
    n = 0
    for L in list(range(0, 10)) + [31, 32, 33, 152]:
        for salt in range(4):
            raw = H.pattern(L, seed, salt + 1)
            for mk in (bytes, bytearray):
                buf = mk(raw)
                data = {"part": "header", "kind": "refusal", "buf": raw, "buftype": mk.__name__}
                # header
                hd = H.RF24NetworkHeader()
                hd.from_node, hd.to_node, hd.frame_id, hd.message_type, hd.reserved = 0o321, 0o45, 0xBEEF, 77, 9
                try:
                    ok = hd.unpack(buf)
                except (HarnessError, Abort):
                    raise
                except Exception as e:  # noqa
                    rep.violation("%s/unpack-raises:%s:%s" % (PID, type(e).__name__, "short" if L < 8 else "long"),
                                  "header.unpack(%d bytes) raised %r" % (L, e), data)
                    continue
                have = (hd.from_node, hd.to_node, hd.frame_id, hd.message_type, hd.reserved)
                n += 1
                if L < 8:
                    if ok:
                        rep.violation("%s/short-accepted:header:len%d" % (PID, L), "header.unpack() accepted a %d-byte buffer" % L, data)
                    elif have != (0o321, 0o45, 0xBEEF, 77, 9):
                        rep.violation("%s/short-side-effect:header" % PID, "refused %d-byte buffer changed the header to %r" % (L, have), data)
                    rep.outcome("refusal:header:short")
                else:
                    if not ok or have != NW.unpack_header(raw):
                        rep.violation("%s/unpack-layout:%s" % (PID, "refused" if not ok else "fields"),
                                      "header.unpack(%s) -> %r, %r" % (raw.hex(), ok, have), data)
                    rep.outcome("refusal:header:accepted")
                # frame
                fr = H.RF24NetworkFrame(message=b"keep")
                fr.header.from_node, fr.header.to_node, fr.header.frame_id, fr.header.message_type, fr.header.reserved = 0o321, 0o45, 0xBEEF, 77, 9
                try:
                    ok = fr.unpack(buf)
                except (HarnessError, Abort):
                    raise
                except Exception as e:  # noqa
                    rep.violation("%s/unpack-raises:%s:%s" % (PID, type(e).__name__, "short" if L < 8 else "long"),
                                  "frame.unpack(%d bytes) raised %r" % (L, e), data)
                    continue
                hh = fr.header
                have = (hh.from_node, hh.to_node, hh.frame_id, hh.message_type, hh.reserved)
                n += 1
                if L < 8:
                    if ok:
                        rep.violation("%s/short-accepted:frame:len%d" % (PID, L), "frame.unpack() accepted a %d-byte buffer" % L, data)
                    elif have != (0o321, 0o45, 0xBEEF, 77, 9) or bytes(fr.message) != b"keep":
                        rep.violation("%s/short-side-effect:frame" % PID, "refused %d-byte buffer changed the frame" % L, data)
                    rep.outcome("refusal:frame:short")
                else:
                    if not ok or have != NW.unpack_header(raw) or bytes(fr.message) != raw[8:]:
                        rep.violation("%s/frame-unpack:%s" % (PID, "refused" if not ok else ("header" if have != NW.unpack_header(raw) else "message")),
                                      "frame.unpack(%s) -> %r, header %r, message %s" % (raw.hex(), ok, have, bytes(fr.message).hex()), data)
                    elif len(fr) != L:
                        rep.violation("%s/frame-len:unpacked" % PID, "len(frame) == %d after unpacking %d bytes" % (len(fr), L), data)
                    if bytes(buf) != raw:
                        rep.violation("%s/frame-unpack:buffer-mutated" % PID, "unpack() changed the caller's buffer", data)
                    rep.outcome("refusal:frame:accepted")
    return n


def check_frames(seed, rep):
    """frame = header + unmodified message for every message length 0..144"""
    n = 0
    for L in range(0, 145):
        raw = H.pattern(L, seed, L)
        for mk in (bytes, bytearray):
            msg = mk(raw)
            hd = H.RF24NetworkHeader(0o1234 if L % 2 else 0o5, (L * 3 + 1) & 0xFF)
            hd.from_node = (0o4321, 0, 0o7777)[L % 3]
            hd.reserved = L & 0xFF
            fr = H.RF24NetworkFrame(hd, msg)
            data = {"part": "header", "kind": "frame", "len": L, "buftype": mk.__name__, "seed": seed}
            exp = NW.pack_frame(hd.from_node, hd.to_node, hd.frame_id, hd.message_type, hd.reserved, raw)
            got = fr.pack()
            n += 1
            shape = "empty" if L == 0 else ("single" if L <= 24 else "long")
            if bytes(got) != exp:
                clause = "header" if bytes(got)[:8] != exp[:8] else "message"
                rep.violation("%s/frame-pack:%s:%s" % (PID, clause, shape), "frame.pack() = %s, expected %s" % (bytes(got).hex(), exp.hex()), data)
                continue
            if len(fr) != 8 + L:
                rep.violation("%s/frame-len:%s" % (PID, shape), "len(frame) == %d for a %d-byte message" % (len(fr), L), data)
            if bytes(fr.message) != raw or bytes(msg) != raw or fr.message is not msg:
                rep.violation("%s/frame-message-modified:%s" % (PID, shape), "the frame's message object changed", data)
            f2 = H.RF24NetworkFrame()
            ok = f2.unpack(got)
            h2 = f2.header
            if (not ok or bytes(f2.message) != raw or
                    (h2.from_node, h2.to_node, h2.frame_id, h2.message_type, h2.reserved) !=
                    (hd.from_node, hd.to_node, hd.frame_id, hd.message_type, hd.reserved)):
                rep.violation("%s/frame-round-trip:%s" % (PID, shape), "unpack(pack()) differs for a %d-byte message" % L, data)
            rep.outcome("frame:%s" % shape)
    return n


# ---------------------------------------------------------------- on the air
class Drain:
    """hardware-level application of the ghost listener: empties its RX FIFO as packets arrive"""

    def __init__(self, radio):
        self.radio = radio
        self.got = []

    def fire(self):
        self.got.extend(p for _, p in self.radio.rx_fifo)
        del self.radio.rx_fifo[:]


class LoseAfter:
    """fault oracle: the first k distinct data payloads get through, everything later is lost"""

    def __init__(self, k):
        self.k = k
        self.seen = []

    def __call__(self, pkt):
        if pkt.is_ack:
            return False
        if pkt.payload not in self.seen:
            self.seen.append(pkt.payload)
        return self.seen.index(pkt.payload) >= self.k


def lvl_of(a):
    n = 0
    while a:
        a >>= 3
        n += 1
    return n


def next_hop_pipe(src, dst):
    """(next hop node, pipe) from the topology documentation (see also vf.ref.route): a child is
    reached on its pipe 5, the parent on the pipe numbered like the sender's own last digit"""
    ls = lvl_of(src)
    mask = (1 << (3 * ls)) - 1
    if dst != src and (dst & mask) == src and lvl_of(dst) > ls:
        return dst & ((1 << (3 * (ls + 1))) - 1), 5
    parent = src & ((1 << (3 * (ls - 1))) - 1)
    return parent, src >> (3 * (ls - 1))


def build_air(src, dst, mode, pre=None):
    w = World().activate()
    node, r = H.mk_node(w, src)
    if pre == "toggle":
        # history: fragmentation was switched off and on again (documented attribute)
        node.fragmentation = False
        node.fragmentation = True
    hop, pipe = next_hop_pipe(src, dst)
    addr = H.net_pipe_address(hop, pipe)
    if pre in ("failfirst", "failfirstfrag"):
        # history: an earlier write to an absent child failed completely (nobody listens on that address)
        ls = lvl_of(src)
        kid = src | (1 << (3 * ls))
        if kid == hop:
            kid = src | (2 << (3 * ls))
        w.advance(1 * MS)
        if node.send(H.RF24NetworkHeader(kid, 2), bytes(range(60 if pre == "failfirstfrag" else 9))):
            raise HarnessError("write to an absent node succeeded")
    L = d = None
    if mode != "failed":
        L = sim.ghost_listener(w, "L", [None, addr])
        d = Drain(L)
        L.rx_waiters.append(d)
    if mode.startswith("partial"):
        w.fault = LoseAfter(int(mode[7:]))
    if mode == "nack":
        d.ghost = H.mk_ghost_tx(w, "G")  # will answer with the NETWORK_ACK the origin waits for
    if pre == "rxafter":
        d.ghost2 = H.mk_ghost_tx(w, "G2")  # delivers an unrelated frame to the node after its write() returned
    w.advance(1 * MS)
    return (w, node, r, L, d), addr


def len_shape(n):
    if n <= 24:
        return "single"
    return "frag-exact" if n % 24 == 0 else "frag-partial"


def air_case(pack, addr, case, seed):
    """one write on a private copy -> (violations [(sig, what)], outcome)"""
    w, node, r, L, d = copy.deepcopy(pack)
    w.activate()
    src, dst, typ, n, api, mode = case["src"], case["dst"], case["type"], case["n"], case["api"], case["mode"]
    raw = H.pattern(n, seed, n * 7 + typ)
    fid0 = (seed * 7919 + n * 257 + typ * 3 + (0xFFF0 if n % 5 == 0 else 0)) & 0xFFFF
    H.set_frame_id(fid0)
    hdr = H.RF24NetworkHeader(dst, typ)
    if case.get("res") is not None:
        hdr.reserved = case["res"]  # a header field like the others ("all 256 types and reserved values")
    res0 = hdr.reserved
    hid0 = hdr.frame_id & 0xFFFF
    shape = len_shape(n)
    viol = []

    def v(clause, what):
        viol.append(("%s/%s:%s" % (PID, clause, shape), what))

    msg = bytearray(raw) if api == "write" else raw
    mark = len(w.airlog)
    exc = None
    if mode == "nack":
        # the node delivering to the destination answers with a NETWORK_ACK (from = to = origin)
        # while the origin waits for it; it arrives on one of the origin's own pipes
        import struct as _st
        nack = _st.pack("<HHHBB", src, src, fid0, 193, 0)
        w.at(w.now + (4 + n // 6) * MS, sim.GhostShot(d.ghost, H.net_pipe_address(src, 1, multicast=False), nack), "fire")
        mode = "sent"
        nack_mode = True
    else:
        nack_mode = False
    try:
        if api == "write":
            frame = H.RF24NetworkFrame(hdr, msg)
            result = node.write(frame)
            after_msg = frame.message
        else:
            result = node.send(hdr, msg)
            after_msg = msg
    except (HarnessError, Abort):
        raise
    except Exception as e:  # noqa
        exc = e
        result = None
        after_msg = msg
    if exc is not None:
        v("write-raises:%s:%s" % (type(exc).__name__, mode), "write of a %d-byte message raised %r" % (n, exc))
        return viol, "raise"
    w.advance(2 * MS)
    air = [p for p in w.airlog[mark:] if not p.is_ack and p.src is r]
    # distinct payloads in order of first transmission (retransmissions collapse)
    seq = []
    for p in air:
        if not seq or seq[-1] != p.payload:
            seq.append(p.payload)
    if any(p.addr != addr for p in air):
        v("air-address:%s" % mode, "transmitted to %s, next hop listens on %s" % (air[0].addr.hex(), addr.hex()))
    if any(len(p.payload) > 32 for p in air):
        v("air-size:%s" % mode, "a radio payload of %d bytes" % max(len(p.payload) for p in air))
    ids = set()
    for f in seq:
        hh = NW.unpack_header(f)
        if hh is not None:
            ids.add(hh[2])
    if len(ids) > 1:
        v("frag-id:%s" % mode, "fragments of one message carry frame ids %r" % sorted(ids))
    fid = min(ids) if ids else fid0
    if ids and len(ids) == 1 and fid != hid0:
        # a frame is its header followed by the message: the id on the air is the one the caller's header holds
        v("air-frame:id-not-the-header's:%s" % mode, "frame id %d on the air, the header passed to %s() holds %d" % (fid, api, hid0))
    exp = NW.encode(src, dst, fid, typ, res0, raw)
    if mode == "sent":
        want = exp
    elif mode == "failed":
        want = exp[:1]
    else:
        want = exp[:int(mode[7:]) + 1]
    if seq != want:
        if len(seq) != len(want):
            v("air-count:%s" % mode, "%d frame(s) on the air for a %d-byte message, expected %d" % (len(seq), n, len(want)))
        else:
            for i, (g, e) in enumerate(zip(seq, want)):
                if g != e:
                    pos = "only" if len(exp) == 1 else ("first" if i == 0 else ("last" if i == len(exp) - 1 else "more"))
                    if len(g) != len(e):
                        fld = "size"
                    elif g[:8] != e[:8]:
                        fld = _layout_shape(g[:8], e[:8])
                    else:
                        fld = "body"
                    v("air-frame:%s:%s" % (fld, pos), "frame %d of %d on the air is %s, TMRh20 encoding is %s" % (i + 1, len(exp), g.hex(), e.hex()))
                    break
    if mode == "sent":
        if d.got != seq:
            v("listener", "the listening radio stored %d payloads, %d were transmitted" % (len(d.got), len(seq)))
        ra = NW.Reassembler()
        outs = [o for o in (ra.feed(f) for f in d.got) if o is not None]
        if n <= 24 and typ in (NW.FRAG_FIRST, NW.FRAG_MORE, NW.FRAG_LAST):
            # an unfragmented message whose own type is one of the three fragment markers is, on the
            # wire, a fragment by definition of the protocol: the byte comparison above is the whole oracle
            pass
        elif len(outs) != 1:
            v("reassembly:%s" % ("nothing" if not outs else "several"),
              "TMRh20-style receiver completed %d message(s) (%s)" % (len(outs), ",".join(ra.dropped) or "-"))
        else:
            (f_, t_, i_, ty_), m_ = outs[0]
            if m_ != raw:
                v("reassembly:content", "receiver reassembled %d bytes %s.., sent %d bytes" % (len(m_), m_[:8].hex(), n))
            elif ty_ != typ:
                v("reassembly:type", "receiver sees type %d, sent type %d" % (ty_, typ))
            elif (f_, t_) != (src, dst):
                v("reassembly:addresses", "receiver sees from=%o to=%o" % (f_, t_))
        if nack_mode and result is not True:
            v("result:network-ack-arrived", "write returned %r although every frame was acknowledged and the NETWORK_ACK arrived" % (result,))
        if result is not True and not (64 < typ < 192 and next_hop_pipe(src, dst)[0] != dst):
            v("result:sent", "write returned %r although every frame was acknowledged" % (result,))
    else:
        if result:
            v("result:%s" % mode, "write returned %r although the next hop did not acknowledge" % (result,))
    if hdr.message_type != typ:
        v("type-restored:%s" % (mode + ("+network-ack" if nack_mode else "")), "caller's header shows type %r after sending type %d" % (hdr.message_type, typ))
    if case.get("pre") == "rxafter" and not viol:
        # the application keeps its header / frame; the node then receives an unrelated frame (update()): what the caller holds
        # must still be what it sent (type, destination, id; the message)
        import struct as _st2
        other = _st2.pack("<HHHBB", 0o5 if src != 0o5 else 0o4, src, (fid0 + 77) & 0xFFFF, 9, 3) + b"unrelated"
        if not H.inject(w, d.ghost2, H.net_pipe_address(src, 2, multicast=False), other):
            raise HarnessError("unrelated frame not received by the node")
        node.update()
        now_ = (hdr.to_node, hdr.message_type, hdr.frame_id & 0xFFFF)
        if now_ != (dst, typ, hid0):
            v("caller-header-overwritten:after-update", "after a later update() that received another frame the caller's header reads to=%o type=%r id=%d, it was sent as to=%o type=%d id=%d" % (
                now_[0], now_[1], now_[2], dst, typ, hid0))
        if bytes(after_msg) != raw or bytes(msg) != raw:
            v("message-modified:after-update", "caller's message changed when the node received another frame")
    if bytes(after_msg) != raw or bytes(msg) != raw:
        v("message-modified:%s" % mode, "caller's message changed")
    outcome = "air:%s:%s:frames=%d:%s" % (mode, shape, len(seq), "T" if result else "F")
    return viol, outcome


AIR_ROUTES = ((0o1, 0), (0o1, 0o11), (0o1, 0o2), (0o1, 0o211), (0, 0o3), (0o4321, 0o321), (0o4321, 0o5), (0o23, 0o4123))


def w_air(item, rep):
    src, dst, mode, cases, seed = item
    mode, _, pre = mode.partition("+")
    pack, addr = build_air(src, dst, mode, pre or None)
    for cs in cases:
        typ, n, api = cs[:3]
        case = dict(src=src, dst=dst, type=typ, n=n, api=api, mode=mode)
        if len(cs) > 3:
            case["res"] = cs[3]
        if pre:
            case["pre"] = pre
        viol, outcome = air_case(pack, addr, case, seed)
        rep.case()
        rep.transitions += 1
        rep.traces += 1
        rep.states += 1
        rep.outcome(outcome)
        rep.nt("%o>%o:%s:%d:%d:%s" % (src, dst, mode, typ, n, api))
        rep.part("air:" + mode, writes=1)
        for sig, what in viol:
            rep.violation(sig, what, {"part": "air", "case": case, "seed": seed})
    if len(rep.samples) < 1 and cases:
        rep.sample({"part": "air", "src": oct(src), "dst": oct(dst), "mode": mode, "next_hop_address": addr,
                    "example": {"type": cases[-1][0], "len": cases[-1][1], "api": cases[-1][2]}})


def air_items(tier, seed):
    items = []
    lens = list(range(0, 145))
    types = (0, 1, 65, 127) if tier == "quick" else (0, 1, 64, 65, 127, 128, 131, 191, 192, 255)
    # every length x types x both call forms on every route
    for src, dst in AIR_ROUTES:
        for typ in types:
            if 64 < typ < 192 and next_hop_pipe(src, dst)[0] != dst and typ != 65:
                continue  # NETWORK_ACK wait (route_timeout) adds nothing to the wire format; one such type is kept
            for api in ("send", "write"):
                cases = [(typ, n, api) for n in lens]
                for i in range(0, len(cases), 49):
                    items.append((src, dst, "sent", cases[i:i + 49], seed))
    # every type at the boundary lengths (thorough: every type x every length)
    tl = (0, 1, 24, 25, 48, 49, 143, 144) if tier == "quick" else lens
    for lo in range(0, 256, 16):
        cases = [(typ, n, "send" if (typ + n) % 2 else "write") for typ in range(lo, lo + 16) for n in tl]
        for i in range(0, len(cases), 128):
            items.append((0o1, 0, "sent", cases[i:i + 128], seed))
    # routed ACK-type messages whose NETWORK_ACK arrives while write() waits for it
    for src, dst in AIR_ROUTES:
        if next_hop_pipe(src, dst)[0] == dst:
            continue
        cases = [(typ, n, api) for typ in ((65, 127, 191) if tier == "quick" else (65, 66, 127, 128, 150, 191))
                 for n in ((0, 5, 24, 25, 60, 144) if tier == "quick" else (0, 1, 5, 23, 24, 25, 48, 49, 60, 143, 144)) for api in ("send", "write")]
        items.append((src, dst, "nack", cases, seed))
    # after fragmentation was switched off and on again: every length on one direct and one routed pair
    for src, dst in ((0o1, 0), (0o1, 0o2)):
        cases = [(1, n, "send" if n % 2 else "write") for n in lens]
        for i in range(0, len(cases), 49):
            items.append((src, dst, "sent+toggle", cases[i:i + 49], seed))
    # every value of the caller's reserved byte (single frames carry it as given, fragments overwrite it)
    for src, dst in ((0o1, 0), (0o1, 0o2)):
        cases = [(typ, n, "send" if (res + n) % 2 else "write", res) for res in range(256) for typ, n in ((1, 0), (1, 5), (127, 24), (65, 25), (1, 49))]
        for i in range(0, len(cases), 160):
            items.append((src, dst, "sent", cases[i:i + 160], seed))
    # the node receives an unrelated frame after the write returned: the caller's header and message are still the caller's
    for src, dst in ((0o1, 0), (0o1, 0o2), (0o23, 0o4123)):
        cases = [(typ, n, "send" if (typ + n) % 2 else "write") for typ in (0, 1, 64, 65, 127, 192, 255) for n in (0, 5, 24, 25, 60)
                 if not (64 < typ < 192 and next_hop_pipe(src, dst)[0] != dst)]
        items.append((src, dst, "sent+rxafter", cases, seed))
    # after an earlier write (single frame / first fragment of a longer message) to an absent node failed completely
    for src, dst in ((0o1, 0), (0o1, 0o2), (0, 0o3), (0o23, 0o4123)):
        for pre in ("failfirst", "failfirstfrag"):
            cases = [(1 if n % 3 else 127, n, "send" if n % 2 else "write") for n in ((0, 1, 24, 25, 49, 144) if tier == "quick" else lens)]
            items.append((src, dst, "sent+" + pre, cases, seed))
            items.append((src, dst, "partial1+" + pre, [(1, 49, "send"), (127, 72, "write")], seed))
    # nobody answers / the next hop stops answering after k fragments
    for i in range(0, 145, 8):
        items.append((0o1, 0o11, "failed", [(65 if n % 2 else 1, n, "send" if n % 3 else "write") for n in lens[i:i + 8]], seed))
    for k, ns in ((1, (25, 48, 49, 72, 73, 144)), (2, (49, 72, 73, 120, 144)), (5, (121, 144))):
        items.append((0o1, 0, "partial%d" % k, [(1, n, "send") for n in ns] + [(127, n, "write") for n in ns], seed))
    return items


def header_items(tier, seed):
    it = []
    for lo in range(0, 4096, 256):
        it.append(("from", (lo, lo + 256), seed))
        it.append(("to", (lo, lo + 256), seed))
        it.append(("ctor", (lo, lo + 256), seed))
    for lo in range(0, 256, 32):
        it.append(("typeres", (lo, lo + 32), seed))
    for lo in range(0, 65536, 8192):
        it.append(("ids", (lo, lo + 8192), seed))
        it.append(("raw16", (lo, lo + 8192), seed))
    it += [("strtypes", None, seed), ("wrap", None, seed), ("refusal", None, seed), ("frame", None, seed)]
    if tier == "thorough":
        for lo in range(0, 4096, 64):
            it.append(("pairs", (lo, lo + 64), seed))
    return it


def run(tier, seed, rep, only=None):
    hi = header_items(tier, seed)
    ai = air_items("thorough", seed)  # the on-air part always runs at what used to be the thorough bounds (every type x every length; it is cheap)
    if not only or "header" in only:
        pmap(w_header, hi, rep)
    if not only or "air" in only:
        pmap(w_air, ai, rep)
    H.reset_frame_ids()
    return dict(
        level="model_checking",
        exhaustive=True,
        rule="E-ENUM. Header codec: every 12-bit origin and every 12-bit destination x 13 boundary partner addresses x 7 boundary ids x "
             "4 (type, reserved) pairs; all 256 types x 256 reserved values x 3 settings; all 65 536 frame ids x 2 settings; every "
             "one-character str type chr(0..255) (+3 wide characters) as attribute and as constructor argument; constructor over all "
             "4096 destinations x 6 types and all 256 types; 65 537 real constructions for the id wrap; unpack of all 65 536 raw 16-bit "
             "values in each 16-bit field; buffers of length 0..9,31,32,33,152 (bytes and bytearray) for the refusal clause; frames with "
             "every message length 0..144"
             + ("; every one of the 4096x4096 (origin, destination) pairs" if tier == "thorough" else "")
             + ". On the air: every message length 0..144 x types x send()/write() x 8 (sender, destination) routes written by a real "
               "RF24Network node to a hardware-level listener on the next hop's pipe address; all 256 types at "
             + "every length"
             + "; every length with nobody answering; next hop going silent after 1, 2, 5 fragments. One case = one real execution; "
               "states = distinct inputs executed, transitions = executions; non-trivial = distinct on-air cases + codec work items.",
        bounds=dict(header_items=len(hi), air_items=len(ai), air_writes=sum(len(i[3]) for i in ai), lengths="0..144",
                    routes=["%o>%o" % r for r in AIR_ROUTES]),
        trusted_base=["vf/sim.py (radio + air model)", "vf/ref/netwire.py (explicit little-endian codec, TMRh20 fragment encoder and reassembler)",
                      "vf/harness.py net_pipe_address (next hop's pipe address from the topology documentation)"],
        assumptions=["message bytes are seed-derived position-dependent patterns, not all 256^n contents",
                     "CPython 3.12 on a little-endian host (native struct order equals the wire order here; a big-endian host is not exercised)",
                     "loss-free medium except for the stated silent-next-hop cases",
                     "refused short buffers are additionally required to leave the header/frame object unchanged",
                     "unfragmented messages whose own type is 148/149/150 (the fragment marker types) are compared byte for byte only; "
                     "no receiver can tell them from fragments"],
        min_outcomes=12,
    )


def replay(data):
    r = data["replay"]
    out = []
    if r["part"] == "air":
        case = r["case"]
        pack, addr = build_air(case["src"], case["dst"], case["mode"], case.get("pre"))
        viol, outcome = air_case(pack, addr, case, r["seed"])
        print("outcome:", outcome)
        out = viol
    else:
        from ..engine import Report
        rep = Report()
        kind = r["kind"]
        h, h2 = H.RF24NetworkHeader(), H.RF24NetworkHeader()
        tmp = []
        if kind == "fields":
            _PREV.clear()
            if r.get("previous"):
                check_fields(h, h2, *r["previous"], tmp)  # the header value packed just before
            check_fields(h, h2, *r["fields"], tmp)
        elif kind == "raw":
            check_raw(h2, r["buf"], tmp)
        elif kind == "wrap":
            check_wrap(rep)
        elif kind == "refusal":
            check_refusal(0, rep)
            for s in (1, 7):
                check_refusal(s, rep)
        elif kind == "frame":
            check_frames(r.get("seed", 0), rep)
        elif kind == "ctor":
            w_header(("strtypes", None, 0), rep)
            w_header(("ctor", (0, 4096), 0), rep)
        out = [(s, w) for s, w, _ in tmp] + [(s, v["what"]) for s, v in rep.violations.items()]
    want = data.get("signature")
    return [(s, w) for s, w in out if s == want] or out
