"""C20 - rf24_lite honours the same link-level contract as RF24.
Re-instantiates the C01 (payload integrity), C02 (send/resend truth under every loss pattern),
C03 (setters/getters), C08 (pipe-0 address across RX/TX switches) and C10 (FIFO / status
accessors) harnesses with rf24_lite.RF24 - as transmitter, as receiver and on both ends where a
peer exists - through adafruit_bus_device.SPIDevice on the simulated busio-style bus, plus
E-ENUM of load_ack(buf, pipe) over every length 0..33 x pipe -1..6."""
import copy

from .. import harness as H
from .. import link
from ..engine import pmap
from ..sim import World, US, MS
from . import c01

PID = "C20"


# ---------------------------------------------------------------- load_ack domain
def w_load_ack(item, rep):
    seed, = item
    w = World().activate()
    drv, radio = H.mk_driver(w, "L", cls=H.LiteRF24, spilog=True)
    drv.open_rx_pipe(1, b"\xa1\xb2\xc3\xd4\xe5")
    drv.listen = True
    base = (w, drv, radio)
    for pipe in range(-1, 7):
        for n in range(0, 34):
            for buftype in (bytes, bytearray):
                for prefill in (0, 3):
                    w2, d2, r2 = copy.deepcopy(base)
                    w2.activate()
                    for k in range(prefill):
                        r2.xfer(bytes([0xA8 | 1]) + bytes([k + 1]))
                    before_fifo = [e.key() for e in r2.tx_fifo]
                    mark = len(r2.spilog)
                    buf = buftype(H.pattern(n, seed, salt=pipe + 2))
                    keep = bytes(buf)
                    exc = None
                    try:
                        ret = d2.load_ack(buf, pipe)
                    except Exception as e:  # noqa
                        exc, ret = type(e).__name__, None
                    rep.case()
                    rep.transitions += 1
                    rep.traces += 1
                    valid = 1 <= n <= 32 and 0 <= pipe <= 5
                    wrote = [m for (_, m, _) in r2.spilog[mark:] if m and 0xA8 <= m[0] <= 0xAF]
                    after_fifo = [e.key() for e in r2.tx_fifo]
                    cls = "len%s:pipe%s:%s" % ("0" if n == 0 else ("1..32" if n <= 32 else ">32"), "ok" if 0 <= pipe <= 5 else "bad", "full" if prefill == 3 else "room")
                    rep.outcome("load_ack:%s:ret=%r:exc=%s:wrote=%d" % (cls, ret, exc, len(wrote)))
                    rep.nt("load_ack:%d:%d:%s:%d" % (pipe, n, buftype.__name__, prefill))
                    rep.part("load_ack", executions=1)
                    rd = {"part": "load_ack", "pipe": pipe, "len": n, "buftype": buftype.__name__, "prefill": prefill, "seed": seed}
                    if valid and prefill == 0:
                        if exc or ret is not True or len(wrote) != 1 or wrote[0] != bytes([0xA8 | pipe]) + keep or len(after_fifo) != 1:
                            rep.violation("%s/load_ack-rejects-valid:%s" % (PID, cls), "load_ack(%d bytes, pipe %d) returned %r (exc %s), W_ACK_PAYLOAD written: %r" % (
                                n, pipe, ret, exc, [x.hex() for x in wrote]), rd)
                    elif valid and prefill == 3:
                        if exc or ret is not False or wrote or after_fifo != before_fifo:
                            rep.violation("%s/load_ack-full-fifo:%s" % (PID, cls), "load_ack() with a full TX FIFO returned %r (exc %s)" % (ret, exc), rd)
                    else:
                        if wrote or after_fifo != before_fifo:
                            rep.violation("%s/load_ack-accepts-invalid:%s" % (PID, cls), "load_ack(%d bytes, pipe %d) wrote to the TX FIFO" % (n, pipe), rd)
                        if ret not in (False, None) or (exc not in (None, "ValueError", "IndexError")):
                            rep.violation("%s/load_ack-invalid-result:%s" % (PID, cls), "load_ack(%d bytes, pipe %d) returned %r / raised %s" % (n, pipe, ret, exc), rd)
                    if bytes(buf) != keep:
                        rep.violation("%s/load_ack-buffer-mutated" % PID, "caller's buffer changed", rd)


PAIRINGS = (("lite", "full"), ("full", "lite"), ("lite", "lite"))


def run(tier, seed, rep, only=None):
    bounds = {}
    if not only or only == "load_ack":
        pmap(w_load_ack, [(seed,)], rep)
    for tx, rx in PAIRINGS:
        if not only or only == "c01":
            bounds["c01:%s->%s" % (tx, rx)] = c01.run_link(tier, seed, rep, tx_cls=tx, rx_cls=rx, pid=PID)
    extra = _optional_parts(tier, seed, rep, only, bounds)
    return dict(
        level="model_checking",
        exhaustive=True,
        rule="the C01 enumeration (lengths 0..40 x modes x buffer types x calls; pipes x widths x rates x channels; payload lists) with rf24_lite as "
             "transmitter, receiver and both; load_ack over len 0..33 x pipe -1..6 x bytes/bytearray x TX FIFO empty/full" + extra,
        bounds=bounds,
        trusted_base=["vf/sim.py", "vf/ref/esb.py", "adafruit_bus_device.SPIDevice (real code, on the simulated bus)"],
        assumptions=["documented reductions of the lite driver: dynamic payloads and payload length are global, auto-ack and CRC-2 always on"],
        min_outcomes=6,
    )


def not_claimed(sig):
    """clauses of the re-used harnesses that C20's statement does not extend to rf24_lite"""
    body = sig.split("/", 1)[1]
    if body.startswith("tx:"):
        # of C08 only 'restores the pipe-0 reading address on entering RX mode' is claimed (a freshly
        # constructed lite object is documented to need `listen = False` before transmitting)
        return "C08's TX clause is not part of C20"
    if body.startswith("exception:") and body.endswith(":invalid"):
        return "documented reduction: exceptions for invalid arguments were removed from the lite driver"
    if body.startswith("illegal-write:") and body.endswith(":len6"):
        return "addresses longer than 5 bytes are outside the documented domain and the lite driver does not validate them"
    return None


def _optional_parts(tier, seed, rep, only, bounds):
    """C02 / C03 / C08 / C10 harnesses re-run on the lite driver (each module exports a
    class-parameterised entry point)"""
    extra = ""
    import importlib
    for modname, fn, label in (("c02", "run_faults", "send/resend fault enumeration"), ("c10", "run_accessors", "FIFO/status accessor BFS"),
                               ("c08", "run_pipe0", "pipe-0 BFS"), ("c03", "run_setters", "setter/getter BFS")):
        if only and only != modname:
            continue
        try:
            mod = importlib.import_module("vf.props." + modname)
            f = getattr(mod, fn)
        except (ImportError, AttributeError):
            continue
        known = set(rep.violations)
        if modname == "c02":
            for tx, rx in PAIRINGS:
                bounds["%s:%s->%s" % (modname, tx, rx)] = f(tier, seed, rep, tx_cls=tx, rx_cls=rx, pid=PID)
        else:
            bounds[modname] = f(tier, seed, rep, cls_name="lite", pid=PID)
        for sig in set(rep.violations) - known:
            rd = rep.violations[sig].get("replay")
            if isinstance(rd, dict):
                rd["module"] = modname  # tells replay() whose harness recorded this history
        extra += "; " + label + " (" + modname + ") on rf24_lite"
    # C20 claims of the lite driver what its statement lists, within the documented reductions
    # ("exception prompts have been reduced", no per-pipe state, no validation of oversize input):
    dropped = {}
    for sig in list(rep.violations):
        why = not_claimed(sig)
        if why:
            dropped[sig] = why
            del rep.violations[sig]
    if dropped:
        rep.part("not-claimed-for-lite", **{k.replace("/", "_"): v for k, v in dropped.items()})
    return extra


def replay(data):
    r = data["replay"]
    if r.get("part") == "load_ack":
        w = World().activate()
        d, radio = H.mk_driver(w, "L", cls=H.LiteRF24, spilog=True)
        d.open_rx_pipe(1, b"\xa1\xb2\xc3\xd4\xe5")
        d.listen = True
        for k in range(r["prefill"]):
            radio.xfer(bytes([0xA9]) + bytes([k + 1]))
        buf = (bytes if r["buftype"] == "bytes" else bytearray)(H.pattern(r["len"], r["seed"], salt=r["pipe"] + 2))
        n0 = len(radio.tx_fifo)
        try:
            ret = d.load_ack(buf, r["pipe"])
        except Exception as e:  # noqa
            ret = "raised " + type(e).__name__
        print("load_ack(%d bytes, pipe %d) -> %r; TX FIFO %d -> %d entries" % (r["len"], r["pipe"], ret, n0, len(radio.tx_fifo)))
        valid = 1 <= r["len"] <= 32 and 0 <= r["pipe"] <= 5
        ok = (len(radio.tx_fifo) == n0 + 1 and ret is True) if (valid and n0 < 3) else len(radio.tx_fifo) == n0
        return [] if ok else [(data.get("signature", PID + "/load_ack"), "load_ack domain wrong")]
    if r.get("part") in ("core", "cross", "lists", "perpipe", "burst", "bidir"):
        return c01.replay(data)
    import importlib
    for modname in ("c02", "c10", "c08", "c03"):
        try:
            mod = importlib.import_module("vf.props." + modname)
        except ImportError:
            continue
        if r.get("module") == modname:
            return mod.replay(data)
    raise ValueError("unknown replay part")
