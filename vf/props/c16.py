"""C16 - the mesh master leases each logical address to at most one node id.

E-BFS (level-synchronous, parallel) over histories of address requests / releases / save+load
cycles on a real RF24Mesh master.  Requests and releases are radio packets injected by a ghost
PTX into the master's pipes, replies are read from the simulated air.  Oracle: vf.ref.dhcp."""
import copy
import os
import shutil
import tempfile

from .. import harness as H
from ..engine import pmap, cpu_guard, CpuHang
from ..ref import dhcp as D
from ..ref import netwire as NW
from ..ref import route as R
from ..sim import World, MS, HarnessError, Abort, GhostShot

PID = "C16"
DIRECT = D.DEFAULT_ADDR
VIAS = (DIRECT, 0o1, 0o5, 0o15, 0o123)
SPLIT_VIAS = (DIRECT, 0o1)
CORNER_VIAS = (0o444, 0o1)  # 0o444: the only parent whose child slot 4 is the unassigned address 0o4444
IDS5 = (1, 2, 3, 4, 255)
UNLEASED = 0o33  # never handed out by any request of the alphabet
INTERLEAVED_RESERVED = 77  # `reserved` byte of the unrelated frame of a "reqx" event (never a requester id)
UNKNOWN_LOOKUP_ID = 199
# The master waits route_timeout (default 75 ms) for a NETWORK_ACK after every reply routed over more
# than one hop and repeats the reply when none arrives; no modelled node sends one, so the documented
# attribute is lowered to keep an execution short.  Both copies of the reply are judged.
ROUTE_TIMEOUT_MS = 2

STARTS = {
    "empty": [],
    "level1-full": [(11, 0o1), (12, 0o2), (13, 0o3), (14, 0o4), (15, 0o5)],
    "one-slot-free": [(11, 0o1), (12, 0o2), (14, 0o4), (15, 0o5)],
    "relay-children-full": [(21, 0o11), (22, 0o21), (23, 0o31), (24, 0o41)],
    # corner family (relays 0o444 and 0o1 only)
    "corner-empty": [],
    "corner-0o444-one-free": [(31, 0o1444), (32, 0o2444)],
}
MAIN_STARTS = ("empty", "level1-full", "one-slot-free", "relay-children-full")
CORNER_STARTS = ("corner-empty", "corner-0o444-one-free")


def _always(pkt):
    return True


def mk_master(table):
    w = World(horizon_ns=10 ** 15).activate()
    H.reset_frame_ids()
    m, r = H.mk_node(w, 0, cls=H.RF24Mesh, node_id=0)
    m.route_timeout = ROUTE_TIMEOUT_MS
    for nid, addr in table:
        m.set_address(nid, addr)
    w.phantom_ack = _always
    g = H.mk_ghost_tx(w)
    w.advance(1 * MS)
    w.log_air = True
    return [w, m, r, g, 0, {}]  # (.., step counter, {format: bytes of the file saved last})


def via_name(via):
    return "direct" if via == DIRECT else "relay-L%d" % R.level(via)


def alphabet(table, ids, vias=VIAS, mode="main", files=()):
    if mode == "split":
        # save_dhcp() and load_dhcp() as separate events: the file written earlier is loaded into the *running* master
        # after its table has changed (requests / releases in between)
        ev = [("req", i, v) for i in ids for v in vias]
        ev += [("rel", a) for a in sorted({a for _, a in table})]
        ev += [("sv", fmt) for fmt in ("json", "bin")]
        ev += [("ld", fmt) for fmt in ("json", "bin") if fmt in files]
        return ev
    ev = [("req", i, v) for i in ids for v in vias]
    # the same request with an unrelated frame arriving during the master's NETWORK_ACK wait
    # (only replies routed over more than one hop are waited for: relays of level >= 2)
    ev += [("reqx", i, v) for i in ids[:2] for v in vias if v != DIRECT and R.level(v) >= 2]
    leased = sorted({a for _, a in table})
    for a in leased + [UNLEASED]:
        ev.append(("rel", a))
        ev.append(("relapi", a))
    # a real node's release_address() does not set the reserved byte: its frame carries whatever the node's frame
    # buffer last held - e.g. the id of another, still leased node whose request it relayed
    for a in leased:
        others = sorted(k for k, x in table if x != a)
        if others:
            ev.append(("relr", a, others[0]))
    for fmt in ("json", "bin"):
        for target in ("same", "fresh"):
            ev.append(("save", fmt, target))
    return ev


_FRESH = []


def fresh_master():
    if not _FRESH:
        _FRESH.append(mk_master([]))
    st = copy.deepcopy(_FRESH[0])
    return st


def table_of(m):
    return list(m.dhcp_dict.items())


def apply_event(st, ev, tmpdir, judge=True, history=None):
    """apply one event to the state (in place); -> (violations [(sig, what)], outcome key)"""
    w, m, r, g, step = st[:5]
    w.activate()
    st[4] = step = step + 1
    viol = []
    before = table_of(m)
    del w.airlog[:]
    kind = ev[0]

    def v(clause, what):
        viol.append(("%s/%s" % (PID, clause), what))

    if kind in ("req", "reqx"):
        _, nid, via = ev
        addr, noack = D.request_phys(via)
        frame = NW.pack_frame(via, 0, step & 0xFFFF, D.ADDR_REQUEST, nid, b"")
        if not H.inject(w, g, addr, frame, noack=noack):
            raise HarnessError("request frame did not reach the master's radio")
        if kind == "reqx":
            # another, unrelated frame (a lookup carrying a different `reserved` byte) reaches the master
            # while it waits for the NETWORK_ACK of its routed reply
            other = NW.pack_frame(0o2, 0, (step + 1) & 0xFFFF, 196, INTERLEAVED_RESERVED, bytes([UNKNOWN_LOOKUP_ID]))
            w.at(w.now + 1300 * 1000, GhostShot(g, R.pipe_address(0, 2), other), "fire")
        # the master's update() for one request needs a few ms of virtual time (route_timeout is 2 ms here); a call that
        # is still running after 2 s of virtual time does not terminate (cheaper to notice than the CPU guard)
        w.horizon = w.now + 2000 * MS
        try:
            with cpu_guard(20):
                ret = m.update()
                if kind == "reqx":
                    w.advance(2 * MS)
                    m.update()
            w.horizon = 10 ** 15
        except HarnessError:
            raise
        except Abort:
            w.horizon = 10 ** 15
            v("not-terminating:request:%s" % via_name(via), "update() still running after 2 s of virtual time on a request of id %d via 0o%o" % (nid, via))
            return viol, "req:hang"
        except CpuHang:
            v("not-terminating:request:%s" % via_name(via), "update() used 20 s of CPU time without returning on a request of id %d via 0o%o" % (nid, via))
            return viol, "req:hang"
        except Exception as e:  # noqa
            v("raises-%s:request:%s" % (type(e).__name__, via_name(via)), "update() raised %r on a request of id %d via 0o%o" % (e, nid, via))
            return viol, "req:raised"
        w.advance(2 * MS)
        if not judge:
            return viol, None
        after = table_of(m)
        resp = []
        for p in w.airlog:
            if p.src is r and not p.is_ack:
                f = NW.unpack_frame(p.payload)
                if f is None:
                    v("garbage-on-air:request", "master transmitted %d bytes" % len(p.payload))
                    continue
                (frm, to, fid, typ, res), msg = f
                if typ == D.ADDR_RESPONSE:
                    rr = dict(from_node=frm, to_node=to, reserved=res, payload_len=len(msg), phys=p.addr,
                              address=(msg[0] | (msg[1] << 8)) if len(msg) >= 2 else None)
                    if not resp or resp[-1] != rr:
                        resp.append(rr)
        vn = via_name(via)
        had = [a for k, a in before if k == nid]
        cls = "re-request" if had else "new-id"
        if ret != D.ADDR_REQUEST:
            v("request-not-seen:%s" % vn, "update() returned %r for an address request" % (ret,))
        if len(resp) > 1:
            v("several-responses:%s" % vn, "%d different responses to one request" % len(resp))
        for rr in resp:
            for clause, text in D.response_problems(before, nid, via, rr):
                v("response:%s:%s:%s" % (clause, vn, cls), "request of id %d via 0o%o (table %s): %s" % (nid, via, fmt_table(before), text))
            if rr["phys"] != D.response_phys(via):
                v("response:wrong-physical-address:%s" % vn, "reply for a request via 0o%o transmitted to %s, expected %s"
                  % (via, rr["phys"].hex(), D.response_phys(via).hex()))
            if rr["address"] is not None and dict(after).get(nid) != rr["address"]:
                v("lease-not-recorded:%s:%s" % (vn, cls), "id %d was told 0o%o but the table says %s" % (nid, rr["address"], fmt_table(after)))
        free = D.free_slots(before, nid, via)
        if not resp:
            if free:
                released = [a for a in free if history is not None and any(e[0] in ("rel", "relapi", "relr") and e[1] == a for e in history)]
                v("%s:%s" % ("released-address-not-reusable" if released else "no-response-though-slot-free", vn),
                  "request of id %d via 0o%o got no reply although %s %s free (table %s)"
                  % (nid, via, ",".join(oct(a) for a in free), "is" if len(free) == 1 else "are", fmt_table(before)))
            if after != before:
                v("table-changed-without-response:%s" % vn, "table %s -> %s without any reply" % (fmt_table(before), fmt_table(after)))
            out = "req:%s:%s:no-reply-parent-full" % (vn, cls)
        else:
            a = resp[0]["address"]
            exp_after = [(k, x) for k, x in before if k != nid]
            if sorted(after) != sorted(exp_after + [(nid, a)]):
                v("other-lease-touched:%s:%s" % (vn, cls), "request of id %d: table %s -> %s" % (nid, fmt_table(before), fmt_table(after)))
            slots = D.child_slots(via, 5)
            skipped = any(x in {y for k, y in before if k != nid} for x in slots)
            only = len(D.free_slots(before, nid, via, 5)) == 1
            if only and history is not None and any(e[0] in ("rel", "relapi", "relr") and e[1] == a for e in history):
                out = "req:%s:%s:released-address-reissued-as-only-free-slot" % (vn, cls)
            elif had:
                out = "req:%s:re-request:%s" % (vn, "same-address" if had[0] == a else ("moved-within-parent" if R.parent(had[0]) == R.parent(a) else "moved-to-other-parent"))
            else:
                out = "req:%s:new-id:%s" % (vn, "granted-after-collision-skip" if skipped else "granted")
    elif kind in ("rel", "relapi", "relr"):
        a = ev[1]
        was = [k for k, x in before if x == a]
        if kind in ("rel", "relr"):
            hop = R.next_hop(0, a)
            frame = NW.pack_frame(a, 0, step & 0xFFFF, D.ADDR_RELEASE, ev[2] if kind == "relr" else 0, b"")
            if not H.inject(w, g, R.pipe_address(0, R.own_digit(hop)), frame):
                raise HarnessError("release frame did not reach the master's radio")
            try:
                m.update()
            except (HarnessError, Abort):
                raise
            except Exception as e:  # noqa
                v("raises-%s:release" % type(e).__name__, "update() raised %r on a release from 0o%o" % (e, a))
                return viol, "rel:raised"
            w.advance(1 * MS)
        else:
            try:
                ret = m.release_address(a)
            except (HarnessError, Abort):
                raise
            except Exception as e:  # noqa
                v("raises-%s:release-api" % type(e).__name__, "release_address(0o%o) raised %r" % (a, e))
                return viol, "rel:raised"
            if judge and bool(ret) != bool(was):
                v("release-api-result:%s" % ("leased" if was else "not-leased"), "release_address(0o%o) returned %r, table %s" % (a, ret, fmt_table(before)))
        if not judge:
            return viol, None
        after = table_of(m)
        if sorted(after) != sorted((k, x) for k, x in before if x != a):
            shape = "still-leased" if any(x == a for _, x in after) else "other-lease-touched"
            v("release:%s:%s" % (shape, {"rel": "frame", "relr": "frame-with-stale-reserved", "relapi": "api"}[kind]), "release of 0o%o%s: table %s -> %s" % (
                a, " (reserved byte %d)" % ev[2] if kind == "relr" else "", fmt_table(before), fmt_table(after)))
        if any(p.src is r and not p.is_ack for p in w.airlog):
            v("release:transmits", "master transmitted in reaction to a release")
        out = "%s:%s" % (kind, "freed" if was else "not-leased-noop")
    elif kind in ("sv", "ld"):
        fmt = ev[1]
        path = os.path.join(tmpdir, "dhcp-split.%s" % fmt)
        try:
            if kind == "sv":
                m.save_dhcp(path, as_bin=(fmt == "bin"))
                with open(path, "rb") as fh:
                    st[5][fmt] = fh.read()
                saved = None
            else:
                with open(path, "wb") as fh:
                    fh.write(st[5][fmt])
                saved = D.parse_file(st[5][fmt], fmt)
                m.load_dhcp(path, as_bin=(fmt == "bin"))
        except (HarnessError, Abort):
            raise
        except Exception as e:  # noqa
            v("raises-%s:persistence:%s" % (type(e).__name__, fmt), "%s raised %r for table %s" % ("save_dhcp()" if kind == "sv" else "load_dhcp()", e, fmt_table(before)))
            return viol, kind + ":raised"
        if not judge:
            return viol, None
        after = table_of(m)
        if kind == "sv":
            if sorted(after) != sorted(before):
                v("persistence:%s:save-changes-table" % fmt, "save_dhcp(): table %s -> %s" % (fmt_table(before), fmt_table(after)))
            got = D.parse_file(st[5][fmt], fmt)
            if got is None or sorted(got) != sorted(before):
                v("persistence:%s:file-content" % fmt, "save_dhcp() of %s wrote a file that reads as %s" % (fmt_table(before), "garbage" if got is None else fmt_table(got)))
            out = "sv:%s:%s" % (fmt, "empty" if not before else "entries")
        else:
            if saved is None:
                raise HarnessError("saved file not parseable (should have been reported at the save event)")
            missing = [(k, a) for k, a in saved if dict(after).get(k) != a]
            if missing:
                v("persistence:%s:loaded-entry-missing" % fmt, "load_dhcp() of a file holding %s into %s gives %s" % (fmt_table(saved), fmt_table(before), fmt_table(after)))
            out = "ld:%s:%s" % (fmt, "into-same-table" if sorted(saved) == sorted(before) else
                                ("into-table-with-address-conflict" if any(a in dict(saved).values() and dict(saved).get(k) != a for k, a in before) else "into-changed-table"))
    else:
        _, fmt, target = ev
        path = os.path.join(tmpdir, "dhcp.%s" % fmt)
        try:
            m.save_dhcp(path, as_bin=(fmt == "bin"))
            if target == "fresh":
                nst = fresh_master()
                st[0], st[1], st[2], st[3] = nst[0], nst[1], nst[2], nst[3]
                w, m, r, g = st[0], st[1], st[2], st[3]
                w.activate()
            m.load_dhcp(path, as_bin=(fmt == "bin"))
        except (HarnessError, Abort):
            raise
        except Exception as e:  # noqa
            v("raises-%s:persistence:%s" % (type(e).__name__, fmt), "save/load raised %r for table %s" % (e, fmt_table(before)))
            return viol, "save:raised"
        if not judge:
            return viol, None
        after = table_of(m)
        if dict(after) != dict(before) or len(after) != len(before):
            v("persistence:%s:%s:%s" % (fmt, target, diff_shape(before, after)), "save+load (%s, %s master): %s -> %s" % (fmt, target, fmt_table(before), fmt_table(after)))
        out = "save:%s:%s:%s" % (fmt, target, "empty" if not before else "entries")
    if judge:
        for clause, text in D.table_problems(table_of(m)):
            v("table:%s:after-%s" % (clause, kind), "after %r: %s (table %s)" % (ev, text, fmt_table(table_of(m))))
    return viol, out


def diff_shape(before, after):
    b, a = dict(before), dict(after)
    if set(b) - set(a):
        return "entry-lost"
    if set(a) - set(b):
        return "entry-invented"
    if len(after) != len(before):
        return "length"
    return "address-changed"


def fmt_table(t):
    return "{" + ", ".join("%d:0o%o" % (k, a) for k, a in t) + "}"


def run_history(start, hist, tmpdir, judge_last=True):
    """re-execute a history from its start table on a fresh master; the last event is judged"""
    st = mk_master(STARTS[start])
    viol, out = [], None
    for i, ev in enumerate(hist):
        ev = tuple(ev)
        last = i == len(hist) - 1
        viol, out = apply_event(st, ev, tmpdir, judge=last and judge_last, history=[tuple(e) for e in hist[:i]])
        if viol and not last:
            break
    return st, viol, out


def hidden(m):
    """every scalar (bool / int / None) attribute of the master besides the table: state that may
    influence later events (e.g. a pending-request flag) must not be merged away by the dedup.
    Generic on purpose (no attribute names); configuration constants simply never differ."""
    return tuple(sorted((k, v) for k, v in vars(m).items() if isinstance(v, (bool, int)) or v is None))


def state_key(st):
    m = st[1]
    return (tuple(sorted(table_of(m))), hidden(m), tuple(sorted(st[5].items())))


def w_expand(item, rep):
    start, hists, ids, collect, tag, vias, mode = item
    tmpdir = tempfile.mkdtemp(prefix="vf_c16_", dir="/tmp")
    succ = []
    try:
        base = mk_master(STARTS[start])
        for hist in hists:
            st = copy.deepcopy(base)
            for i, ev in enumerate(hist):
                apply_event(st, ev, tmpdir, judge=False)
            table = table_of(st[1])
            for ev in alphabet(table, ids, vias, mode, st[5]):
                st2 = copy.deepcopy(st)
                viol, out = apply_event(st2, ev, tmpdir, judge=True, history=hist)
                rep.case()
                rep.transitions += 1
                rep.traces += 1
                rep.outcome(out)
                for sig, what in viol:
                    rep.violation(sig, what, {"part": "bfs", "start": start, "history": list(hist) + [ev]})
                if out == "req:hang":
                    # a call that does not terminate has been reported; every further one costs seconds: stop here
                    rep.cap("exploration cut short after a non-terminating update() (%s)" % start)
                    rep.notes["S|%s|%s" % (start, tag)] = succ
                    return
                key = state_key(st2)
                if collect == "full":
                    succ.append((key, tuple(hist) + (ev,)))
                else:
                    succ.append(hash(key))
    finally:
        shutil.rmtree(tmpdir, ignore_errors=True)
    rep.notes["S|%s|%s" % (start, tag)] = succ
    rep.part("bfs:" + start, transitions=len(succ))


def bfs_parallel(start, ids, depth, rep, max_states, vias=VIAS, mode="main"):
    """level-synchronous E-BFS with global dedup on the lease table (sorted id->address map).
    A frontier state is identified by the shortest, lexicographically first history reaching it
    and is rebuilt by re-executing that history on a fresh master."""
    seen = {state_key(mk_master(STARTS[start]))}
    frontier = [()]
    rep.states += 1
    done = 0
    for d in range(1, depth + 1):
        last = d == depth
        step = max(1, min(40, len(frontier) // 28 + 1))
        items = [(start, frontier[i:i + step], ids, "hash" if last else "full", "%d.%d" % (d, i), vias, mode) for i in range(0, len(frontier), step)]
        pmap(w_expand, items, rep)
        if any("not-terminating" in s_ for s_ in rep.violations):
            for k in [k for k in rep.notes if k.startswith("S|%s|" % start)]:
                rep.notes.pop(k)
            return d, len(seen)
        keys = [k for k in rep.notes if k.startswith("S|%s|" % start)]
        if last:
            hs = set()
            for k in keys:
                hs.update(rep.notes.pop(k))
            hs -= {hash(s) for s in seen}
            rep.states += len(hs)
            done = d
            break
        succ = []
        for k in keys:
            succ += rep.notes.pop(k)
        succ.sort(key=lambda x: (repr(x[1]), ))
        nxt = []
        for key, hist in succ:
            if key not in seen:
                seen.add(key)
                nxt.append(hist)
                rep.states += 1
        frontier = nxt
        done = d
        if max_states and len(seen) > max_states and d < depth:
            rep.cap("%s: state cap %d exceeded after depth %d (%d states); deeper levels not explored" % (start, max_states, d, len(seen)))
            break
        if not frontier:
            break
    return done, len(seen)


# ---------------------------------------------------------------- persistence for every table size
def w_persist(item, rep):
    sizes, seed = item
    tmpdir = tempfile.mkdtemp(prefix="vf_c16_", dir="/tmp")
    try:
        for k in sizes:
            for variant in (0, 1, 2):
                table = D.structured_table(k, variant, seed)
                st = mk_master(table) if k <= 8 else None
                if st is None:
                    st = fresh_master()
                    st[1].dhcp_dict = dict(table)  # public attribute (documented); 255 set_address() calls are quadratic
                for fmt in ("json", "bin"):
                    for target in ("same", "fresh"):
                        st2 = copy.deepcopy(st)
                        viol, out = apply_event(st2, ("save", fmt, target), tmpdir)
                        rep.case()
                        rep.transitions += 1
                        rep.traces += 1
                        rep.states += 1
                        rep.outcome("persist:%s:%s:%s" % (fmt, target, "size0" if k == 0 else ("size255" if k == 255 else "size1-254")))
                        for sig, what in viol:
                            rep.violation(sig, what[:300], {"part": "persist", "size": k, "variant": variant, "fmt": fmt, "target": target, "seed": seed})
                rep.nt("persist:%d:%d" % (k, variant))
            rep.part("persistence", tables=3)
    finally:
        shutil.rmtree(tmpdir, ignore_errors=True)


def w_resave(item, rep):
    """the same master saves to the same file again after its table changed (and a third time
    after it shrank): the file must always hold the table as it is at the LAST save"""
    seed, = item
    tmpdir = tempfile.mkdtemp(prefix="vf_c16_", dir="/tmp")
    try:
        for fmt in ("json", "bin"):
            for k0 in (0, 1, 4):
                st = mk_master(D.structured_table(k0, 0, seed))
                w, m, r, g = st[0], st[1], st[2], st[3]
                w.activate()
                path = os.path.join(tmpdir, "resave-%s-%d.%s" % (fmt, k0, fmt))
                steps = [("nothing", None), ("grow", (200, 0o2345)), ("grow", (201, 0o345)), ("change", (200, 0o1345)), ("shrink", 0o345), ("shrink", 0o1345),
                         ("nothing", None)]
                for i, (what, arg) in enumerate(steps):
                    if what == "grow" or what == "change":
                        m.set_address(arg[0], arg[1])
                    elif what == "shrink":
                        m.release_address(arg)
                    want = sorted(table_of(m))
                    try:
                        m.save_dhcp(path, as_bin=(fmt == "bin"))
                        fr = fresh_master()
                        fr[0].activate()
                        fr[1].load_dhcp(path, as_bin=(fmt == "bin"))
                        got = sorted(table_of(fr[1]))
                        w.activate()
                    except (HarnessError, Abort):
                        raise
                    except Exception as e:  # noqa
                        rep.violation("%s/raises-%s:persistence:%s" % (PID, type(e).__name__, fmt), "save #%d / load raised %r" % (i + 1, e),
                                      {"part": "resave", "seed": seed})
                        break
                    rep.case()
                    rep.transitions += 1
                    rep.traces += 1
                    rep.outcome("resave:%s:%s" % (fmt, what))
                    rep.nt("resave:%s:%d:%d" % (fmt, k0, i))
                    if got != want:
                        rep.violation("%s/persistence:%s:resave-after-%s" % (PID, fmt, what),
                                      "save #%d to the same file after '%s': a fresh master loads %s, the table was %s" % (i + 1, what, fmt_table(got), fmt_table(want)),
                                      {"part": "resave", "seed": seed})
                        break
    finally:
        shutil.rmtree(tmpdir, ignore_errors=True)


def run(tier, seed, rep, only=None):
    pmap(w_resave, [(seed,)], rep)
    depth = 5 if tier == "quick" else 7
    ids = (1, 2, 3)
    cap = None if tier == "quick" else 400000
    done = {}
    plan = [(s_, ids, depth, VIAS) for s_ in MAIN_STARTS] + [(s_, ids, depth, CORNER_VIAS) for s_ in CORNER_STARTS]
    if tier != "quick":
        plan += [(s_, IDS5, 5, VIAS) for s_ in ("empty", "one-slot-free")]
    for start, ids_, depth_, vias in plan:
        if only and "bfs" not in only and start not in only:
            continue
        d, n = bfs_parallel(start, ids_, depth_, rep, cap, vias)
        done["%s/ids=%s" % (start, ",".join(map(str, ids_)))] = dict(depth_completed=d, depth_bound=depth_, states_before_last_level=n, vias=[oct(x) for x in vias])
    # save and load as separate events (the file is loaded into the running master after its table changed)
    for start, depth_ in (("empty", 7 if tier == "quick" else 9), ("one-slot-free", 6 if tier == "quick" else 8), ("level1-full", 6 if tier == "quick" else 8)):
        if only and "split" not in only:
            continue
        d, n = bfs_parallel(start, (1, 2), depth_, rep, cap, SPLIT_VIAS, "split")
        done["split:%s/ids=1,2" % start] = dict(depth_completed=d, depth_bound=depth_, states_before_last_level=n, vias=[oct(x) for x in SPLIT_VIAS],
                                                events="req, rel (frame), save_dhcp(json|bin), load_dhcp(json|bin) of the file saved last")
    if not only or "persist" in only:
        pmap(w_persist, [(list(range(lo, min(lo + 8, 256))), seed) for lo in range(0, 256, 8)], rep)
    for k, vv in sorted(rep.outcomes.items()):
        rep.nt("outcome:" + k)
    rep.sample({"start": "one-slot-free", "history": [("rel", 0o1), ("req", 1, DIRECT)], "meaning": "release of 0o1 by frame, then a direct request of id 1"})
    need = ["req:direct:new-id:granted-after-collision-skip", "req:direct:new-id:no-reply-parent-full", "req:relay-L1:new-id:no-reply-parent-full"]
    miss = [k for k in need if k not in rep.outcomes] + ([] if any(":re-request:" in k for k in rep.outcomes) else ["re-request"]) \
        + ([] if any("released-address-reissued" in k for k in rep.outcomes) else ["released-address-reissued"])
    if miss and not only and not rep.violations:
        raise HarnessError("vacuous exploration: outcome classes never reached: %r" % miss)
    return dict(
        level="model_checking",
        exhaustive=True,
        rule="E-BFS, level-synchronous with global dedup on (lease table as a sorted id->address map, every scalar attribute of the master), over every event sequence up to the "
             "depth bound from 4 starting tables {empty, level 1 full, one slot free, relay 0o1's children full} on a real RF24Mesh master "
             "(node id 0); a corner family with relays {0o444, 0o1} from 2 tables (0o444 is the only parent whose slot 4 is 0o4444)"
             + ("; thorough: additionally ids {1,2,3,4,255} to depth 5 from 2 tables" if tier != "quick" else "") +
             ". Events: address request of id i through {direct, relay 0o1, 0o5, 0o15, 0o123} (a MESH_ADDR_REQUEST radio packet from a ghost PTX into the master's pipe 0 / child "
             "pipe, then update()), release of every leased address and of one unleased address by MESH_ADDR_RELEASE packet and by "
             "release_address(addr), save_dhcp+load_dhcp in JSON and binary into the same and into a freshly constructed master "
             "(which then continues the history). Every reply is read from the simulated air. A frontier state is rebuilt by "
             "re-executing its history. Plus save/load of 3 structured tables of every size 0..255 x 2 formats x same/fresh master. "
             "states = distinct lease tables; transitions = executed events; non-trivial = distinct outcome classes + persistence tables.",
        bounds=dict(depth=depth, ids=list(ids), vias=[oct(v) for v in VIAS], corner_vias=[oct(v) for v in CORNER_VIAS], per_search=done, persistence_sizes="0..255 x 3 contents"),
        trusted_base=["vf/sim.py", "vf/ref/dhcp.py (lease constraints)", "vf/ref/route.py (tree, pipe addresses)", "vf/ref/netwire.py (frame codec)"],
        assumptions=["every reply of the master is acknowledged by its next hop (world.phantom_ack)",
                     "dedup on the lease table: the first history (shortest, then lexicographically first) that reaches a table represents it; "
                     "the master keeps no other lease-relevant state between update() calls",
                     "relays are the fixed nodes 0o1, 0o5, 0o15, 0o123 and 0o444 (levels 1-3); a reply is only *required* when one of the arrival node's "
                     "child slots 1..4 (MESH_MAX_CHILDREN) is free"],
        min_outcomes=18,
    )


def replay(data):
    r = data["replay"]
    tmpdir = tempfile.mkdtemp(prefix="vf_c16_", dir="/tmp")
    try:
        if r["part"] == "resave":
            from ..engine import Report
            rp = Report()
            w_resave((r["seed"],), rp)
            viol = [(s_, v_["what"]) for s_, v_ in rp.violations.items()]
        elif r["part"] == "bfs":
            st, viol, out = run_history(r["start"], r["history"], tmpdir)
            print("history:", r["history"], "outcome:", out, "table:", fmt_table(table_of(st[1])))
        else:
            table = D.structured_table(r["size"], r["variant"], r["seed"])
            st = fresh_master()
            st[1].dhcp_dict = dict(table)
            viol, out = apply_event(st, ("save", r["fmt"], r["target"]), tmpdir)
    finally:
        shutil.rmtree(tmpdir, ignore_errors=True)
    want = data.get("signature")
    return [(s, w) for s, w in viol if s == want] or viol
