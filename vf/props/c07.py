"""C07 - after any network operation the node listens again on all its addresses.
E-BFS in the mono world: one real node (network node at levels 0-2, mesh node unconnected /
connected, mesh master) with ghost peers; alphabet = public API calls x environment answers
(next hop acknowledges or not, NETWORK_ACK / lookup reply injected or not) and update() with
every class of injected frame.  The same post-condition is evaluated at every public return of
the threaded C05 / C13 / C14 / C17 runs (success paths of multi-node exchanges)."""
import copy
import struct

from .. import harness as H
from .. import net as N
from ..engine import pmap, bfs
from ..sim import World, MS, US, GhostShot, Abort, HarnessError

PID = "C07"
O = lambda s: int(s, 8)  # noqa: E731


def _ack_all(pkt):
    return True


def hdr(frm, to, fid, typ, res=0):
    return struct.pack("<HHHBB", frm, to, fid, typ, res)


# ---------------------------------------------------------------- initial states
INITS = {
    "net-0": dict(cls="net", addr=0),
    "net-1": dict(cls="net", addr=O("1")),
    "net-12": dict(cls="net", addr=O("12")),
    "net-12-relay": dict(cls="net", addr=O("12"), relay=True),
    "net-3-nomulticast": dict(cls="net", addr=O("3"), allow_multicast=False),
    "routing-21": dict(cls="routing", addr=O("21")),
    "mesh-unconnected": dict(cls="mesh", node_id=5, addr=O("4444")),
    "mesh-connected-3": dict(cls="mesh", node_id=5, addr=O("3")),
    "mesh-connected-24": dict(cls="meshfull", node_id=6, addr=O("24")),
    "master": dict(cls="master", node_id=0, addr=0, table={3: O("3"), 7: O("13")}),
}


def build(spec):
    w = World(horizon_ns=600 * 1000 * MS).activate()
    H.reset_frame_ids()
    cls = {"net": H.RF24Network, "routing": H.RF24NetworkRoutingOnly, "mesh": H.RF24MeshNoMaster,
           "meshfull": H.RF24Mesh, "master": H.RF24Mesh}[spec["cls"]]
    node, radio = H.mk_node(w, spec["addr"] if spec["cls"] in ("net", "routing") else 0, cls=cls, node_id=spec.get("node_id"))
    if spec["cls"] in ("mesh", "meshfull") and spec["addr"] != O("4444"):
        node._begin(spec["addr"])  # what renew_address() does on success (joins themselves: C17)
    if spec.get("allow_multicast") is False:
        node.allow_multicast = False
        node.node_address = spec["addr"]
    if spec.get("relay"):
        node.multicast_relay = True
    if spec.get("table"):
        node.dhcp_dict = dict(spec["table"])
    ghost = H.mk_ghost_tx(w, "ghost")
    w.advance(300 * US)
    return [w, node, radio, ghost, 0]


# ---------------------------------------------------------------- alphabet
def relatives(addr):
    """(parent-side, child, remote descendant, absent sibling) destinations for a node address"""
    lvl = N.level_of(addr)
    child = addr | (2 << (3 * lvl)) if lvl < 4 else None
    desc = (child | (3 << (3 * (lvl + 1)))) if lvl < 3 else None
    parent = N.parent_of(addr) if lvl else None
    remote = O("5") if (addr & 7) != 5 else O("4")
    return parent, child, desc, remote


def alphabet_for(spec, tier):
    cls, addr = spec["cls"], spec["addr"]
    parent, child, desc, remote = relatives(addr if addr != O("4444") else O("4444"))
    ops = []
    # --- update() with an injected frame
    origin = remote
    frames = [("for-me", 1), ("for-me", 65), ("for-me-frag-first", 148), ("for-me-nack", 193), ("for-me-ping", 130),
              ("for-me-addr-response", 128), ("for-me-addr-request", 195), ("for-me-lookup", 196), ("for-me-idlookup", 198), ("for-me-release", 197),
              ("forward-child", 1), ("forward-child", 65), ("forward-desc", 65), ("forward-up", 1), ("forward-up", 65),
              ("multicast", 1), ("multicast", 65), ("poll", 194), ("invalid-to", 1), ("invalid-from", 1), ("short", 0), ("to-default", 128)]
    for name, t in frames:
        if name.startswith("forward-child") and child is None:
            continue
        if name == "forward-desc" and desc is None:
            continue
        if tier == "quick" and name in ("for-me-ping", "invalid-from"):
            continue
        envs = (True, False) if (name.startswith("forward") or name in ("poll", "for-me-addr-response", "for-me-addr-request", "for-me-lookup",
                                                                            "for-me-idlookup", "multicast", "to-default")) else (True,)
        for env in envs:
            ops.append(("inject", name, t, env))
    # two frames pending for one update(): a frame that is forwarded followed by one that is not (and vice versa)
    pairs = [("forward-up", "for-me"), ("forward-up", "multicast"), ("forward-up", "invalid-to"), ("for-me", "forward-up"), ("forward-up", "forward-up")]
    if child is not None:
        pairs += [("forward-child", "for-me"), ("forward-child", "short")]
    for n1, n2 in pairs:
        for t in (1, 65):
            for env in (True, False):
                ops.append(("inject2", n1, n2, t, env))
    # (Not in the alphabet: the radio put to sleep / taken out of RX mode by the application through the shared RF24 API
    # (`power = False`, `listen = False`).  The property quantifies over sequences of network / mesh API calls; after such a
    # radio-level call update() on the unchanged tree returns with the radio still asleep, by design of the sleepy-node
    # pattern.  The op kind "radio-attr" is kept in do_op for experiments only.)
    # --- transmitting API
    if cls in ("net",):
        dests = [("parent", parent), ("child", child), ("remote", remote), ("self", addr), ("desc", desc)]
        for dname, d in dests:
            if d is None:
                continue
            for mlen in (0, 24, 25, 60):
                for t in (1, 65):
                    if tier == "quick" and mlen in (24,) and t == 1:
                        continue
                    for env in ((True, False) if dname != "self" else (True,)):
                        nack_opts = (True, False) if (env and t == 65 and dname in ("remote", "desc") and mlen <= 24) else (False,)
                        for nack in nack_opts:
                            ops.append(("send", d, t, mlen, env, nack))
        ops.append(("write-direct", remote, 1, 5, True))
        ops.append(("write-direct", remote, 65, 5, False))
        for lvl in (None, 0, 2, 4):
            for mlen in (5, 30):
                ops.append(("multicast", lvl, mlen))
        ops.append(("send-invalid", O("7"), 1))
        ops.append(("send-too-long", remote, 200))
    if cls in ("net", "routing"):
        for a in (O("2"), O("13"), O("7"), addr, O("1234")):
            ops.append(("node_address", a))
    if spec.get("allow_multicast") is not False:
        # (assigning multicast_level on a node that has multicasting switched off is not a
        # documented combination: which address pipe 0 should then hold is unspecified)
        for lvl in (0, 2, 4, 9):
            ops.append(("multicast_level", lvl))
    if cls in ("mesh", "meshfull", "master"):
        ops.append(("renew_address", 0.08))
        if cls != "master":
            # the poll and the address request are answered (scripted ghost master), the confirming
            # lookups are not: the granted address cannot be verified and must be given up again
            ops.append(("renew_address_unconfirmed", 0.7))
        for env in (True, False):
            ops.append(("release_address", env))
            for reply in ((True, False) if env else (False,)):
                ops.append(("lookup_address", 7, env, reply))
                ops.append(("lookup_node_id", O("2"), env, reply))
            ops.append(("check_connection", False, env))
            ops.append(("check_connection", True, env))
            ops.append(("mesh-send", 7, 1, 5, env))
            ops.append(("mesh-write", remote, 65, 30, env))
            ops.append(("mesh-write", O("1") if addr != O("1") else O("2"), 1, 0, env))
        ops.append(("node_id", 9))
    if cls == "master":
        ops.append(("master-release", O("3")))
    # a diagnostic call of the shared API in between (print_details with the pipe dump; output discarded): changes nothing
    ops.append(("diag",))
    return ops


def do_op(state, op, seed=0):
    """apply one op to the (activated) state; returns (exception name or None, result repr)"""
    w, node, radio, ghost = state[:4]
    addr = node.node_address
    kind = op[0]
    my_pipe1 = H.net_pipe_address(addr, 1, multicast=False)
    lvl_addr = N.expected_pipes(addr, node.multicast_level, bool(node.allow_multicast), node.address_prefix[0], tuple(node.address_suffix))[0]
    parent, child, desc, remote = relatives(addr)
    w.phantom_ack = None
    res = None
    def payload(name, t, fid):
        msg = H.pattern(5, seed, salt=t)
        to_pipe0 = False
        if name in ("for-me", "for-me-nack", "for-me-ping"):
            pl = hdr(remote, addr, fid, t) + msg
        elif name == "for-me-frag-first":
            pl = hdr(remote, addr, fid, 148, 2) + H.pattern(24, seed, 1)
        elif name == "for-me-addr-response":
            pl = hdr(0, addr, fid, 128, 9) + struct.pack("<H", O("25"))
        elif name == "for-me-addr-request":
            pl = hdr(O("4444"), addr, fid, 195, 9)
        elif name == "for-me-lookup":
            pl = hdr(remote, addr, fid, 196) + bytes([3])
        elif name == "for-me-idlookup":
            pl = hdr(remote, addr, fid, 198) + struct.pack("<H", O("13"))
        elif name == "for-me-release":
            pl = hdr(O("13"), addr, fid, 197)
        elif name == "forward-child":
            pl = hdr(remote, child, fid, t) + msg
        elif name == "forward-desc":
            pl = hdr(remote, desc, fid, t) + msg
        elif name == "forward-up":
            pl = hdr(child if child is not None else O("4444"), remote, fid, t) + msg
        elif name == "multicast":
            pl, to_pipe0 = hdr(remote, O("100"), fid, t) + msg, True
        elif name == "poll":
            pl, to_pipe0 = hdr(O("4444"), O("100"), fid, 194), True
        elif name == "invalid-to":
            pl = hdr(remote, O("70"), fid, t) + msg
        elif name == "invalid-from":
            pl = hdr(O("6"), addr, fid, t) + msg
        elif name == "to-default":
            pl = hdr(0, O("4444"), fid, 128, 9) + struct.pack("<H", O("25"))
        elif name == "short":
            pl = b"\\x01\\x02\\x03"
        else:
            raise HarnessError(name)
        return pl, to_pipe0

    if kind == "inject":
        _, name, t, env = op
        w.phantom_ack = _ack_all if env else None
        pl, to_pipe0 = payload(name, t, 77)
        H.inject(w, ghost, lvl_addr if to_pipe0 else my_pipe1, pl, noack=to_pipe0)
        res = node.update()
    elif kind == "inject2":
        # two payloads are waiting in the RX FIFO when update() runs
        _, name1, name2, t, env = op
        w.phantom_ack = _ack_all if env else None
        for j, name in enumerate((name1, name2)):
            pl, to_pipe0 = payload(name, t, 77 + j)
            H.inject(w, ghost, lvl_addr if to_pipe0 else my_pipe1, pl, noack=to_pipe0)
        res = node.update()
    elif kind == "radio-attr":
        # the documented sleepy-node pattern / a user leaving RX mode through the radio API the node exposes
        setattr(node, op[1], op[2])
        res = None
    elif kind == "send":
        _, d, t, mlen, env, nack = op
        w.phantom_ack = _ack_all if env else None
        if nack:
            w.at(w.now + 6 * MS, GhostShot(ghost, my_pipe1, hdr(d, addr, 1, 193)), "fire")
        res = node.send(H.RF24NetworkHeader(d, t), H.pattern(mlen, seed, 2))
    elif kind == "write-direct":
        _, d, t, mlen, env = op
        w.phantom_ack = _ack_all if env else None
        res = node.write(H.RF24NetworkFrame(H.RF24NetworkHeader(d, t), H.pattern(mlen, seed, 3)), d)
    elif kind == "multicast":
        _, lvl, mlen = op
        res = node.multicast(H.pattern(mlen, seed, 4), 1) if lvl is None else node.multicast(H.pattern(mlen, seed, 4), 1, lvl)
    elif kind == "send-invalid":
        res = node.send(H.RF24NetworkHeader(op[1], op[2]), b"x")
    elif kind == "send-too-long":
        res = node.send(H.RF24NetworkHeader(op[1], 1), bytes(op[2]))
    elif kind == "node_address":
        node.node_address = op[1]
    elif kind == "multicast_level":
        node.multicast_level = op[1]
    elif kind == "renew_address":
        res = node.renew_address(op[1])
    elif kind == "renew_address_unconfirmed":
        w.phantom_ack = _ack_all
        lvl4 = N.expected_pipes(O("4444"), 4, True, node.address_prefix[0], tuple(node.address_suffix))[0]
        # what a master would send: the POLL reply and (after the request) the MESH_ADDR_RESPONSE
        w.at(w.now + 8 * MS, GhostShot(ghost, lvl4, hdr(0, O("4444"), 3, 194), noack=True), "fire")
        for t_ms in (75, 90):
            w.at(w.now + t_ms * MS, GhostShot(ghost, lvl4, hdr(0, O("4444"), 4, 128, node.node_id) + struct.pack("<H", O("5")), noack=True), "fire")
        res = node.renew_address(op[1])
    elif kind == "release_address":
        w.phantom_ack = _ack_all if op[1] else None
        res = node.release_address()
    elif kind in ("lookup_address", "lookup_node_id"):
        _, arg, env, reply = op
        w.phantom_ack = _ack_all if env else None
        if reply:
            t = 196 if kind == "lookup_address" else 198
            body = struct.pack("<H", O("15")) if t == 196 else bytes([7])
            w.at(w.now + 8 * MS, GhostShot(ghost, my_pipe1, hdr(0, addr, 2, t) + body), "fire")
        res = getattr(node, kind)(arg)
    elif kind == "check_connection":
        w.phantom_ack = _ack_all if op[2] else None
        res = node.check_connection(1, op[1])
    elif kind == "mesh-send":
        _, nid, t, mlen, env = op
        w.phantom_ack = _ack_all if env else None
        if env:
            w.at(w.now + 8 * MS, GhostShot(ghost, my_pipe1, hdr(0, addr, 2, 196) + struct.pack("<H", O("15"))), "fire")
        res = node.send(nid, t, H.pattern(mlen, seed, 5))
    elif kind == "mesh-write":
        _, d, t, mlen, env = op
        w.phantom_ack = _ack_all if env else None
        res = node.write(d, t, H.pattern(mlen, seed, 6))
    elif kind == "node_id":
        w.phantom_ack = _ack_all
        node.node_id = op[1]
    elif kind == "master-release":
        res = node.release_address(op[1])
    elif kind == "diag":
        import contextlib
        import io
        with contextlib.redirect_stdout(io.StringIO()):
            node.print_details(True)
    else:
        raise HarnessError("unknown op %r" % (op,))
    return res


def op_class(op):
    k = op[0]
    if k == "inject":
        return "update:%s" % op[1]
    if k == "send":
        return "send:%s" % ("frag" if op[3] > 24 else "single")
    return k


def is_core(op):
    """reduced alphabet used below the first level in the quick tier"""
    k = op[0]
    if k == "send":
        return (op[2], op[3]) in ((1, 0), (1, 25), (65, 0), (65, 60))
    if k == "multicast":
        return (op[1], op[2]) in ((None, 5), (4, 30))
    if k == "node_address":
        return op[1] in (O("2"), O("7"))
    if k == "multicast_level":
        return op[1] in (0, 9)
    if k == "inject":
        return op[1] not in ("for-me-lookup", "for-me-idlookup", "for-me-release", "to-default") or op[3]
    return True


def is_small(op):
    """third-level alphabet of the thorough tier"""
    k = op[0]
    if k == "inject":
        return op[3] and (op[1], op[2]) in (("for-me", 1), ("forward-child", 65), ("forward-up", 1), ("multicast", 1), ("poll", 194),
                                            ("for-me-addr-request", 195), ("for-me-nack", 193), ("short", 0))
    if k == "send":
        return (op[2], op[3]) in ((1, 0), (65, 0)) or ((op[2], op[3]) == (1, 25) and not op[4])
    if k == "multicast":
        return (op[1], op[2]) == (None, 5)
    if k == "node_address":
        return op[1] == O("2")
    if k == "multicast_level":
        return op[1] == 0
    if k in ("write-direct", "send-invalid", "send-too-long"):
        return False
    return True


def canon(state):
    w, node, radio, ghost = state[:4]
    return (radio.snapshot(), H.driver_state(node, drop=("_spi", "_ce_pin", "_in", "_out", "_rf24", "block_less_callback", "frame_buf")))


def check_state(state, op, hist, exc, rep, init_name, pid=PID):
    w, node, radio, ghost = state[:4]
    if op[0] in ("radio-attr", "diag"):
        return []  # not a network call: nothing is claimed right after it
    bad = N.listening_violations(node, radio)
    if bad:
        env = "ack" if (len(op) > 3 and op[-1] is True) or (len(op) > 4 and op[4] is True) else "noack"
        sig = "%s/%s:%s:%s%s" % (pid, bad[0], init_name.split("-")[0], op_class(op), ":after-" + exc if exc else "")
        rep.violation(sig, "after %r (%s) on %s: %s; CONFIG=%02x EN_AA=%02x EN_RXADDR=%02x CE=%s pipe0=%s" % (
            op, env, init_name, ",".join(bad), radio.r[0], radio.r[1], radio.r[2], radio.ce_pin.value, radio.pipe_addr(0).hex()),
            {"init": init_name, "ops": hist[1:] + [op]})
    return bad


def w_init(item, rep):
    init_name, tier, seed, depth, sub = item
    spec = INITS[init_name]
    ops = alphabet_for(spec, tier)
    first_ops = ops if sub is None else ops[sub[0]::sub[1]]
    core = [o for o in ops if is_core(o)]
    small = [o for o in core if is_small(o)]

    def alphabet(st):
        return ops if st[4] == 0 else (core if st[4] == 1 else small)

    def apply(st, op, hist):
        w = st[0]
        w.activate()
        st[4] += 1
        exc = None
        try:
            res = do_op(st, op, seed)
        except (HarnessError,):
            raise
        except Abort:
            exc = "Abort"
            res = None
        except Exception as e:  # noqa
            exc = type(e).__name__
            res = None
        rep.traces += 1
        bad = check_state(st, op, hist, exc, rep, init_name)
        rep.outcome("%s:%s:%s:%s" % (init_name.split("-")[0], op_class(op), "exc=" + exc if exc else ("ret=%s" % (res if isinstance(res, bool) or res is None else "val")),
                                     "ok" if not bad else bad[0]))
        rep.nt(repr((init_name, hist[1:], op)))
        rep.part(init_name, transitions=1)
        # keep the state small: drop logs
        st[2].truth.clear()
        del w.airlog[:]
        w.phantom_ack = None
        w.settle(20 * MS)
        if exc == "Abort":
            return False

    st0 = build(spec)
    if sub is None:
        bfs([(st0, init_name)], alphabet, apply, canon, depth, rep)
    else:
        # parallel split: this worker explores the subtrees below its share of the first ops
        inits = []
        for op in first_ops:
            st = copy.deepcopy(st0)
            rep.transitions += 1
            rep.evaluations += 1
            apply(st, op, [init_name])
            inits.append((st, (init_name, op)))
        seen = {}
        for st, label in inits:
            k = canon(st)
            if k in seen:
                continue
            seen[k] = 1

            def apply2(s2, op2, hist, _l=label):
                return apply(s2, op2, [_l[0], _l[1]] + hist[1:])
            bfs([(st, label)], alphabet, apply2, canon, depth - 1, rep)


def run(tier, seed, rep, only=None):
    depth = 2 if tier == "quick" else 3
    items = []
    nsplit = 14 if tier == "quick" else 40
    for name in INITS:
        if only and only not in name:
            continue
        for i in range(nsplit):
            items.append((name, tier if tier == "quick" else "thorough", seed, depth, (i, nsplit)))
    pmap(w_init, items, rep)
    sizes = {n: [len(alphabet_for(INITS[n], tier)), len([o for o in alphabet_for(INITS[n], tier) if is_core(o)]),
                 len([o for o in alphabet_for(INITS[n], tier) if is_core(o) and is_small(o)])] for n in INITS}
    rep.sample({"init": "net-12", "ops": [["send", O("5"), 65, 5, True, True], ["inject", "forward-child", 65, False]]})
    return dict(
        level="model_checking",
        exhaustive=True,
        rule="E-BFS: from %d initial node configurations, every sequence of <= %d operations from the node's alphabet (public calls x environment "
             "answer: next hop acknowledges / stays silent, NETWORK_ACK or lookup reply injected / missing; update() after each class of injected "
             "frame), on deep-copied simulated worlds with canonical state dedup; the post-condition is evaluated on the simulated hardware after "
             "every call. distinct non-trivial = distinct (initial state, operation sequence)." % (len(INITS), depth),
        bounds=dict(depth=depth, alphabet_sizes_level1_level2_level3=sizes, inits=list(INITS)),
        trusted_base=["vf/sim.py", "vf/net.py: listening_violations/expected_pipes (reference pipe addresses from docs/network_docs/topology.rst)"],
        assumptions=["connected mesh nodes are put on their address with the library's own _begin() (successful joins are explored by C17, which "
                     "evaluates the same post-condition)", "mesh calls are given short timeouts"],
        min_outcomes=10,
    )


def replay(data):
    r = data["replay"]
    st = build(INITS[r["init"]])
    out = []
    H.reset_frame_ids()
    for op in r["ops"]:
        op = tuple(op)
        st[0].activate()
        exc = None
        try:
            do_op(st, op)
        except Exception as e:  # noqa
            exc = type(e).__name__
        bad = N.listening_violations(st[1], st[2])
        print("after %r: exc=%s post-condition failures=%r" % (op, exc, bad))
        if bad:
            out.append(("%s/%s:%s:%s%s" % (data.get("property", PID), bad[0], r["init"].split("-")[0], op_class(op), ":after-" + exc if exc else ""), ",".join(bad)))
        st[0].phantom_ack = None
        st[0].settle(20 * MS)
    want = data.get("signature")
    return [(s, w) for s, w in out if s == want] or out
