"""C12 - the frame queue is a bounded, duplicate-free FIFO of private copies.

E-BFS (engine.bfs) over every interleaving of enqueue (fresh / exact duplicate / same key with
another message / the caller's mutated or re-used object), mutation of the object passed earlier,
dequeue, peek, len, max_queue_size changes and fragmentation toggles, against vf.ref.queue.

Two parts share one step function:
  queue - the real FrameQueue / FrameQueueFrag object is the state; a fragmentation toggle hands it
          to a real RF24Network node (public `queue` attribute) and flips `node.fragmentation`;
  node  - the state holds a real node (world + radio + RF24Network); everything goes through
          node.queue.enqueue / node.read / node.peek / node.available / node.fragmentation (lower depth).
"""
import copy
import hashlib

from .. import harness as H
from .. import sim
from ..engine import bfs, pmap
from ..qcopy import fastcopy
from ..ref.queue import RefQueue, Rec, rec_of, key, wire
from ..sim import HarnessError, Abort

PID = "C12"
MAXES = (0, 1, 2, 6)
N_FRESH = 4


# ---------------------------------------------------------------- the frames the caller uses
_SPECS = {}


def specs(seed):
    if seed not in _SPECS:
        _SPECS[seed] = _specs(seed)
    return _SPECS[seed]


def _specs(seed):
    """4 frames pairwise different in exactly one of (origin, frame id, type) w.r.t. frame 0, so a
    duplicate test that ignores one of the three fields wrongly rejects one of them"""
    base = [
        (0o1, 0o5, 0x8A10, 65, 0x11, 5),  # (ids use all 16 bits)
        (0o1, 0o5, 0x8A10, 66, 0x00, 0),  # type differs; empty message
        (0o1, 0o5, 0x0A10, 65, 0xFF, 24),  # id differs - in its top bit only
        (0o2, 0o5, 0x8A10, 65, 0x7E, 33),  # origin differs
    ]
    out = []
    for i, (frm, to, fid, typ, res, n) in enumerate(base):
        out.append(Rec(frm, to, (fid + 3 * seed) & 0xFFFF, typ, res, H.pattern(n, seed, 40 + i)))
    return out


def alt_of(spec, j, seed):
    """same (origin, id, type) as `spec`, everything else different"""
    return Rec(spec.from_node, 0o3, spec.frame_id, spec.message_type, spec.reserved ^ 0x5A,
               H.pattern(7 + j, seed, 60 + j))


def mutated(spec, i):
    """what the caller turns its object into after the enqueue (every field changes)"""
    return Rec(0o30 + i, 0o4, (spec.frame_id + 0x100) & 0xFFFF, spec.message_type + 8, 0xEE,
               bytes(b ^ 0xA5 for b in spec.message) + b"\x99")


def build(rec, mutable):
    hdr = H.RF24NetworkHeader(rec.to_node, rec.message_type)
    hdr.from_node = rec.from_node
    hdr.frame_id = rec.frame_id
    hdr.reserved = rec.reserved
    return H.RF24NetworkFrame(hdr, bytearray(rec.message) if mutable else bytes(rec.message))


def overwrite(frame, rec):
    """the caller changes the object it passed earlier: header fields are assigned, a bytearray
    message is changed IN PLACE (slice assignment), a bytes message is rebound"""
    h = frame.header
    h.from_node, h.to_node, h.frame_id, h.message_type, h.reserved = rec[:5]
    if isinstance(frame.message, bytearray):
        frame.message[:] = rec.message
    else:
        frame.message = bytes(rec.message)


# ---------------------------------------------------------------- state
class St:
    """queue part: q is the queue.  node part: pack = (world, node, radio) and q is node.queue"""
    __slots__ = ("q", "pack", "frag", "held", "model")

    def __init__(self, q, pack, frag):
        self.q = q
        self.pack = pack
        self.frag = frag
        self.held = [None] * N_FRESH  # the caller's frame objects
        self.model = RefQueue(6)

    def queue(self):
        return self.q if self.pack is None else self.pack[1].queue


_TEMPLATE = {}


def node_template():
    if "n" not in _TEMPLATE:
        w = sim.World().activate()
        node, radio = H.mk_node(w, 0o1)
        _TEMPLATE["n"] = (w, node, radio)
    return copy.deepcopy(_TEMPLATE["n"])


def mk_state(part, frag):
    H.reset_frame_ids()
    if part == "node":
        pack = node_template()
        pack[0].activate()
        if not frag:
            pack[1].fragmentation = False
        return St(None, pack, frag)
    q = H.m_structs.FrameQueueFrag() if frag else H.m_structs.FrameQueue()
    return St(q, None, frag)


def clone(st):
    memo = {}
    n = St.__new__(St)
    n.q = fastcopy(st.q, memo)
    n.held = fastcopy(st.held, memo)
    n.pack = copy.deepcopy(st.pack, memo)
    n.frag = st.frag
    n.model = RefQueue(st.model.max_queue_size)
    n.model.items = list(st.model.items)  # records are immutable
    return n


def held_key(fr):
    if fr is None:
        return None
    return (tuple(rec_of(fr)), type(fr.message).__name__)


def canon(st):
    q = st.queue()
    extra = ()
    if st.pack is not None:
        w, node, radio = st.pack
        extra = (H.driver_state(node), radio.snapshot())
    return (st.frag, H._canon_val(q), tuple(held_key(f) for f in st.held), st.model.state(), extra)


def alphabet_of(seed):
    def alphabet(st):
        ops = [("enq", i) for i in range(N_FRESH)]
        ops += [("enq_alt", j) for j in range(2)]
        ops += [("enq_str", 0)]
        for i in range(2):
            if st.held[i] is not None:
                ops += [("mutate", i), ("reuse", i)]
        ops += [("deq",), ("peek",), ("len",)]
        ops += [("setmax", v) for v in MAXES if v != st.model.max_queue_size]
        ops += [("toggle",)]
        return ops
    return alphabet


def op_str(op):
    return "%s(%s)" % (op[0], ",".join(str(x) for x in op[1:]))


def contents(q):
    """everything the queue would hand out, observed through the API on a private copy"""
    q2 = fastcopy(q, {})
    out = []
    for _ in range(64):
        f = q2.dequeue()
        if f is None:
            break
        out.append(rec_of(f))
    else:
        raise HarnessError("queue does not drain")
    return out


def diff_class(got, want):
    if got == want:
        return None
    if len(got) != len(want):
        return "count"
    if sorted(got) == sorted(want):
        return "order"
    hdr = any(g[:5] != w_[:5] for g, w_ in zip(got, want))
    msg = any(g.message != w_.message for g, w_ in zip(got, want))
    if sorted(key(g) for g in got) == sorted(key(w_) for w_ in want) and [key(g) for g in got] != [key(w_) for w_ in want]:
        return "order"
    return "header" if hdr and not msg else ("message" if msg and not hdr else "header+message")


# ---------------------------------------------------------------- one transition + oracle
def step(st, op, seed, pid=PID):
    """-> (violations, outcome)"""
    H.reset_frame_ids()  # class-level counter is process-global: keep it out of the state
    if st.pack is not None:
        st.pack[0].activate()
    sp = specs(seed)
    q = st.queue()
    node = st.pack[1] if st.pack is not None else None
    m = st.model
    kind = op[0]
    viol = []

    def v(clause, what):
        viol.append(("%s/%s" % (pid, clause), what))

    outcome = kind
    try:
        if kind in ("enq", "enq_alt", "enq_str", "reuse"):
            if kind == "enq":
                fr = build(sp[op[1]], mutable=(op[1] % 2 == 0))
                st.held[op[1]] = fr
            elif kind == "enq_alt":
                fr = build(alt_of(sp[op[1]], op[1], seed), mutable=False)
            elif kind == "enq_str":
                # the same frame, its type given as the one-character string with that code
                fr = build(sp[op[1]], mutable=False)
                fr.header.message_type = chr(sp[op[1]].message_type)
            else:
                fr = st.held[op[1]]
            raw = rec_of(fr)
            rec = wire(raw)  # the value the caller passes in
            pre_len, mx = len(m), m.max_queue_size
            why = m.why_reject(rec)
            got = q.enqueue(fr)
            after = len(q)
            if got is True and after > mx:
                shape = "len>max" if pre_len > mx else ("len=max" if pre_len == mx else "len<max")
                v("bound:enqueue-accepted:" + shape,
                  "enqueue() returned True with %d frame(s) queued and max_queue_size=%d; the queue now holds %d" % (pre_len, mx, after))
                m.items.append(rec)  # (successors are pruned anyway)
            else:
                want = m.enqueue(rec)
                if got is not want:
                    v("enqueue-return:%s:%s" % (kind, why or "storable"),
                      "enqueue() returned %r, expected %r (%s)" % (got, want, why or "new frame, room left"))
            if rec_of(fr) != raw:
                v("enqueue-changed-argument:" + kind, "enqueue() changed the caller's frame %r -> %r" % (tuple(raw), tuple(rec_of(fr))))
            outcome = "%s:%s" % ("enq" if kind != "reuse" else "reuse", "accepted" if got else "refused:" + str(why))
        elif kind == "mutate":
            fr = st.held[op[1]]
            cur = rec_of(fr)
            pristine = sp[op[1]]
            overwrite(fr, mutated(pristine, op[1]) if cur == pristine else pristine)
            outcome = "mutate:" + ("queued" if any(key(x) == key(cur) for x in m.items) else "not-queued")
        elif kind in ("deq", "peek"):
            if node is not None:
                got = node.read() if kind == "deq" else node.peek()
            else:
                got = q.dequeue() if kind == "deq" else q.peek()
            want = m.dequeue() if kind == "deq" else m.peek()
            g = None if got is None else rec_of(got)
            if g != want:
                if g is None or want is None:
                    d = "none-vs-frame"
                elif any(x == g for x in m.items):
                    d = "order"
                else:
                    d = diff_class([g], [want])
                v("fifo:%s:%s" % (kind, d), "%s returned %r, expected %r" % (kind, g and tuple(g), want and tuple(want)))
            outcome = "%s:%s" % (kind, "none" if want is None else "frame")
        elif kind == "len":
            got = len(q)
            if node is not None and node.available() is not bool(len(m)):
                v("len:available", "node.available() is %r with %d frame(s) queued" % (node.available(), len(m)))
            if got != len(m):
                v("len:value", "len() is %r, expected %d" % (got, len(m)))
            outcome = "len:%d" % len(m)
        elif kind == "setmax":
            q.max_queue_size = op[1]
            m.max_queue_size = op[1]
            outcome = "setmax:" + ("below-len" if op[1] < len(m) else ("at-len" if op[1] == len(m) else "above-len"))
        elif kind == "toggle":
            new = not st.frag
            if node is None:
                w, node, radio = node_template()
                w.activate()
                if node.fragmentation is not st.frag:
                    node.fragmentation = st.frag  # (its own, empty queue is replaced)
                node.queue = q  # public attribute: this node now owns the queue under test
                node.fragmentation = new
                st.q = node.queue
            else:
                node.fragmentation = new
            st.frag = new
            q = st.queue()
            if node.fragmentation is not new:
                v("toggle:getter", "fragmentation reads %r after being set to %r" % (node.fragmentation, new))
            if q.max_queue_size != m.max_queue_size:
                v("toggle:max_queue_size", "max_queue_size %r after the toggle, was %r" % (q.max_queue_size, m.max_queue_size))
            outcome = "toggle:%s:%s" % ("on" if new else "off", "empty" if not len(m) else "frames")
        else:
            raise HarnessError("unknown op %r" % (op,))
    except (HarnessError, Abort):
        raise
    except Exception as e:  # noqa
        v("exception:%s:%s" % (kind, type(e).__name__), "%s raised %r" % (op_str(op), e))
        return viol, outcome + ":EXC"

    # ---- invariants on the complete observable contents after every operation
    if not viol:
        got = contents(q)
        want = list(m.items)
        d = diff_class(got, want)
        if d is not None:
            clause = {"mutate": "private-copy", "toggle": "toggle", "deq": "fifo", "peek": "fifo", "setmax": "setmax",
                      "len": "len"}.get(kind, "enqueue-stored")
            if d == "order":
                clause = "fifo-order"
            v("%s:%s:%s" % (clause, kind, d), "queue holds %r, expected %r" % ([tuple(x) for x in got], [tuple(x) for x in want]))
        keys = [key(x) for x in got]
        if len(set(keys)) != len(keys):
            v("duplicate-held:" + kind, "two queued frames share (origin, id, type): %r" % (keys,))
        if len(q) != len(got):
            v("len:vs-contents", "len() is %d but %d frame(s) can be dequeued" % (len(q), len(got)))
        if q.max_queue_size != m.max_queue_size:
            v("max_queue_size:" + kind, "max_queue_size reads %r, the user set %r" % (q.max_queue_size, m.max_queue_size))
    return viol, outcome


# ---------------------------------------------------------------- work items
def w_bfs(item, rep):
    part, frag, seed, depth, pid = item
    name = "%s-%s" % (part, "frag" if frag else "nofrag")

    def apply(st, op, hist):
        viol, outcome = step(st, op, seed, pid)
        rep.traces += 1
        rep.outcome(outcome)
        if outcome.split(":")[0] in ("enq", "reuse", "deq", "toggle") or outcome.startswith("mutate:queued"):
            rep.nt(hashlib.md5(repr((outcome, st.model.state(), st.frag)).encode()).hexdigest()[:16])
        ops = hist[1:] + [op]
        for sig, what in viol:
            rep.violation(sig, "%s [%s, %s]" % (what, hist[0], ", ".join(op_str(o) for o in ops)),
                          {"part": part, "frag": frag, "seed": seed, "ops": ops})
        if len(rep.samples) < 2 and len(ops) >= 4 and outcome.startswith("deq:frame"):
            rep.sample({"part": name, "ops": [op_str(o) for o in ops], "outcome": outcome})
        return False if viol else None  # the model is only meaningful while the queue agrees with it

    s0 = rep.states
    done = bfs([(mk_state(part, frag), "fragmentation=%s" % frag)], alphabet_of(seed), apply, canon, depth, rep, clone=clone)
    rep.part(name, states=rep.states - s0, depth_completed=done)


# ---------------------------------------------------------------- directed enumerations
def _toggle_via_node(q, frag_now):
    w, node, radio = node_template()
    w.activate()
    if node.fragmentation is not frag_now:
        node.fragmentation = frag_now
    node.queue = q
    node.fragmentation = not frag_now
    return node.queue


def w_toggle_enum(item, rep):
    """every capacity 0..12 x every fill 0..capacity x both directions: a fragmentation toggle must
    move ALL queued frames in order and keep max_queue_size (capacities above the default 6 included)"""
    seed, pid = item
    for frag in (True, False):
        for mx in range(0, 13):
            for fill in range(0, mx + 1):
                H.reset_frame_ids()
                q = H.m_structs.FrameQueueFrag() if frag else H.m_structs.FrameQueue()
                q.max_queue_size = mx
                want = []
                for i in range(fill):
                    rec = Rec(0o1 + (i % 5), 0o5, (0x0B00 + i + seed) & 0xFFFF, 70 + (i % 3), i, H.pattern(i % 25, seed, 90 + i))
                    if q.enqueue(build(rec, mutable=bool(i % 2))) is not True:
                        raise HarnessError("could not fill the queue")
                    want.append(rec)
                q2 = _toggle_via_node(q, frag)
                got = contents(q2)
                rep.case()
                rep.transitions += 1
                rep.traces += 1
                rep.outcome("toggle-enum:%s:%s" % ("on" if not frag else "off", "over-default" if fill > 6 else ("frames" if fill else "empty")))
                rep.nt("toggle-enum:%s:%d:%d" % (frag, mx, fill))
                rd = {"part": "toggle-enum", "frag": frag, "max": mx, "fill": fill, "seed": seed}
                d = diff_class(got, want)
                if d is not None:
                    rep.violation("%s/toggle:toggle:%s" % (pid, d if fill <= 6 else d + ":more-than-6-frames"),
                                  "after the toggle the queue holds %d frame(s), %d were queued (max_queue_size %d)" % (len(got), fill, mx), rd)
                if q2.max_queue_size != mx:
                    rep.violation("%s/toggle:max_queue_size" % pid, "max_queue_size %r after the toggle, was %d" % (q2.max_queue_size, mx), rd)


def _frag_pair(rec):
    """FIRST + LAST fragment frames of a 2-fragment message whose reassembled form is `rec`"""
    a, b = rec.message[:24], rec.message[24:]
    first = Rec(rec.from_node, rec.to_node, rec.frame_id, 148, 2, a)
    last = Rec(rec.from_node, rec.to_node, rec.frame_id, 150, rec.message_type, b)
    return first, last


def w_frag_enum(item, rep):
    """re-assembled messages go through the same capacity and duplicate tests as plain frames:
    every sequence (depth <= 5) over {plain frame j, fragmented message j (FIRST+LAST) with the SAME
    (origin, id, type) as plain frame j, a fragmented message with its own key, dequeue} x capacity"""
    import itertools
    seed, pid, depth = item
    plain = [Rec(0o2, 0o1, (0x9C00 + seed) & 0xFFFF, 65, 0, H.pattern(5, seed, 120)),
             Rec(0o3, 0o1, (0x1C00 + seed) & 0xFFFF, 66, 0, H.pattern(9, seed, 121))]
    fragd = [Rec(plain[0].from_node, 0o1, plain[0].frame_id, 65, 65, H.pattern(30, seed, 122)),
             Rec(plain[1].from_node, 0o1, plain[1].frame_id, 66, 66, H.pattern(41, seed, 123)),
             Rec(0o4, 0o1, (0x9C02 + seed) & 0xFFFF, 67, 67, H.pattern(48, seed, 124))]
    ops = [("plain", 0), ("plain", 1), ("frag", 0), ("frag", 1), ("frag", 2), ("deq",)]
    for mx in (1, 2, 6):
        for n in range(1, depth + 1):
            for seq in itertools.product(ops, repeat=n):
                H.reset_frame_ids()
                q = H.m_structs.FrameQueueFrag()
                q.max_queue_size = mx
                m = RefQueue(mx)
                bad = None
                for op in seq:
                    if op[0] == "plain":
                        q.enqueue(build(plain[op[1]], mutable=False))
                        m.enqueue(plain[op[1]])
                    elif op[0] == "frag":
                        f, l = _frag_pair(fragd[op[1]])
                        q.enqueue(build(f, mutable=False))
                        q.enqueue(build(l, mutable=True))
                        # what the application may see is the reassembled message (reserved byte is the network's)
                        m.enqueue(fragd[op[1]])
                    else:
                        q.dequeue()
                        m.dequeue()
                    got = [(x.from_node, x.to_node, x.frame_id, x.message_type, x.message) for x in contents(q)]
                    want = [(x.from_node, x.to_node, x.frame_id, x.message_type, x.message) for x in m.items]
                    keys = [(g[0], g[2], g[3]) for g in got]
                    if len(set(keys)) != len(keys):
                        bad = ("duplicate-held:reassembled", "two queued frames share (origin, id, type): %r" % (keys,))
                    elif len(got) > mx:
                        bad = ("bound:reassembled:len>max", "%d frames queued with max_queue_size %d" % (len(got), mx))
                    elif got != want:
                        bad = ("enqueue-stored:reassembled:%s" % ("count" if len(got) != len(want) else "content"),
                               "queue holds %d frame(s), reference %d" % (len(got), len(want)))
                    if bad:
                        break
                rep.case()
                rep.transitions += len(seq)
                rep.traces += 1
                rep.outcome("frag-enum:len%d:%s" % (len(m), "violation" if bad else "ok"))
                rep.nt("frag-enum:%d:%r" % (mx, seq))
                if bad:
                    rep.violation("%s/%s" % (pid, bad[0]), "%s [max %d: %s]" % (bad[1], mx, ", ".join(op_str(o) for o in seq)),
                                  {"part": "frag-enum", "max": mx, "ops": [list(o) for o in seq], "seed": seed})


def _fraghist_msgs(seed):
    """three fragmented messages: 0 and 1 share the frame id (two freshly booted senders), 0 and 2 share the origin;
    message types 1 and 2 are also legal fragment counters (the cache's `reserved` byte holds the type after a LAST)"""
    fid = (0xBD00 + seed) & 0xFFFF
    return [Rec(0o2, 0o1, fid, 1, 1, H.pattern(30, seed, 130)), Rec(0o3, 0o1, fid, 65, 65, H.pattern(41, seed, 131)),
            Rec(0o2, 0o1, (fid + 1) & 0xFFFF, 2, 2, H.pattern(60, seed, 132))]


def _fragments(rec):
    """[(label, Rec)] FIRST, MORE.., LAST of the message"""
    n = (len(rec.message) + 23) // 24
    out = []
    for k in range(n):
        body = rec.message[24 * k:24 * k + 24]
        if k == n - 1:
            out.append(("L", Rec(rec.from_node, rec.to_node, rec.frame_id, 150, rec.message_type, body)))
        else:
            out.append(("F" if k == 0 else "M", Rec(rec.from_node, rec.to_node, rec.frame_id, 148 if k == 0 else 149, n - k, body)))
    return out


def w_fraghist_enum(item, rep):
    """single fragments in every order: every sequence (depth <= d) over {F0, L0, F1, L1, F2, M2, L2, plain, deq} x capacity.
    Oracle (implementation independent): (1) everything queued is a plain frame or one complete message exactly as sent;
    (2) no two queued frames share (origin, id, type), never more than max; (3) a message appears only at its own LAST
    fragment and only if its FIRST (and MORE) were fed, in order, since it last appeared - one transmission, one delivery;
    (4) otherwise the queue is unchanged (dequeue removes the head); (5) an uninterrupted in-order fragment run of one
    message is delivered when there is room and no frame with its key is waiting."""
    import itertools
    seed, pid, depth, first_op = item
    msgs = _fraghist_msgs(seed)
    plain = Rec(0o4, 0o1, (0x3D00 + seed) & 0xFFFF, 66, 0, H.pattern(6, seed, 133))
    frs = [_fragments(m) for m in msgs]
    ops = [("frag", j, k) for j in range(3) for k in range(len(frs[j]))] + [("plain",), ("deq",)]
    valid = {(m.from_node, m.to_node, m.frame_id, m.message_type, bytes(m.message)): j for j, m in enumerate(msgs)}
    valid[(plain.from_node, plain.to_node, plain.frame_id, plain.message_type, bytes(plain.message))] = "p"
    view = lambda q: [(x.from_node, x.to_node, x.frame_id, x.message_type, bytes(x.message)) for x in contents(q)]  # noqa
    for mx in (1, 2):
        for n in range(1, depth + 1):
            for tail in itertools.product(ops, repeat=n - 1):
                seq = (ops[first_op],) + tail
                H.reset_frame_ids()
                q = H.m_structs.FrameQueueFrag()
                q.max_queue_size = mx
                progress = [0, 0, 0]  # fragments of message j fed in order since it last appeared (subsequence)
                run_len = [0, 0, 0]  # ... consecutively (uninterrupted run)
                before = []
                bad = None
                for op in seq:
                    if op[0] == "frag":
                        j, k = op[1], op[2]
                        lab, fr = frs[j][k]
                        q.enqueue(build(fr, mutable=(k % 2 == 1)))
                        progress[j] = k + 1 if (k == 0 or progress[j] == k) else (progress[j] if k else 1)
                        for jj in range(3):
                            run_len[jj] = (k + 1 if (k == 0 or run_len[j] == k) else 0) if jj == j else 0
                    elif op[0] == "plain":
                        q.enqueue(build(plain, mutable=False))
                        run_len = [0, 0, 0]
                    else:
                        q.dequeue()
                    got = view(q)
                    keys = [(g[0], g[2], g[3]) for g in got]
                    if any(g not in valid for g in got):
                        g = [x for x in got if x not in valid][0]
                        bad = ("fragment-history:content", "queue holds a frame nobody sent: origin 0o%o id %d type %d, %d bytes" % (g[0], g[2], g[3], len(g[4])))
                    elif len(set(keys)) != len(keys):
                        bad = ("duplicate-held:reassembled", "two queued frames share (origin, id, type): %r" % (keys,))
                    elif len(got) > mx:
                        bad = ("bound:reassembled:len>max", "%d frames queued with max_queue_size %d" % (len(got), mx))
                    elif op[0] == "deq":
                        if got != before[1:]:
                            bad = ("fragment-history:dequeue", "dequeue changed the queue from %d to %d frames" % (len(before), len(got)))
                    else:
                        new = got[len(before):] if got[:len(before)] == before else None
                        if new is None or len(new) > 1:
                            bad = ("fragment-history:order", "an enqueue changed frames that were already waiting")
                        elif new:
                            who = valid[new[0]]
                            if op[0] == "plain":
                                if who != "p":
                                    bad = ("fragment-history:spurious", "a plain frame made message %s appear" % who)
                            elif who == "p" or who != op[1] or op[2] != len(frs[op[1]]) - 1:
                                bad = ("fragment-history:spurious", "fragment %s of message %d made %s appear" % (frs[op[1]][op[2]][0], op[1], who))
                            elif progress[who] != len(frs[who]):
                                bad = ("fragment-history:delivered-twice-or-incomplete", "message %d appeared although its fragments were not all fed "
                                       "in order since it last appeared" % who)
                            else:
                                progress[who] = 0
                        elif op[0] == "frag" and op[2] == len(frs[op[1]]) - 1 and run_len[op[1]] == len(frs[op[1]]):
                            m = msgs[op[1]]
                            if len(before) < mx and (m.from_node, m.frame_id, m.message_type) not in [(g[0], g[2], g[3]) for g in before]:
                                bad = ("fragment-history:complete-message-dropped", "an uninterrupted in-order fragment run of message %d was not delivered" % op[1])
                        elif op[0] == "plain" and len(before) < mx and "p" not in [valid[g] for g in before]:
                            bad = ("fragment-history:plain-dropped", "a plain frame was refused with room in the queue")
                    if op[0] == "frag" and op[2] == len(frs[op[1]]) - 1:
                        run_len[op[1]] = 0
                    before = got
                    if bad:
                        break
                rep.case()
                rep.transitions += len(seq)
                rep.traces += 1
                rep.outcome("fraghist:len%d:%s" % (len(before), "violation" if bad else "ok"))
                rep.nt("fraghist:%d:%r" % (mx, seq))
                if bad:
                    rep.violation("%s/%s" % (pid, bad[0]), "%s [max %d: %s]" % (bad[1], mx, ", ".join(
                        (frs[o[1]][o[2]][0] + str(o[1])) if o[0] == "frag" else o[0] for o in seq)),
                        {"part": "fraghist-enum", "max": mx, "ops": [list(o) for o in seq], "seed": seed})
    rep.part("fraghist-enum", sequences=1)


def run(tier, seed, rep, only=None):
    if not only or "enum" in only:
        pmap(w_toggle_enum, [(seed, PID)], rep)
        pmap(w_frag_enum, [(seed, PID, 5 if tier == "quick" else 6)], rep)
        pmap(w_fraghist_enum, [(seed, PID, 5 if tier == "quick" else 7, f) for f in range(9)], rep)
        if only and "enum" in only:
            return dict(level="model_checking", exhaustive=True, rule="", bounds={}, trusted_base=[], assumptions=[], min_outcomes=2)
    dq, dn = (7, 4) if tier == "quick" else (9, 5)
    items = [("queue", True, seed, dq, PID), ("queue", False, seed, dq, PID),
             ("node", True, seed, dn, PID), ("node", False, seed, dn, PID)]
    if only:
        items = [it for it in items if it[0] in only]
    pmap(w_bfs, items, rep)
    return dict(
        level="model_checking",
        exhaustive=True,
        rule="Directed enumerations: fragmentation toggle for every capacity 0..12 x fill 0..capacity x direction; every sequence (depth 5/6) of plain / "
             "fragmented (FIRST+LAST, same or own key) frames and dequeues x capacity on FrameQueueFrag; every sequence (depth 5/7) of single fragments of three "
             "messages (two share the frame id, two the origin; 2 and 3 fragments; types 1, 2, 65), a plain frame and dequeue x capacity {1,2}. "
             "E-BFS with dedup on (real queue contents, caller-held frame objects, reference model) over every sequence of "
             "the alphabet up to the depth, from an empty FrameQueueFrag and an empty FrameQueue; after every operation the "
             "return value and the complete contents (drained from a deep copy through dequeue()) are compared with "
             "vf.ref.queue. Successors of a violating transition are not explored (the model no longer describes the queue). "
             "Non-trivial = enqueue/reuse/dequeue/toggle transitions and mutations of an object whose copy is queued; "
             "distinct = distinct (outcome, model contents, queue kind).",
        bounds=dict(depth_queue=dq, depth_node=dn, fresh_frames=N_FRESH, max_queue_size=list(MAXES),
                    alphabet=["enq(i<4)", "enq_alt(j<2) same origin/id/type, other message", "mutate(i<2) caller's object after enqueue "
                              "(all header fields; bytearray message in place / bytes message rebound)", "reuse(i<2) enqueue the caller's "
                              "object again as it is now", "deq", "peek", "len", "setmax(0|1|2|6)", "toggle fragmentation"]),
        trusted_base=["vf/ref/queue.py"],
        assumptions=["BFS part: frame types outside the fragment types 148..150; the frag-enum part feeds complete in-order FIRST+LAST pairs, the fraghist-enum part single "
                     "fragments in every order with an implementation-independent oracle (what a receiver must at least / may at most hand out); loss patterns on the air are C06",
                     "header fields within their wire widths (12-bit addresses, 16-bit id, 8-bit type/reserved)",
                     "'never more than max_queue_size' is required at every accepting enqueue; frames already queued when the "
                     "maximum is lowered stay queued", "CPython 3.12 only"],
        min_outcomes=8,
    )


def replay(data):
    r = data["replay"]
    pid = data.get("property", PID)
    if r["part"] in ("toggle-enum", "frag-enum", "fraghist-enum"):
        rep = __import__("vf.engine", fromlist=["Report"]).Report()
        if r["part"] == "toggle-enum":
            w_toggle_enum((r["seed"], pid), rep)
        elif r["part"] == "fraghist-enum":
            first = [("frag", 0, 0), ("frag", 0, 1), ("frag", 1, 0), ("frag", 1, 1), ("frag", 2, 0), ("frag", 2, 1), ("frag", 2, 2), ("plain",), ("deq",)].index(tuple(r["ops"][0]))
            w_fraghist_enum((r["seed"], pid, len(r["ops"]), first), rep)
        else:
            w_frag_enum((r["seed"], pid, len(r["ops"])), rep)
        want = data.get("signature")
        return [(s_, v_["what"]) for s_, v_ in rep.violations.items() if want is None or s_ == want]
    st = mk_state(r["part"], r["frag"])
    want = data.get("signature")
    found = []
    for op in r["ops"]:
        op = tuple(op)
        viol, outcome = step(st, op, r["seed"], pid)
        print("%-12s -> %-28s len=%d max=%d model=%d" % (op_str(op), outcome, len(st.queue()), st.queue().max_queue_size, len(st.model)))
        found += viol
        if viol:
            break
    return [f for f in found if want is None or f[0] == want] or found
