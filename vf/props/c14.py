"""C14 - a multicast reaches exactly the chosen network level, unacknowledged.
E-ENUM over sender class x target level x relay configuration x allow_multicast x length x
timing class in the threaded world (a populated 5-level tree of real nodes)."""
import copy

from .. import harness as H
from .. import net as N
from ..engine import pmap
from ..sim import MS, US

PID = "C14"
O = lambda s: int(s, 8)  # noqa: E731

# >= 2 nodes on each of levels 1-3, one on level 4 (closed under parent)
TOPO = [O(x) for x in ("0", "1", "2", "11", "12", "21", "111", "211", "1111")]
SENDERS = [O(x) for x in ("0", "1", "2", "11", "111", "1111")]
# second population: a full level 1 (every child slot of the master, incl. digit 5), sparse below
TOPO2 = [O(x) for x in ("0", "1", "2", "3", "4", "5", "15", "25", "31", "131", "315", "1315")]
SENDERS2 = [O(x) for x in ("0", "1", "5", "15", "131", "1315")]
TOPOS = (TOPO, TOPO2)
LEVELS = (None, 0, 1, 2, 3, 4)
LENGTHS = (0, 5, 24, 25, 144)
TYPES = (1, 65, 127, 130, 255)
PRE_TYPE = 99  # message type of the unicasts of a pre-history (filtered out of the judged queues)
PRE_MSG = b"earlier message"
BURST_MSG = b"burst"
BURST_TYPE = 33
_templates = {}


def template(cost, allow_off, topo=0):
    key = (cost, allow_off, topo)
    t = _templates.get(key)
    if t is None:
        specs = []
        for a in TOPOS[topo]:
            sp = {"addr": a}
            if a == allow_off:
                sp["attrs"] = {"allow_multicast": False}
                sp["rebegin"] = True
            specs.append(sp)
        t = N.Net(specs, cost_class=cost, horizon=3000 * MS)
        _templates[key] = t
    return t


def sender_class(a):
    return {0: "master", 1: "first-child"}.get(a, "level%d" % N.level_of(a))


def run_case(case):
    net = copy.deepcopy(template(case["cost"], case["allow_off"], case.get("topo", 0)))
    net.w.activate()
    H.reset_frame_ids()
    H.set_frame_id(case.get("id0", 0))
    net.lat = N.LAT[case["lat"]]
    w = net.w
    src = case["src"]
    for r in case["relays"]:
        net.nodes[r].multicast_relay = True
    for a, lv_ in case.get("mclevel", []):
        net.nodes[a].multicast_level = lv_  # the documented override: the node now listens on (and relays from) that level
    msg = H.pattern(case["mlen"], case.get("seed", 0), salt=11)
    obs = {"ret": "unset", "c07": [], "t_mc": 0}
    pre = [tuple(x) for x in case.get("pre", [])]
    delay = 260 * MS if pre else 1 * MS

    def do_pre(key, op):
        n = net.nodes[key]
        lvl = N.level_of(key)
        if op == "rebegin":
            n.node_address = key
        elif op == "unicast-ok":
            n.send(H.RF24NetworkHeader(N.parent_of(key) if key else O("1"), PRE_TYPE), b"pre")
        elif op == "unicast-fail" and lvl < 4:
            n.send(H.RF24NetworkHeader(key | (4 << (3 * lvl)), PRE_TYPE), b"pre")
        elif op == "unicast-routed-ack":
            # an earlier acknowledged-type message over more than one hop (the sender waited for a NETWORK_ACK)
            if lvl >= 2:
                target = 0
            elif lvl == 1:
                target = O("2") if key != O("2") else O("1")
            else:
                target = O("11")
            n.send(H.RF24NetworkHeader(target, 65), PRE_MSG)
        elif op == "multicast-same-type":
            # an earlier multicast of the same type that the receivers have not dequeued yet
            if case["level"] is None:
                n.multicast(PRE_MSG, case["mtype"])
            else:
                n.multicast(PRE_MSG, case["mtype"], case["level"])
        elif op == "multicast-burst":
            # another multicast (other type) immediately before the judged one: both are pending in
            # a slowly polling receiver's RX FIFO when it calls update()
            if case["level"] is None:
                n.multicast(BURST_MSG, BURST_TYPE)
            else:
                n.multicast(BURST_MSG, BURST_TYPE, case["level"])
        elif op.startswith("fill-queue:"):
            # the application of this node has not read its queue for a while
            for i in range(int(op.split(":")[1])):
                fr = H.RF24NetworkFrame(H.RF24NetworkHeader(key, PRE_TYPE), b"unread %d" % i)
                fr.header.from_node = O("5")
                n.queue.enqueue(fr)
        elif op.startswith("unicast-same-type:"):
            # an earlier unicast of the same type to a node that will also hear the multicast
            n.send(H.RF24NetworkHeader(int(op.split(":")[1]), case["mtype"]), PRE_MSG)
        bad = N.listening_violations(n, net.radios[key])
        if bad:
            obs["c07"].append((key, tuple(bad)))

    def pre_script(key):
        def f(ctx):
            ctx.wait(1 * MS)
            for k, op in pre:
                if k == key and op != "routed-ack-pending":
                    do_pre(key, op)
            if (key, "routed-ack-pending") in pre:
                # this node is INSIDE send() when the multicast arrives: 20 ms before the multicast it sends an acknowledged-type
                # message towards a node that does not exist behind an existing first hop and waits (route_timeout) for a
                # NETWORK_ACK that never comes
                net.serve(ctx, key, max(1, delay - 20 * MS - (w.now - net.built_at)), hook)
                lvl = N.level_of(key)
                target = O("31") if lvl == 0 else (O("33") if lvl == 1 else O("3"))
                obs["pending_ret"] = net.nodes[key].send(H.RF24NetworkHeader(target, 65), PRE_MSG)
                obs["pending_t"] = (w.now, obs.get("t_mc"))
                bad = N.listening_violations(net.nodes[key], net.radios[key])
                if bad:
                    obs["c07"].append((key, tuple(bad)))
            net.serve(ctx, key, max(1, delay + 80 * MS - (w.now - net.built_at)), hook)
        return f

    def hook(key, node, radio):
        bad = N.listening_violations(node, radio)
        if bad:
            obs["c07"].append((key, tuple(bad)))

    def sender(ctx):
        n = net.nodes[src]
        ctx.wait(1 * MS)
        for k, op in pre:
            if k == src and op != "multicast-burst":
                do_pre(src, op)
        burst = [op for k, op in pre if k == src and op == "multicast-burst"]
        if pre and not burst:
            net.serve(ctx, src, max(1, delay - (w.now - net.built_at)), hook)
        elif burst:
            net.serve(ctx, src, max(1, delay - (w.now - net.built_at)), hook)
            for _ in burst:
                do_pre(src, "multicast-burst")
        obs["t_mc"] = w.now if not burst else obs.get("t_burst", w.now)
        if case["level"] is None:
            obs["ret"] = n.multicast(msg, case["mtype"])
        else:
            obs["ret"] = n.multicast(msg, case["mtype"], case["level"])
        bad = N.listening_violations(n, net.radios[src])
        if bad:
            obs["c07"].append((src, tuple(bad)))
        net.serve(ctx, src, 60 * MS, hook)

    scripts = {src: sender}
    for k in {k for k, _ in pre if k != src}:
        scripts[k] = pre_script(k)
    net.run(scripts, idle_hook=hook)
    obs["aborted"] = w.aborted
    obs["exc"] = {k: type(e).__name__ + ": " + str(e)[:80] for k, e in net.exc.items()}
    allq = net.queues()
    obs["burst_seen"] = {k: sum(1 for g in q if g[3] == BURST_MSG) for k, q in allq.items()}
    obs["queues"] = {k: [g for g in q if g[2] != PRE_TYPE and g[3] != PRE_MSG and g[3] != BURST_MSG] for k, q in allq.items()}
    obs["flushed_unread"] = {k: r.rx_flushed_unread for k, r in net.radios.items() if r.rx_flushed_unread}
    obs["msg"] = msg
    air = [p for p in net.air() if p.start >= obs["t_mc"] and (p.is_ack or (N.parse_frame(p.payload) or {}).get("type") != BURST_TYPE)]
    if any(op == "routed-ack-pending" for _, op in pre):
        # the pending unicast (and its forwarding) shares the air: judged are the multicast's packets and every ACK on a LEVEL address
        lv_addrs = {level_addr(x) for x in range(5)}
        air = [p for p in air if (p.is_ack and p.addr in lv_addrs) or (not p.is_ack and (N.parse_frame(p.payload) or {}).get("msg") != PRE_MSG)]
    obs["npkts"] = len(air)
    obs["acks"] = [(p.src.name, p.addr.hex()) for p in air if p.is_ack]
    obs["want_ack"] = [(p.src.name, p.addr.hex()) for p in air if not p.is_ack and p.want_ack]
    obs["tx"] = {}
    for p in air:
        if not p.is_ack:
            obs["tx"].setdefault(p.src.name, []).append((p.addr, p.payload, p.collided))
    obs["overflow"] = {k: r.rx_overflow for k, r in net.radios.items()}
    obs["ncoll"] = sum(1 for p in air if p.collided)
    obs["pipe0"] = {k: (r.pipe_addr(0), bool(r.r[0x02] & 1)) for k, r in net.radios.items()}
    obs["names"] = {k: r.name for k, r in net.radios.items()}
    return obs


def level_addr(level):
    a = bytearray([0xCC] * 5)
    if level:
        a[1] = (0xC3, 0x3C, 0x33, 0xCE, 0x3E, 0xE3)[level]
    else:
        a[0] = 0xC3
    return bytes(a)


def judge(case, obs, pid=PID):
    src = case["src"]
    lvl_arg = case["level"]
    mc = {a: x for a, x in case.get("mclevel", [])}

    def lv(a):
        """the level a node listens on: its own, unless multicast_level was overridden"""
        return mc.get(a, N.level_of(a))
    L = lv(src) if lvl_arg is None else max(0, min(4, lvl_arg))
    sc = sender_class(src)
    shape = "%s:L%s" % (sc, "default" if lvl_arg is None else L)
    msg = obs["msg"]
    want = (src, 0o100, case["mtype"], msg)
    nfrag = (len(msg) + 23) // 24 if len(msg) > 24 else 1
    off = case["allow_off"]
    full_nodes = {k for k, op in [tuple(x) for x in case.get("pre", [])] if op.startswith("fill-queue")}
    # a node that is inside its own send() when the multicast arrives may be transmitting at that instant (half duplex): it is
    # excused from "received by all", never from the safety clauses (no ACK, nothing twice, nothing altered)
    busy_nodes = {k for k, op in [tuple(x) for x in case.get("pre", [])] if op == "routed-ack-pending"}
    has_burst = any(op == "multicast-burst" for _, op in [tuple(x) for x in case.get("pre", [])])
    relays = [r for r in case["relays"] if 1 <= lv(r) <= 3 and r != off]
    exact = len(relays) <= 1  # with several relays re-broadcasts may collide: safety clauses only
    clean = obs["ncoll"] == 0 and not any(obs["overflow"].values())
    v = []
    if obs["aborted"]:
        v.append(("%s/nontermination:%s" % (pid, shape), "horizon hit"))
    for key, e in obs["exc"].items():
        v.append(("%s/exception:%s:%s" % (pid, e.split(":")[0], shape), "node %o raised %s" % (key, e)))
    # ---- reference propagation model (from the property text)
    direct = {k for k in obs["queues"] if k != src and lv(k) == L and k != off}
    may_reach = {L}  # levels a copy may legitimately appear on
    cur = L
    while any(lv(r) == cur for r in relays) and cur <= 3:
        cur += 1
        may_reach.add(cur)
    relayed = set()
    relay_node = None
    if exact and relays and relays[0] in direct:
        relay_node = relays[0]
        relayed = {k for k in obs["queues"] if lv(k) == lv(relay_node) + 1 and k != off}
    for key, q in obs["queues"].items():
        lvl = lv(key)
        if q.count(want) > 1:
            v.append(("%s/duplicate:%s" % (pid, shape), "node %o queued the multicast %d times" % (key, q.count(want))))
        for g in q:
            if g != want:
                v.append(("%s/altered:%s" % (pid, shape), "node %o queued from=%o to=%o type=%d len=%d" % (key, g[0], g[1], g[2], len(g[3]))))
        if q and key == off:
            v.append(("%s/wrong-level:%s:multicast-off" % (pid, shape), "node %o (allow_multicast off) queued a multicast" % key))
        elif q and lvl not in may_reach:
            # (the sender is a node of level L or of another level like everybody else; whether a
            # sender of level L sees its own multicast is not specified and not judged)
            v.append(("%s/wrong-level:%s:got-L%d" % (pid, shape, lvl), "node %o (level %d) queued a multicast for level %d" % (key, lvl, L)))
        if key in full_nodes or key in busy_nodes:
            continue  # its application queue was already full: nothing more can be queued there / it may have been transmitting
        if key in direct and want not in q:
            # excused: RX FIFO overflow, collisions, and - for fragment bursts - a receiver that is
            # itself a relay (half duplex: it cannot hear fragment k+1 while re-broadcasting k)
            # (a level-4 node with multicast_relay on re-broadcasts as well - towards a level nobody is on - and is just as deaf meanwhile)
            # (with the pending unicast of a busy node on the same channel, a collision excuses single frames too)
            if obs["overflow"][key] == 0 and not (nfrag > 1 and (obs["ncoll"] > 0 or key in case["relays"])) and not (busy_nodes and obs["ncoll"] > 0):
                v.append(("%s/missed:%s" % (pid, shape), "node %o of level %d did not receive the multicast (len %d)" % (key, L, len(msg))))
        if key in relayed and key not in direct and want not in q and clean and (nfrag == 1 or want in obs["queues"][relay_node]):
            v.append(("%s/relay-missed:%s" % (pid, shape), "node %o of level %d did not receive the multicast relayed by %o" % (key, lvl, relay_node)))
    if obs.get("flushed_unread"):
        k0 = sorted(obs["flushed_unread"])[0]
        v.append(("%s/received-frames-discarded:%s" % (pid, shape), "node %o flushed %d received payload(s) out of its RX FIFO unread" % (k0, obs["flushed_unread"][k0])))
    if has_burst and clean:
        for key in direct:
            if key not in full_nodes and obs["burst_seen"].get(key) != 1:
                v.append(("%s/missed-burst:%s" % (pid, shape), "node %o queued the first multicast of a back-to-back pair %d times" % (key, obs["burst_seen"].get(key, 0))))
                break
    if obs["acks"]:
        v.append(("%s/acknowledged:%s" % (pid, shape), "hardware ACK packet(s) on the air: %r" % obs["acks"][:3]))
    if obs["want_ack"]:
        v.append(("%s/requests-ack:%s" % (pid, shape), "multicast transmitted with auto-ack enabled on the transmitter: %r" % obs["want_ack"][:3]))
    # ---- who transmitted what
    sname = obs["names"][src]
    for name, txs in obs["tx"].items():
        key = next(k for k, n in obs["names"].items() if n == name)
        lvl = lv(key)
        for addr, payload, coll in txs:
            f = N.parse_frame(payload)
            if f is None or f["to"] != 0o100 or f["from"] != src:
                v.append(("%s/foreign-frame:%s" % (pid, shape), "node %o transmitted an unexpected frame %r" % (key, f and {k: f[k] for k in ("from", "to", "type")})))
                break
        own = txs
        if key == src:
            own, txs = txs[:nfrag], txs[nfrag:]
            if any(a != level_addr(L) for a, _, _ in own):
                v.append(("%s/wrong-address:%s" % (pid, shape), "multicast for level %d sent to %s, level address is %s" % (L, own[0][0].hex(), level_addr(L).hex())))
            if len(own) != nfrag:
                v.append(("%s/tx-count:%s" % (pid, shape), "sender put %d packets on the air for %d frame(s)" % (len(own), nfrag)))
            if not txs:
                continue
        if key in case["relays"] and lvl == 4 and 4 in may_reach:
            # not specified by the property (relaying is defined for levels 1..3): only the safety side is judged -
            # it must not transmit to an address that any level listens on
            if any(a in [level_addr(x) for x in range(5)] for a, _, _ in txs):
                v.append(("%s/relay-wrong-address:%s" % (pid, shape), "level-4 relay %o re-broadcast to %s, the address of an existing level" % (key, txs[0][0].hex())))
            continue
        if key not in relays or lv(key) not in may_reach:
            v.append(("%s/unexpected-relay:%s" % (pid, shape), "node %o (level %d, relay %s) re-broadcast the multicast" % (key, lvl, "on" if key in relays else "off")))
            continue
        if any(a != level_addr(lvl + 1) for a, _, _ in txs):
            v.append(("%s/relay-wrong-address:%s" % (pid, shape), "relay %o of level %d sent to %s, next level address is %s" % (key, lvl, txs[0][0].hex(), level_addr(lvl + 1).hex())))
        if exact and clean and key == relay_node and (nfrag == 1 or want in obs["queues"][key]):
            if len(txs) != nfrag:
                v.append(("%s/relay-count:%s" % (pid, shape), "relay %o re-broadcast %d packet(s) for %d received frame(s)" % (key, len(txs), nfrag)))
            if want not in obs["queues"][key] and key not in full_nodes:
                v.append(("%s/relay-not-queued:%s" % (pid, shape), "relay %o did not queue the multicast for its own application" % key))
    if relay_node is not None and clean and obs["names"][relay_node] not in obs["tx"] and (want in obs["queues"][relay_node] or relay_node in full_nodes):
        v.append(("%s/relay-silent:%s" % (pid, shape), "relay %o of level %d received the multicast but did not re-broadcast it" % (relay_node, lv(relay_node))))
    if sname not in obs["tx"] and not obs["aborted"] and src not in obs["exc"] and direct:
        v.append(("%s/not-transmitted:%s" % (pid, shape), "nothing was transmitted although level %d has other listening nodes" % L))
    # ---- registers: a node with allow_multicast off does not listen on the shared level address
    for key, (addr, is_open) in obs["pipe0"].items():
        if key == off and is_open and addr == level_addr(lv(key)):
            v.append(("%s/listens-with-multicast-off:%s" % (pid, shape), "node %o listens on the level address with allow_multicast off" % key))
    for key, bad in obs["c07"]:
        v.append(("%s/not-listening:%s" % (pid, bad[0]), "node %o: %s" % (key, ",".join(bad))))
    if obs["ret"] is not True and sname in obs["tx"] and not obs["aborted"]:
        v.append(("%s/return-%r:%s" % (pid, obs["ret"], shape), "multicast() returned %r" % (obs["ret"],)))
    return v


def w_cases(cases, rep):
    for case in cases:
        obs = run_case(case)
        rep.case()
        rep.traces += 1
        rep.transitions += obs["npkts"]
        nrecv = sum(1 for k, q in obs["queues"].items() if q and k != case["src"])
        rep.outcome("%s:L%s:relays%d:off=%s:frags%d:receivers=%d:tx=%d" % (sender_class(case["src"]), case["level"], len(case["relays"]),
                                                                    case["allow_off"] is not None, 1 if case["mlen"] <= 24 else (case["mlen"] + 23) // 24,
                                                                    nrecv, len(obs["tx"])))
        rep.nt(repr(sorted(case.items(), key=str)))
        rep.part("multicast", executions=1, packets=obs["npkts"], receivers=nrecv, collisions=obs["ncoll"])
        for sig, what in judge(case, obs):
            rep.violation(sig, what, {"case": case})


def build_items(tier, seed):
    # "quick" runs what used to be the thorough tier (it is cheap); "thorough" (deep) adds every timing class for every relay
    # configuration, the second population with every length, and the pre-histories under four timing classes
    deep = tier == "thorough"
    tier = "thorough"
    cases = []
    k = 0
    # (multicast_relay on a level-4 node: there is no next level - whatever it does, no node of another level may get the frame)
    relay_cfgs = [[]] + [[r] for r in TOPO if 1 <= N.level_of(r) <= 3] + [[r for r in TOPO if 1 <= N.level_of(r) <= 3]] + [
        [O("1111")], [r for r in TOPO if 1 <= N.level_of(r) <= 4]]
    timing = [(c, l) for c in range(4) for l in (0, 1, 2)]
    for src in SENDERS:
        for lvl in LEVELS:
            for ri, relays in enumerate(relay_cfgs):
                for allow_off in (None, O("2"), O("12")):
                    if allow_off is not None and (ri not in (0, 1, len(relay_cfgs) - 3) or allow_off == src):
                        continue  # multicast() on a node that itself has multicasting off is not specified
                    lens = LENGTHS
                    for mlen in lens:
                        tsel = timing if ri == 0 or deep else [timing[0], timing[(k * 5 + 1) % len(timing)]]
                        for (c, l) in dict.fromkeys(tsel):
                            if mlen > 24 and l == 2:
                                l = 0  # unacknowledged fragment bursts need a polling application
                            k += 1
                            cases.append(dict(src=src, level=lvl, relays=list(relays), allow_off=allow_off, mlen=mlen, mtype=TYPES[k % len(TYPES)],
                                              cost=c, lat=l, seed=seed, id0=(k * 131) & 0xFFFF))
    # every message length and every user message type / the system types that are not consumed (first relay configuration)
    for src in SENDERS:
        for lvl in LEVELS:
            for mlen in (range(0, 145, 5) if tier == "quick" else range(0, 145)):
                k += 1
                cases.append(dict(src=src, level=lvl, relays=[], allow_off=None, mlen=mlen, mtype=TYPES[k % len(TYPES)],
                                  cost=k % 4, lat=k % 2, seed=seed, id0=(k * 131) & 0xFFFF))
            for mtype in (range(0, 128, 5) if tier == "quick" else list(range(0, 148)) + list(range(151, 193)) + [199, 200, 254, 255]):
                if mtype in (PRE_TYPE, BURST_TYPE):
                    continue  # (the harness's own marker types)
                k += 1
                cases.append(dict(src=src, level=lvl, relays=[O("11")] if k % 2 else [], allow_off=None, mlen=(3, 30)[k % 2], mtype=mtype,
                                  cost=k % 4, lat=k % 2, seed=seed, id0=(k * 131) & 0xFFFF, mtype_fixed=True))
    # second population (thorough): a full level 1, sparse deeper levels
    if tier == "thorough":
        rl2 = [r for r in TOPO2 if 1 <= N.level_of(r) <= 3]
        for src in SENDERS2:
            for lvl in LEVELS:
                for relays in ([], [O("1")], [O("5")], [O("31")], [O("131")], rl2):
                    for allow_off in (None, O("3"), O("25")):
                        if allow_off == src or (allow_off is not None and relays not in ([], rl2)):
                            continue
                        for mlen in ((0, 5, 24, 25, 48, 49, 144) if deep else (5, 25, 144)):
                            k += 1
                            cases.append(dict(src=src, level=lvl, relays=list(relays), allow_off=allow_off, mlen=mlen, mtype=TYPES[k % len(TYPES)],
                                              cost=k % 4, lat=k % 2, seed=seed, id0=(k * 131) & 0xFFFF, topo=1))
    # overridden multicast levels (assigned after the address): receivers, relays (the next level is the one after the level
    # they listen on) and senders that take their default level from it
    for src, lvl, mcl, relays in ((O("0"), 2, [(O("1"), 2)], [O("1")]), (O("0"), 2, [(O("1"), 2)], []), (O("2"), 1, [(O("11"), 1)], [O("11")]),
                                  (O("0"), 3, [(O("12"), 3)], []), (O("0"), 2, [(O("12"), 3)], []), (O("11"), None, [(O("11"), 1)], []),
                                  (O("1"), None, [(O("1"), 3)], [O("111")]), (O("0"), 1, [(O("1"), 2), (O("11"), 1)], [O("11")]),
                                  (O("2"), 3, [(O("1"), 3), (O("111"), 2)], [O("1")]), (O("0"), 1, [(O("1"), 2)], [O("1")])):
        for mlen in (5, 25):
            for (c, l) in ((0, 0), (2, 1)):
                k += 1
                cases.append(dict(src=src, level=lvl, relays=list(relays), allow_off=None, mlen=mlen, mtype=TYPES[k % len(TYPES)], cost=c, lat=l if mlen <= 24 else 0,
                                  seed=seed, id0=(k * 131) & 0xFFFF, mclevel=[list(x) for x in mcl]))
    # pre-histories: the multicast is preceded by unicast traffic (delivered / failed) or a
    # re-assignment of the node address at the sender, at a receiver of the target level, at a relay
    for src in SENDERS:
        for lvl in (None, 1, 2, 3):
            L = N.level_of(src) if lvl is None else lvl
            recvs = [a for a in TOPO if N.level_of(a) == L and a != src]
            if not recvs:
                continue
            recv = recvs[k % len(recvs)]
            relay_ok = 1 <= L <= 3
            pres = [[(recv, "unicast-ok")], [(recv, "unicast-fail")], [(recv, "rebegin")], [(src, "rebegin")], [(src, "unicast-ok")], [(src, "unicast-fail")],
                    [(recv, "unicast-fail"), (recv, "unicast-ok")], [(src, "unicast-ok"), (recv, "rebegin"), (recv, "unicast-ok")],
                    [(src, "multicast-same-type")], [(src, "unicast-same-type:%d" % recv)], [(src, "multicast-same-type"), (src, "multicast-same-type")],
                    [(src, "multicast-burst")], [(recv, "fill-queue:6")], [(recv, "fill-queue:6"), (src, "multicast-burst")],
                    [(recv, "unicast-routed-ack")], [(src, "unicast-routed-ack")], [(recv, "unicast-routed-ack"), (src, "unicast-ok")],
                    [(recv, "routed-ack-pending")]]
            for pre in pres:
                for relays in ([], [recv] if relay_ok else None):
                    if relays is None or (relays and any(x[1] == "routed-ack-pending" for x in pre)):
                        continue
                    k += 1
                    cases.append(dict(src=src, level=lvl, relays=list(relays), allow_off=None, mlen=(5, 25)[k % 2], mtype=TYPES[k % len(TYPES)],
                                      cost=(k // 2) % 4, lat=k % 2, seed=seed, id0=(k * 131) & 0xFFFF, pre=[list(x) for x in pre],
                                      mtype_fixed=True))
                    if any(x[1] == "multicast-burst" for x in pre):
                        cases[-1]["mlen"] = 5
                        cases[-1]["lat"] = 2  # 2 ms poll latency: both frames are in the RX FIFO when update() runs
                    if any("same-type" in x[1] for x in pre):
                        cases[-1]["mtype"] = 7  # (a user type that is neither relayed specially nor network-acknowledged)
                    if deep:
                        for (c2, l2) in ((1, 0), (2, 1), (3, 0)):
                            if (c2, l2) != (cases[-1]["cost"], cases[-1]["lat"]) and not any(x[1] == "multicast-burst" for x in pre):
                                base_case = cases[-1] if "pre" in cases[-1] and cases[-1]["pre"] == [list(x) for x in pre] else None
                                if base_case is not None:
                                    cases.insert(len(cases) - 1, dict(base_case, cost=c2, lat=l2 if base_case["mlen"] <= 24 else 0))
    return [cases[i:i + 25] for i in range(0, len(cases), 25)]


def run(tier, seed, rep, only=None):
    items = build_items(tier, seed)
    pmap(w_cases, items, rep)
    rep.states += len(rep.nontrivial)
    rep.sample({"case": items[len(items) // 3][0]})
    return dict(
        level="model_checking",
        exhaustive=True,
        rule="every sender class (master, first child 0o1, another level-1 node, levels 2, 3, 4) x target level {default,0..4} x relay configuration "
             "(off / on at exactly one node of levels 1-3 / on everywhere) x allow_multicast off at one node x message length x timing classes on a "
             "populated 5-level tree of 9 real nodes; plus 14 pre-histories (delivered / failed unicast, node-address re-assignment at sender, receiver, relay; earlier multicast / unicast of the same type not yet dequeued; back-to-back multicasts; a relay whose application queue is full) "
             "before the multicast; every message length 0..144 and every message type outside the network's own per sender x level; overridden multicast levels on receivers / relays / senders; "
             "a second population (full level 1 incl. child digit 5, sparse levels 2-4) x relay configurations x allow_multicast off; non-trivial = distinct case (every case transmits or must transmit).",
        bounds=dict(tier_note="quick = one rotating extra timing class per relay configuration, second population at 3 lengths; thorough = all 12 timing classes everywhere, second population at 7 lengths, pre-histories under 4 timing classes", topology2=["%o" % a for a in TOPO2], topology=["%o" % a for a in TOPO], senders=["%o" % a for a in SENDERS], levels=[str(x) for x in LEVELS], lengths=list(LENGTHS), types=list(TYPES)),
        trusted_base=["vf/sim.py", "vf/net.py"],
        assumptions=["loss-free medium; a receiver whose RX FIFO overflowed, or a run with an on-air collision between relays, is excused from the "
                     "'received by all' clause (multicasts are unacknowledged) but never from the safety clauses"],
        min_outcomes=8,
    )


def replay(data):
    case = data["replay"]["case"]
    obs = run_case(case)
    print("ret=%r tx=%r acks=%r" % (obs["ret"], {k: [(a.hex(), len(p)) for a, p, _ in t] for k, t in obs["tx"].items()}, obs["acks"][:4]))
    print("queues:", {("%o" % k): [(("%o" % f), t, len(m)) for f, _, t, m in q] for k, q in obs["queues"].items() if q})
    viol = judge(case, obs, data.get("property", PID))
    want = data.get("signature")
    return [(s, w) for s, w in viol if s == want] or viol
