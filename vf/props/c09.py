"""C09 - `with` restores an object's complete radio configuration.

E-BFS over interleavings of `with` blocks of 2-3 real driver objects (RF24, RF24, FakeBLE,
RF24Network, RF24Mesh) that share ONE simulated radio.  A block = obj.__enter__(), <= 2
configuration calls from the C03 alphabet (restricted to what the class exposes), obj.__exit__().
Oracle (ground truth = the simulated radio's register file, CE pin and SPI log):
  restore/leak  the register file right after X is (re-)entered == the register file at the end of
                X's previous block (or right after X's construction), PWR_UP masked - whatever other
                objects did in between.  `leak`: __enter__ never wrote the differing register (the
                other object's value shows through); `restore`: it wrote a value other than the one
                the object last established.
  exit          after every __exit__: CONFIG.PWR_UP == 0 and CE low.
  foreign       at the end of every block of a network / mesh object the radio's pipe addresses are the ones derived
                from THAT object's own address_prefix / address_suffix / node address / multicast level (the
                RF24Network object runs a second network with the prefix and suffix of the documentation's network_b).
Counterexamples are minimised by re-execution (calls are dropped while the same violation
persists) so that the signature names only the calls that matter:
  C09/<clause>:<class of X>:<register groups failing in the minimal counterexample>:<op class>
  op class = the remaining calls as own:<name>(<argument class>) (made through X) or
  other:<name>(...) (made through another object), "-" if no call is needed and always "-" for
  `leak` (a defect of __enter__ itself, whichever foreign call makes it visible).
A block sequence is cut at its first violation.  Class combinations: 7 distinct pairs and 7 distinct
triples of the five objects (the two RF24 objects are interchangeable); the quick tier runs all
pairs and 4 of the triples.
"""
import copy

from .. import harness as H
from .. import engine
from ..engine import pmap
from ..ref import regs as R
from ..sim import HarnessError, Abort, MS, SimSpiDev
from . import c03

PID = "C09"

SLOTS = ("RF24", "RF24", "FakeBLE", "RF24Network", "RF24Mesh")  # the five objects of the property
NET_ADDR = 0o1
NET_B = (0xDB, (0xDD, 0x99, 0xB6, 0xD9, 0x9D, 0x66))  # docs/network_docs/topology.rst, network_b
NET_DEFAULT = (0xCC, (0xC3, 0x3C, 0x33, 0xCE, 0x3E, 0xE3))  # documented defaults of address_prefix / address_suffix
RADIO_MIXIN = ("channel", "power", "set_dynamic_payloads", "get_dynamic_payloads", "listen", "pa_level",
               "is_lna_enabled", "data_rate", "crc", "get_auto_retries", "set_auto_retries", "address",
               "interrupt_config")  # docs/network_docs/shared_api.rst "Accessible RF24 API" (configuration part)

# (kind, name, argument class, n-th such entry of the C03 alphabet)
SPEC = (
    ("set", "channel", "in-domain", 0), ("set", "data_rate", "in-domain", 1), ("set", "data_rate", "in-domain", 2),
    ("set", "pa_level", "int", 1), ("set", "pa_level", "tuple-lna-off", 0), ("set", "crc", "in-domain", 0),
    ("set", "crc", "in-domain", 1), ("set", "address_length", "in-domain", 0), ("set", "ard", "in-domain", 0),
    ("set", "arc", "in-domain", 0), ("call", "set_auto_retries", "in-domain", 0), ("set", "auto_ack", "bool", 1),
    ("set", "auto_ack", "int", 2), ("call", "set_auto_ack", "pipe0-5", 3), ("set", "dynamic_payloads", "bool", 1),
    ("set", "dynamic_payloads", "list", 0), ("call", "set_dynamic_payloads", "pipe0-5", 1),
    ("call", "set_dynamic_payloads", "pipe-omitted", 1), ("set", "payload_length", "in-domain", 0),
    ("set", "payload_length", "list", 0), ("call", "set_payload_length", "in-domain,pipe0-5", 0),
    ("call", "set_payload_length", "len-out-of-range,pipe0-5", 2), ("call", "set_payload_length", "pipe<0", 0),
    ("call", "get_payload_length", "pipe<0", 0), ("call", "get_payload_length", "pipe0-5", 0),
    ("set", "ack", "True", 0), ("set", "allow_ask_no_ack", "False", 0), ("call", "interrupt_config", "3-bool", 1),
    ("call", "interrupt_config", "3-bool", 6), ("set", "power", "False", 0), ("set", "listen", "True", 0),
    ("set", "listen", "False", 0), ("call", "open_rx_pipe", "pipe0-1,len5", 0), ("call", "open_rx_pipe", "pipe0-1,len5", 1),
    ("call", "open_rx_pipe", "pipe2-5,len5", 0), ("call", "open_rx_pipe", "pipe0-1,len3", 1),
    ("call", "close_rx_pipe", "pipe0", 0), ("call", "open_tx_pipe", "len5", 0), ("call", "open_tx_pipe", "len3", 0),
    ("call", "start_carrier_wave", "-", 0), ("call", "stop_carrier_wave", "-", 0), ("call", "load_ack", "ok", 0),
    ("get", "ack", "-", 0), ("get", "crc", "-", 0), ("get", "pa_level", "-", 0), ("call", "get_auto_retries", "-", 0),
    ("call", "address", "pipe0-1", 0),
    # reading an attribute must not disturb what the object restores (getters refresh the driver's shadow copies)
    ("get", "data_rate", "-", 0), ("get", "is_lna_enabled", "-", 0), ("get", "channel", "-", 0), ("get", "address_length", "-", 0),
    ("get", "arc", "-", 0), ("get", "ard", "-", 0), ("get", "auto_ack", "-", 0), ("get", "dynamic_payloads", "-", 0),
    ("get", "payload_length", "-", 0), ("get", "allow_ask_no_ack", "-", 0),
    # rejected / clamped inputs: what the object "last established" must not include a refused value
    ("set", "channel", ">125", 0), ("set", "channel", "<0", 0), ("set", "data_rate", "invalid", 1), ("set", "pa_level", "invalid", 0),
    ("set", "crc", ">2", 0), ("set", "address_length", ">5", 0), ("set", "ard", ">4000", 0), ("set", "arc", ">15", 0),
    ("set", "payload_length", ">32", 0),
)


def ops_for(cname, seed):
    """the calls a block of an object of class `cname` may make: [(kind, name, args, argument class)]"""
    A = c03.alphabet(seed, "full", True)
    out = []
    for kind, name, cls, nth in SPEC:
        hits = [e for e in A if e[0] == kind and e[1] == name and e[3] == cls]
        if len(hits) <= nth:
            raise HarnessError("C09 alphabet: no C03 entry for %r" % ((kind, name, cls, nth),))
        e = hits[nth]
        if cname in ("RF24Network", "RF24Mesh") and name not in RADIO_MIXIN:
            continue
        out.append(e[:4])
    if cname in ("RF24Network", "RF24Mesh"):
        # the calls that translate logical into physical addresses (each object with its own prefix / suffix)
        out.append(("set", "multicast_level", (2,), "valid"))
        if cname == "RF24Network":  # (the mesh classes have no node_address setter)
            out.append(("set", "node_address", (0o2,), "valid"))
            out.append(("set", "node_address", (0,), "valid"))
    if cname == "FakeBLE":
        out.append(("set", "channel", (26,), "ble-frequency"))
        out.append(("call", "hop_channel", (), "-"))
    return out


def show(op):
    return c03.show(op)


# ---------------------------------------------------------------------------- world
def attach(world, radio, cname):
    """another driver object on the shared radio (own variant of harness.attach_driver for the classes
    whose constructors take a node address / node id)"""
    world.activate()
    if cname in ("RF24", "FakeBLE"):
        return H.attach_driver(world, radio, getattr(H, cname))
    spi = SimSpiDev(radio, 30 * H.US)
    if cname == "RF24Network":
        o = H.RF24Network(spi, 0, radio.ce_pin, NET_ADDR)
        # a second network on the same radio uses its own physical addresses (docs/network_docs/topology.rst,
        # "2 separate networks": prefix / suffix of network_b, then node_address re-assigned)
        # the prefix is changed in place and the suffix is assigned (both are the object's own attributes)
        o.address_prefix[0] = NET_B[0]
        o.address_suffix = bytearray(NET_B[1])
        o.node_address = NET_ADDR
        return o
    if cname == "RF24Mesh":
        return H.RF24Mesh(spi, 0, radio.ce_pin, 0)  # node id 0: the mesh master, needs no address lease
    raise HarnessError("unknown class " + cname)


def build(classes):
    """-> [world, objs, radio, last]: all objects constructed (in order) on one radio; last[i] = register
    file the i-th object established by its construction"""
    w = H.World().activate()
    H.reset_frame_ids()
    H.URANDOM.reseed(1)
    objs, last = [], []
    if classes[0] in ("RF24", "FakeBLE"):
        o, radio = H.mk_driver(w, "shared", cls=getattr(H, classes[0]), spilog=True)
    else:
        radio = H.mk_radio(w, "shared", spilog=True)
        o = attach(w, radio, classes[0])
    w.settle(100 * MS)
    objs.append(o)
    last.append(radio.regfile())
    for cname in classes[1:]:
        objs.append(attach(w, radio, cname))
        w.settle(100 * MS)
        last.append(radio.regfile())
    radio.spilog = []
    return [w, objs, radio, last]


def canon(st):
    w, objs, radio, last = st
    return (radio.snapshot(), tuple(H.driver_state(o) for o in objs),
            tuple(tuple(sorted((k, bytes(v) if not isinstance(v, int) else v) for k, v in l.items())) for l in last), w.pending())


def do_call(obj, op):
    return c03.do_call(obj, op[:3])


def mask_pwr(d):
    if R.CONFIG in d and (d[R.CONFIG][0] ^ d[R.CONFIG][1]) == R.PWR_UP:
        d.pop(R.CONFIG)
    return d


def foreign_addresses(obj, cname, radio):
    """network objects: the pipe addresses on the radio are the ones derived from THIS object's prefix, suffix, node
    address and multicast level (independent reference vf.net.expected_pipes) -> text or None"""
    if cname not in ("RF24Network", "RF24Mesh"):
        return None
    from ..net import expected_pipes
    # prefix / suffix as the harness gave them to THIS object (not read back from it: objects must not share them)
    prefix, suffix = NET_B if cname == "RF24Network" else NET_DEFAULT
    exp = expected_pipes(obj.node_address, obj.multicast_level, bool(obj.allow_multicast), prefix, tuple(suffix))
    got = [radio.pipe_addr(p) for p in range(6)]
    lo = 0 if radio.prx() else 1  # pipe 0 holds the TX address while the object is not listening
    bad = [p for p in range(lo, 6) if got[p] != exp[p]]
    if bad:
        return "pipe %d holds %s, this object's own address is %s" % (bad[0], got[bad[0]].hex(), exp[bad[0]].hex())
    return None


def run_block(st, x, ops, classes, first_entry):
    """execute one `with` block of object x on state st (mutated).  -> (violations, outcome keys, restored)
    violation = (clause, class of X, register group, text); restored = the re-entry had something to restore"""
    w, objs, radio, last = st
    w.activate()
    obj = objs[x]
    cname = classes[x]
    viol, outs = [], []
    pre = radio.regfile()
    radio.spilog = []
    try:
        obj.__enter__()
    except Exception as e:  # noqa - the remembered configuration cannot be written back at all
        when = "first entered after its construction" if first_entry[x] else "re-entered"
        viol.append(("restore", cname, "exception", "%s %s: __enter__ raises %s: %s" % (cname, when, type(e).__name__, e)))
        outs.append("%s:%s:raises" % (cname, "first-entry" if first_entry[x] else "re-entry"))
        first_entry[x] = False
        return viol, outs, True
    w.settle(100 * MS)
    reg = radio.regfile()
    written = set()
    for _, mosi, _ in radio.spilog:
        if 0x20 <= mosi[0] < 0x40 and len(mosi) > 1:
            written.add(mosi[0] & 0x1F)
    radio.spilog = []
    d = mask_pwr(R.diff(last[x], reg))
    restored = bool(mask_pwr(R.diff(last[x], pre)))
    when = "first entered after its construction" if first_entry[x] else "re-entered"
    for clause, part in (("leak", {k: v for k, v in d.items() if k not in written}),
                         ("restore", {k: v for k, v in d.items() if k in written})):
        for g in sorted({R.GROUPS[k] for k in part}):  # one violation per register group (merged again after minimisation)
            sub = {k: v for k, v in part.items() if R.GROUPS[k] == g}
            if clause == "leak":
                text = "%s %s: __enter__ does not write %s, another object's setting shows through (%s)" % (
                    cname, when, ", ".join(R.NAMES[k] for k in sorted(sub)), R.fmt(sub))
            else:
                text = "%s %s: __enter__ programs a configuration other than the one the object last established: %s" % (
                    cname, when, R.fmt(sub))
            viol.append((clause, cname, g, text))
    outs.append("%s:%s:%s" % (cname, "first-entry" if first_entry[x] else "re-entry",
                               "+".join(sorted({v[0] for v in viol})) or ("restored" if restored else "nothing-to-restore")))
    first_entry[x] = False
    for op in ops:
        exc, _ = do_call(obj, op)
        outs.append("%s:%s:%s" % (cname, op[1], exc or "ok"))
    w.settle(100 * MS)
    fa = foreign_addresses(obj, cname, radio)
    if fa and not viol:
        viol.append(("foreign", cname, "RX_ADDR", "%s at the end of its block: %s" % (cname, fa)))
    last[x] = radio.regfile()
    obj.__exit__(None, None, None)
    if radio.r[0] & R.PWR_UP or radio.ce_pin.value:
        viol.append(("exit", cname, "CONFIG" if radio.r[0] & R.PWR_UP else "CE",
                     "after %s.__exit__: PWR_UP=%d, CE=%d" % (cname, bool(radio.r[0] & R.PWR_UP), radio.ce_pin.value)))
    w.settle(100 * MS)
    return viol, outs, restored


_BASES = {}


def base_state(classes):
    k = tuple(classes)
    if k not in _BASES:
        _BASES[k] = build(classes)
    return copy.deepcopy(_BASES[k])


def execute(classes, blocks, seed):
    """re-execute a complete block list [(x, [ops])] from scratch -> [(block index, clause, class, group, text)]"""
    st = base_state(classes)
    fe = [True] * len(classes)
    res = []
    for bi, (x, ops) in enumerate(blocks):
        v, _, _ = run_block(st, x, ops, classes, fe)
        res.extend((bi,) + t for t in v)
    return res


class Explorer:
    def __init__(self, rep, classes, seed, pid=PID, wid="-"):
        self.rep = rep
        self.wid = wid
        self.classes = classes
        self.seed = seed
        self.pid = pid
        self.ops = [ops_for(c, seed) for c in classes]
        self.memo = {}  # (block index, clause, class, group, block objects) -> list of (minimal op set, sig)
        self.seen = set()

    def opclass(self, blocks, bi):
        """names of the calls left after minimisation, by role relative to the object X of block bi"""
        x = blocks[bi][0]
        parts = []
        for b, (y, ops) in enumerate(blocks[:bi + 1]):
            for op in ops:
                parts.append("%s:%s(%s)" % ("own" if y == x else "other", op[1], op[3]))
        return "+".join(sorted(set(parts))) or "-"

    def report(self, blocks, bi, v):
        """minimise the block list w.r.t. violation v=(clause, class, group, text) at block bi and record it"""
        clause, cname, group, text = v
        shape = tuple(b[0] for b in blocks[:bi + 1])
        key = (bi, clause, cname, group, shape)
        opset = frozenset((b, self._op_index(y, op)) for b, (y, ops) in enumerate(blocks[:bi + 1]) for op in ops)
        for mset, sig, what, rdata in self.memo.get(key, ()):
            if mset <= opset:
                self.park(sig, what, rdata)
                return
        cur = [(y, list(ops)) for y, ops in blocks[:bi + 1]]
        changed = True
        while changed:
            changed = False
            for b in range(len(cur)):
                for i in range(len(cur[b][1])):
                    trial = [(y, list(ops)) for y, ops in cur]
                    del trial[b][1][i]
                    res = execute(self.classes, trial, self.seed)
                    if any(r[0] == bi and r[1:4] == (clause, cname, group) for r in res):
                        cur = trial
                        changed = True
                        break
                if changed:
                    break
        # drop leading blocks without calls that are not needed
        res = [r for r in execute(self.classes, cur, self.seed) if r[0] == bi and r[1:3] == (clause, cname)]
        allgroups = "+".join(sorted({r[3] for r in res})) or group  # every group that fails in the minimal counterexample
        text = " / ".join(r[4] for r in res) or text
        # a leak is a defect of __enter__ itself, whichever call of the other object makes it visible
        sig = "%s/%s:%s:%s:%s" % (self.pid, clause, cname, allgroups, "-" if clause == "leak" else self.opclass(cur, bi))
        what = "%s  [objects on the radio: %s; blocks: %s]" % (text, ", ".join(self.classes), " | ".join(
            "%s#%d{%s}" % (self.classes[y], y, "; ".join(show(op) for op in ops)) for y, ops in cur))
        rdata = {"classes": list(self.classes), "seed": self.seed, "signature": sig,
                 "blocks": [[y, [self._op_index(y, op) for op in ops], [show(op) for op in ops]] for y, ops in cur]}
        mset = frozenset((b, self._op_index(y, op)) for b, (y, ops) in enumerate(cur) for op in ops)
        self.memo.setdefault(key, []).append((mset, sig, what, rdata))
        self.park(sig, what, rdata)

    def park(self, sig, what, rdata):
        """candidates are parked in rep.notes; finalize() picks the smallest per signature (scheduling independent)"""
        rank = [len(rdata["blocks"]), sum(len(b[1]) for b in rdata["blocks"]), len(rdata["classes"]), rdata["classes"],
                [[b[0], b[1]] for b in rdata["blocks"]]]
        key = "V|%s|%s" % (sig, self.wid)
        cur = self.rep.notes.get(key)
        if cur is None or rank < cur["rank"]:
            self.rep.notes[key] = {"rank": rank, "count": (cur["count"] if cur else 0) + 1, "sig": sig, "what": what, "replay": rdata}
        else:
            cur["count"] += 1

    def _op_index(self, y, op):
        return self.ops[y].index(op)

    def explore(self, st, fe, blocks, plan, nt_flag):
        """depth-first over the remaining plan = [ [ (x, [op tuples]) alternatives ] per block ]"""
        rep = self.rep
        level = len(blocks)
        if not plan:
            return
        for x, tuples in plan[0]:
            for ops in tuples:
                st2 = copy.deepcopy(st)
                fe2 = list(fe)
                viol, outs, restored = run_block(st2, x, ops, self.classes, fe2)
                rep.transitions += 1 + len(ops)
                rep.case()
                rep.traces += 1
                for o in outs:
                    rep.outcome(o)
                b2 = blocks + [(x, list(ops))]
                for v in viol:
                    self.report(b2, level, v)
                rep.part("blocks", **{"level%d" % (level + 1): 1})
                if viol:
                    continue  # a block sequence is cut at its first violation
                nt2 = nt_flag or restored
                if nt2:
                    # distinct non-trivial cases are keyed by the first two blocks (the ones that make calls); deeper
                    # block sequences are only counted
                    if level < 2:
                        rep.nt("%s|%s" % ("".join(c[0] + c[-1] for c in self.classes), ";".join(
                            "%d:%s" % (y, ",".join(str(self._op_index(y, op)) for op in o)) for y, o in b2)))
                    rep.part("blocks", nontrivial=1)
                if len(plan) > 1:
                    k = (level, tuple(fe2), canon(st2))
                    if k in self.seen:
                        rep.part("blocks", merged=1)
                        continue
                    self.seen.add(k)
                    rep.states += 1
                    self.explore(st2, fe2, b2, plan[1:], nt2)


# ---------------------------------------------------------------------------- work items
QUICK_TRIPLES = (("RF24", "RF24", "FakeBLE"), ("RF24", "FakeBLE", "RF24Network"), ("RF24", "RF24Network", "RF24Mesh"),
                 ("FakeBLE", "RF24Network", "RF24Mesh"))


def combos(tier):
    """all pairs and triples of the five objects (the two RF24 objects are interchangeable: 7 distinct pairs, 7 distinct
    triples); the quick tier runs 4 of the triples (every class, every pair of distinct classes at least once)"""
    pairs, triples = [], []
    n = len(SLOTS)
    for i in range(n):
        for j in range(i + 1, n):
            if (SLOTS[i], SLOTS[j]) not in pairs:
                pairs.append((SLOTS[i], SLOTS[j]))
            for k in range(j + 1, n):
                t = (SLOTS[i], SLOTS[j], SLOTS[k])
                if t not in triples and (tier != "quick" or t in QUICK_TRIPLES):
                    triples.append(t)
    return pairs, triples


def w_cross(item, rep):
    """block 1 = object x1 with each of `ops1` (a chunk of <=1-call tuples), block 2 = every object with every
    <=1-call tuple, blocks 3.. = every object, no calls"""
    classes, seed, pid, x1, chunk, nblocks = item
    ex = Explorer(rep, classes, seed, pid, wid="x%s%d%d" % ("".join(c[0] + c[-1] for c in classes), x1, chunk[0]))
    n = len(classes)
    singles = [[()] + [(op,) for op in ex.ops[y]] for y in range(n)]
    plan = [[(x1, [singles[x1][i] for i in chunk])]]
    plan.append([(y, singles[y]) for y in range(n)])
    for _ in range(nblocks - 2):
        plan.append([(y, [()]) for y in range(n)])
    ex.explore(base_state(classes), [True] * n, [], plan, False)
    if x1 == 0 and chunk[0] == 0:
        rep.notes["S|%d|%s" % (len(classes), "+".join(classes))] = {
            "part": "cross", "objects": list(classes), "calls per class": [len(o) for o in ex.ops],
            "calls of the first class": [show(op) for op in ex.ops[0]]}


def w_deep(item, rep):
    """2-call blocks: X{a; b} Y{c} X{} and X{a} Y{b; c} X{} (Y != X), a chunk of first calls per item"""
    classes, seed, pid, x, y, chunk, mode, nblocks = item
    ex = Explorer(rep, classes, seed, pid, wid="d%s%d%d%s%d" % ("".join(c[0] + c[-1] for c in classes), x, y, mode, chunk[0]))
    n = len(classes)
    if mode == "own":
        t1 = [(ex.ops[x][i], b) for i in chunk for b in ex.ops[x]]
        t2 = [()] if nblocks == 3 else [()] + [(op,) for op in ex.ops[y]]
    else:
        t1 = [()] if nblocks == 3 else [()] + [(op,) for op in ex.ops[x]]
        t2 = [(ex.ops[y][i], b) for i in chunk for b in ex.ops[y]]
    plan = [[(x, t1)], [(y, t2)], [(x, [()])]]
    ex.explore(base_state(classes), [True] * n, [], plan, False)
    rep.part("deep", items=1)


def run_blocks(tier, seed, rep, pid=PID, only=None):
    pairs, triples = combos(tier)
    nblocks = 3 if tier == "quick" else 4
    cross, deep = [], []
    CH = 6
    for classes in pairs + triples:
        nops = [len(ops_for(c, seed)) + 1 for c in classes]
        for x1 in range(len(classes)):
            for c0 in range(0, nops[x1], CH):
                cross.append((classes, seed, pid, x1, list(range(c0, min(c0 + CH, nops[x1]))), nblocks))
    for classes in pairs:
        nops = [len(ops_for(c, seed)) for c in classes]
        for x, y in ((0, 1), (1, 0)):
            for mode in ("own", "other"):
                m = nops[x] if mode == "own" else nops[y]
                for c0 in range(0, m, CH):
                    deep.append((classes, seed, pid, x, y, list(range(c0, min(c0 + CH, m))), mode, nblocks))
    if not only or "cross" in only:
        pmap(w_cross, cross, rep)
    if not only or "deep" in only:
        pmap(w_deep, deep, rep)
    c03.finalize(rep)
    return dict(pairs=len(pairs), triples=len(triples), max_blocks=nblocks, cross_items=len(cross), deep_items=len(deep),
                calls_per_class={c: len(ops_for(c, seed)) for c in sorted(set(SLOTS))})


def run(tier, seed, rep, only=None):
    b = run_blocks(tier, seed, rep, PID, only)
    return dict(
        level="model_checking",
        exhaustive=True,
        rule="E-BFS over `with` blocks of real driver objects sharing one simulated radio: every unordered pair (7 distinct) and triple (7 distinct; the quick "
             "tier runs 4 of them) of the five objects {RF24, RF24, FakeBLE, RF24Network(0o1), RF24Mesh(master)}; every ordered sequence of <= max_blocks blocks "
             "over the 2-3 objects (an object may follow itself); cross part: block 1 and block 2 each make every <=1-call tuple of "
             "the class's alphabet (all call pairs across the first two blocks), later blocks make no call; deep part (pairs of "
             "objects): X{a;b} Y{<=1 call in thorough} X{} and X{<=1 call in thorough} Y{a;b} X{} for every ordered (X,Y) and every 2-call "
             "sequence. States after a block that are bit-identical (radio, all objects' attributes, remembered configurations) "
             "are merged. Oracle at every entry and exit, see module docstring. evaluations = executed blocks (each ends one "
             "block sequence); non-trivial = block sequences in which some (re-)entry found the radio in another configuration "
             "than the object's own (distinct ones keyed by their first two blocks; parts.blocks.nontrivial counts all). A block "
             "sequence is cut at its first violation.",
        bounds=b,
        trusted_base=["vf/sim.py (nRF24L01+ register file, CE pin, SPI log)", "vf/ref/regs.py (register names / groups only)"],
        assumptions=["objects are constructed up front in slot order, outside any `with` block (the network / mesh constructors and "
                     "FakeBLE's hop_channel() program the radio themselves); the configuration an object 'last established' before "
                     "its first block is the register file right after its own construction",
                     "CONFIG.PWR_UP is masked in the comparison (documented to be forced on by __enter__)",
                     "plus-variant radio only (the non-plus carrier-wave test is documented to clobber registers until the next `with`; "
                     "its recovery is checked in C03)",
                     "radio events are run to completion between calls", "CPython 3.12 only"],
        min_outcomes=12,
    )


def replay(data):
    r = data["replay"]
    classes = tuple(r["classes"])
    ops = [ops_for(c, r["seed"]) for c in classes]
    blocks = []
    for y, idxs, texts in r["blocks"]:
        sel = [ops[y][i] for i in idxs]
        if [show(o) for o in sel] != list(texts):
            raise HarnessError("replay file does not match the alphabet")
        blocks.append((y, sel))
    rep = engine.Report()
    ex = Explorer(rep, classes, r["seed"], data.get("property", PID))
    res = execute(classes, blocks, r["seed"])
    out = []
    for bi, clause, cname in sorted({r[:3] for r in res}):
        sub = [r for r in res if r[:3] == (bi, clause, cname)]
        sig = "%s/%s:%s:%s:%s" % (ex.pid, clause, cname, "+".join(sorted({r[3] for r in sub})),
                                  "-" if clause == "leak" else ex.opclass(blocks, bi))
        text = " / ".join(r[4] for r in sub)
        print("block %d: %s" % (bi, text))
        out.append((sig, text))
    want = data.get("signature")
    return [o for o in out if o[0] == want] or out
