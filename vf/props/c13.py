"""C13 - NETWORK_ACK: awaited only when needed, sent once, believed only if received.
E-DFS fault enumeration in the threaded world: per frame hop (one node transmitting one network
frame to its next hop) the environment chooses {delivered, lost for good}; every single failure
point (and every pair in the thorough tier) of routes of 1..8 hops is explored, for several
timeout settings, and all 256 message types on a 2-hop route."""
import copy

from .. import harness as H
from .. import net as N
from ..engine import pmap, explore, Chooser
from ..sim import MS, US

PID = "C13"
O = lambda s: int(s, 8)  # noqa: E731

TOPO = [O(x) for x in ("0", "1", "11", "111", "1111", "2", "22", "222", "2222", "21")]
ROUTES = [(O("1"), O("0")), (O("0"), O("2")),  # direct neighbours
          (O("1"), O("2")), (O("0"), O("11")), (O("11"), O("0")),  # 2 hops: across / down / up
          (O("11"), O("2")), (O("11"), O("22")), (O("1111"), O("2222")), (O("2222"), O("11"))]
TIMEOUTS = ((25, 75), (10, 30), (25, 200), (30, 40))
_templates = {}


def template(cost, tmo, slow=(), mesh=(), nomc=()):
    key = (cost, tmo, tuple(slow), tuple(mesh), tuple(nomc))
    t = _templates.get(key)
    if t is None:
        specs = []
        for a in TOPO:
            sp = {"addr": a}
            if a in slow:
                sp["cost"] = 300 * US + a  # `slow`: MCUs with 300 us per SPI transaction
            if a in mesh:
                sp.update(cls=H.RF24MeshNoMaster, node_id=100 + (a & 63))  # a connected mesh node (its write() takes another path)
            if a in nomc:
                sp.update(attrs={"allow_multicast": False}, rebegin=True)  # multicasting off (address re-assigned afterwards, as documented)
            specs.append(sp)
        t = N.Net(specs, cost_class=cost, horizon=6000 * MS)
        for a in mesh:
            t.nodes[a]._begin(a)  # what renew_address() does once the address was granted
        for k, n in enumerate(t.nodes.values()):
            # (public attributes; assigned in either order - neither assignment may change the other value)
            if (k + tmo[0]) % 2 and tmo[1] >= 3 * tmo[0]:
                n.tx_timeout, n.route_timeout = tmo
            else:
                n.route_timeout = tmo[1]
                n.tx_timeout = tmo[0]
        _templates[key] = t
    return t


def tclass(t):
    return "user-noack" if t <= 64 else ("user-ack" if t <= 127 else ("sys-ack" if t <= 191 else "sys-noack"))


def run_case(case, chooser=None):
    net = copy.deepcopy(template(case["cost"], tuple(case["tmo"]), (), tuple(case.get("mesh", ()))))
    net.w.activate()
    H.reset_frame_ids()
    H.set_frame_id(case.get("id0", 0))
    net.lat = N.LAT[case["lat"]]
    w = net.w
    src, dst = case["src"], case["dst"]
    for i in range(case.get("origin_queue", 0)):
        # the origin's application has not read its queue for a while (frames of an earlier conversation)
        fr = H.RF24NetworkFrame(H.RF24NetworkHeader(src, 9), b"unread %d" % i)
        fr.header.from_node = O("5")
        net.nodes[src].queue.enqueue(fr)
    msg = H.pattern(case["mlen"], case.get("seed", 0), salt=7)
    decided = {}
    last_data = {}

    delay = case.get("first_hop_delay_ms", 0) * MS  # the first hop is deaf for so long after the call starts

    phase = {"explore": True}

    def fault(pkt):
        if not phase["explore"]:
            return False
        if pkt.is_ack:
            # fault kind 2 (case["ack_faults"]): every hardware ACK of that frame hop is lost - the frame is
            # delivered, its sender sees a failed transmission
            return decided.get(last_data.get(pkt.addr)) == 2
        if delay and pkt.src.name == net.radios[src].name and "t0" in obs and pkt.start < obs["t0"] + delay:
            return True
        if chooser is None:
            return False
        key = (pkt.src.name, pkt.addr, pkt.payload)
        last_data[pkt.addr] = key
        d = decided.get(key)
        if d is None:
            f = N.parse_frame(pkt.payload)
            label = "hop:%s:%s" % (pkt.src.name, f["type"] if f else "raw")
            d = decided[key] = chooser.choose(3 if case.get("ack_faults") else 2, label)
        return d == 1
    obs = {"ret": "unset"}
    w.fault = fault

    def sender(ctx):
        n = net.nodes[src]
        ctx.wait(1 * MS)
        obs["t0"] = w.now
        if case.get("multicast"):
            obs["ret"] = n.multicast(msg, case["mtype"], case["multicast_level"])
        elif src in case.get("mesh", ()):
            if case.get("pre_type") is not None:
                # an earlier message of the other kind (its NETWORK_ACK, if any, is the last frame the node handled)
                n.write(dst, case["pre_type"], b"earlier")
                net.serve(ctx, src, 120 * MS)
                del w.airlog[net.air0:]
                obs["t0"] = w.now
            obs["ret"] = n.write(dst, case["mtype"], msg)
        elif case.get("same_header"):
            # history: the application keeps ONE header object; its first transmission went through loss-free (and was
            # acknowledged where the type asks for it), now the same header - same frame id - carries the next message
            hdr = H.RF24NetworkHeader(dst, case["mtype"])
            phase["explore"] = False
            obs["ret_first"] = n.send(hdr, b"first use of the header")
            net.serve(ctx, src, 150 * MS)
            phase["explore"] = True
            del w.airlog[net.air0:]
            obs["t0"] = w.now
            obs["ret"] = n.send(hdr, msg)
        else:
            obs["ret"] = n.send(H.RF24NetworkHeader(dst, case["mtype"]), msg)
        obs["t1"] = w.now
        bad = N.listening_violations(n, net.radios[src])
        if bad:
            obs["c07"] = bad
        net.serve(ctx, src, (case["tmo"][1] + 4 * case["tmo"][0] + 120) * MS)

    net.run({src: sender})
    obs["aborted"] = w.aborted
    obs["exc"] = {k: type(e).__name__ + ": " + str(e)[:80] for k, e in net.exc.items()}
    obs["queues"] = net.queues()
    obs["msg"] = msg
    air = net.air()
    obs["npkts"] = len(air)
    sname = net.radios[src].name
    dname = net.radios[dst].name
    # ground truth from the air
    t_accept = None
    nack_heard = []
    originators = []
    heard_nack = set()  # radios that have received a NETWORK_ACK of this message so far
    deliveries = {}  # radio -> how many times the destination's radio took the message from it as a NEW packet
    nack_loads = {}  # (radio, payload) -> [number of payload loads, PID of the last transmission]: a hardware
    #                  retransmission and REUSE_TX_PL keep the PID, a new W_TX_PAYLOAD advances it
    seen_tx = set()
    delivered_to_dst = False
    delivered_known = False
    for p in air:
        if p.is_ack:
            continue
        f = N.parse_frame(p.payload)
        if f is None:
            continue
        if p.src.name == sname and f["type"] == (case["mtype"] & 0xFF) and f["from"] == src and p.acked and t_accept is None:
            t_accept = p.end
        is_msg = f["to"] == dst and f["from"] == src and f["type"] == (case["mtype"] & 0xFF) and f["msg"] == msg
        if is_msg and dname in p.heard_by:
            delivered_to_dst = True
            deliveries[p.src.name] = deliveries.get(p.src.name, 0) + 1  # (a repetition the radio discards is heard as "<name>:dup")
        if is_msg and p.acked and (dname in p.heard_by or dname + ":dup" in p.heard_by):
            delivered_known = True  # ... and the delivering node's radio saw an acknowledgement (possibly of a retransmission)
        if f["type"] == 193 and not is_msg:
            key = (p.src.name, p.payload)
            ld = nack_loads.setdefault(key, [0, None])
            if ld[1] != p.pid:
                ld[0] += 1
                ld[1] = p.pid
            if key not in seen_tx:
                seen_tx.add(key)
                if p.src.name not in heard_nack:
                    originators.append((p.src.name, f["to"], f["id"], p.start))
            for h in p.heard_by:
                if not h.endswith(":dup"):
                    heard_nack.add(h)
                    if h == sname and f["to"] == src:
                        nack_heard.append(p.end)
    obs["t_accept"] = t_accept
    obs["nack_heard"] = nack_heard
    obs["originators"] = originators
    # (a frame that reaches the destination twice - its origin kept repeating it while every hardware ACK was lost, and the
    # relay's radio had received something else in between - is acknowledged once per delivery)
    obs["nack_reloaded"] = sorted((k[0], v[0]) for k, v in nack_loads.items()
                                  if v[0] > max(1, deliveries.get(k[0], 0)) and k[0] in {o[0] for o in originators})
    obs["delivered"] = delivered_to_dst
    obs["delivered_known"] = delivered_known and delivered_to_dst
    obs["faults"] = [k[0] + (":ack" if v == 2 else "") for k, v in decided.items() if v]
    obs["nchoices"] = len(chooser.trace) if chooser else 0
    return obs


def judge(case, obs, pid=PID):
    src, dst = case["src"], case["dst"]
    t = case["mtype"] & 0xFF
    multicast = bool(case.get("multicast"))
    hops = 1 if multicast else len(N.tree_path(src, dst)) - 1
    path = None if multicast else N.tree_path(src, dst)
    ack_t = 64 < t < 192
    shape = "%s:%s:%s" % (tclass(t), "mcast" if multicast else ("direct" if hops == 1 else "routed"), "fault" if obs["faults"] else "nofault")
    tx_to, route_to = case["tmo"]
    v = []
    if obs["aborted"]:
        v.append(("%s/nontermination:%s" % (pid, shape), "virtual-time horizon hit"))
    for key, e in obs["exc"].items():
        v.append(("%s/exception:%s:%s" % (pid, e.split(":")[0], shape), "node %o raised %s" % (key, e)))
    # (1) who originates NETWORK_ACKs
    # ("delivers" = its transmission to the destination was acknowledged; without hardware-ACK faults that is the same
    # as "the destination's radio received it")
    expect_nack = 1 if (ack_t and hops > 1 and not multicast and obs["delivered_known"]) else 0
    orig = obs["originators"]
    if len(orig) != expect_nack:
        v.append(("%s/nack-count-%d-expected-%d:%s" % (pid, min(len(orig), 2), expect_nack, shape),
                  "%d NETWORK_ACK frame(s) originated (by %s) for a type-%d message over %d hop(s), delivered=%s" % (
                      len(orig), [o[0] for o in orig], t, hops, obs["delivered"])))
    elif expect_nack:
        if obs["nack_reloaded"]:
            v.append(("%s/nack-sent-again:%s" % (pid, shape), "the NETWORK_ACK was handed to the radio %d times by %s (as a new payload each time: the receiver cannot tell it from a second acknowledgement)" % (
                obs["nack_reloaded"][0][1], obs["nack_reloaded"][0][0])))
        last_hop = "n%o" % path[-2]
        if orig[0][0] != last_hop:
            v.append(("%s/nack-wrong-originator:%s" % (pid, shape), "NETWORK_ACK originated by %s, the node delivering to the destination is %s" % (orig[0][0], last_hop)))
        if orig[0][1] != src:
            v.append(("%s/nack-wrong-addressee:%s" % (pid, shape), "NETWORK_ACK addressed to %o, origin is %o" % (orig[0][1], src)))
    if case.get("same_header") and obs.get("ret_first") is not True:
        v.append(("%s/first-use-failed:%s" % (pid, shape), "the loss-free first transmission with the header returned %r" % (obs.get("ret_first"),)))
    # (2) return value vs ground truth
    ret = obs["ret"]
    if not obs["aborted"] and src not in obs["exc"]:
        accepted = obs["t_accept"] is not None
        if multicast:
            pass  # multicast return value is C14's business
        elif ack_t and hops > 1:
            deadline = None if not accepted else obs["t_accept"] + route_to * MS
            in_time = [a for a in obs["nack_heard"] if deadline is not None and a <= deadline + 3 * MS]
            surely = [a for a in obs["nack_heard"] if deadline is not None and a <= deadline - 3 * MS]
            if ret is True and not in_time:
                v.append(("%s/true-without-ack:%s" % (pid, shape), "write() returned True but no NETWORK_ACK reached the origin within route_timeout"))
            if ret is False and surely:
                v.append(("%s/false-despite-ack:%s" % (pid, shape), "write() returned False although a NETWORK_ACK reached the origin %.1f ms after acceptance (route_timeout %d ms)" % (
                    (surely[0] - obs["t_accept"]) / 1e6, route_to)))
            if ret is not True and ret is not False:
                v.append(("%s/return-type:%s" % (pid, shape), "write() returned %r" % (ret,)))
        else:
            if bool(ret) != accepted:
                v.append(("%s/return-vs-first-hop:%s" % (pid, shape), "write() returned %r, first hop accepted=%s" % (ret, accepted)))
        # (3) bounded blocking: first-hop send (<= 2 ESB rounds of 6 attempts around tx_timeout) + route_timeout
        ard_ms = 4.5
        bound = (2 * 6 * ard_ms + tx_to + (route_to if (ack_t and hops > 1) else 0) + 15) * MS
        if obs["t1"] - obs["t0"] > bound:
            v.append(("%s/blocks-too-long:%s" % (pid, shape), "write() blocked %.1f ms, bound %.1f ms" % ((obs["t1"] - obs["t0"]) / 1e6, bound / 1e6)))
    if obs.get("c07"):
        v.append(("%s/not-listening:%s" % (pid, obs["c07"][0]), "origin after write(): %s" % ",".join(obs["c07"])))
    return v


def run_cross(case, chooser=None):
    """two origins at once: the NETWORK_ACK of the second message is routed THROUGH the first
    origin while that one waits for its own (safety clause only: True => own ACK arrived)"""
    net = copy.deepcopy(template(case["cost"], tuple(case["tmo"]), tuple(case.get("slow", ())), (), tuple(case.get("nomc", ()))))
    net.w.activate()
    H.reset_frame_ids()
    H.set_frame_id(case.get("id0", 0))
    net.lat = N.LAT[case["lat"]]
    w = net.w
    decided = {}

    def fault(pkt):
        if pkt.is_ack or chooser is None:
            return False
        key = (pkt.src.name, pkt.addr, pkt.payload)
        d = decided.get(key)
        if d is None:
            f = N.parse_frame(pkt.payload)
            d = decided[key] = bool(chooser.choose(2, "hop:%s:%s:%o" % (pkt.src.name, f["type"] if f else "raw", f["from"] if f else 0)))
        return d
    w.fault = fault
    senders = case["senders"]  # [[src, dst, mtype, start_ms], ...]
    obs = {"ret": {}, "t1": {}, "c07": []}

    def script(src, dst, mtype, start):
        def f(ctx):
            n = net.nodes[src]
            ctx.wait(1 * MS + int(start * MS))
            obs["ret"][src] = n.send(H.RF24NetworkHeader(dst, mtype), H.pattern(5, case.get("seed", 0), src))
            obs["t1"][src] = w.now
            bad = N.listening_violations(n, net.radios[src])
            if bad:
                obs["c07"].append((src, tuple(bad)))
            net.serve(ctx, src, (case["tmo"][1] + 4 * case["tmo"][0] + 150) * MS)
        return f
    net.run({s[0]: script(*s) for s in senders})
    obs["aborted"] = w.aborted
    obs["exc"] = {k: type(e).__name__ + ": " + str(e)[:80] for k, e in net.exc.items()}
    air = net.air()
    obs["npkts"] = len(air)
    obs["own_nack"] = {}
    obs["t_accept"] = {}
    for src, dst, mtype, start in senders:
        sname = net.radios[src].name
        obs["t_accept"][src] = next((p.end for p in air if p.src.name == sname and not p.is_ack and p.acked
                                     and (N.parse_frame(p.payload) or {}).get("from") == src and (N.parse_frame(p.payload) or {}).get("type") == mtype), None)
        obs["own_nack"][src] = [p.end for p in air if not p.is_ack and sname in p.heard_by
                                and (N.parse_frame(p.payload) or {}).get("type") == 193 and N.parse_frame(p.payload)["to"] == src]
    obs["faults"] = [k[0] for k, v in decided.items() if v]
    obs["nchoices"] = len(chooser.trace) if chooser else 0
    return obs


def judge_cross(case, obs, pid=PID):
    v = []
    shape = "cross:%s" % ("fault" if obs["faults"] else "nofault")
    if obs["aborted"]:
        v.append(("%s/nontermination:%s" % (pid, shape), "virtual-time horizon hit"))
    for key, e in obs["exc"].items():
        v.append(("%s/exception:%s:%s" % (pid, e.split(":")[0], shape), "node %o raised %s" % (key, e)))
    for src, dst, mtype, start in case["senders"]:
        ret = obs["ret"].get(src)
        if not (64 < mtype < 192) or len(N.tree_path(src, dst)) - 1 < 2:
            continue  # only routed ACK-type messages wait for a NETWORK_ACK
        if ret is True and not [a for a in obs["own_nack"][src] if a <= obs["t1"][src]]:
            v.append(("%s/true-without-ack:%s" % (pid, shape), "write() at %o returned True but no NETWORK_ACK addressed to it had reached it (a foreign one was routed through it)" % src))
        # the origin polls in a tight loop: an own NETWORK_ACK that its radio stored well within the
        # window must be believed, whatever else arrives behind it
        route_to = case["tmo"][1]
        acc = obs["t_accept"].get(src)
        if ret is False and acc is not None:
            early = [a for a in obs["own_nack"][src] if a <= acc + (route_to - 8) * MS and a <= obs["t1"][src]]
            if early:
                v.append(("%s/false-despite-ack:%s" % (pid, shape), "write() at %o returned False although its NETWORK_ACK reached it %.1f ms after acceptance (route_timeout %d ms)" % (
                    src, (early[0] - acc) / 1e6, route_to)))
    for key, bad in obs["c07"]:
        v.append(("%s/not-listening:%s" % (pid, bad[0]), "origin %o after write(): %s" % (key, ",".join(bad))))
    return v


def outcome_key(case, obs):
    hops = 1 if case.get("multicast") else len(N.tree_path(case["src"], case["dst"])) - 1
    return "hops%d:%s:ret=%r:nacks=%d:delivered=%d:faults=%d" % (hops, tclass(case["mtype"] & 0xFF), obs["ret"], len(obs["originators"]),
                                                              int(obs["delivered"]), len(obs["faults"]))


def w_cases(item, rep):
    cases, bound = item
    for case in cases:
        if "senders" in case:
            for ch, obs in explore(lambda c: run_cross(case, c), bound, max_execs=case.get("max_execs", 3000), rep=rep):
                rep.case()
                rep.traces += 1
                rep.transitions += obs["npkts"]
                rep.part("cross", executions=1, packets=obs["npkts"], faulted=int(bool(obs["faults"])))
                rep.outcome("cross:rets=%s:faults=%d" % (sorted(obs["ret"].values(), key=str), len(obs["faults"])))
                rep.nt(repr((sorted(case.items(), key=str), ch.choices())))
                for sig, what in judge_cross(case, obs):
                    rep.violation(sig, what, {"case": case, "choices": [list(t) for t in ch.trace]})
            continue
        for ch, obs in explore(lambda c: run_case(case, c), bound, max_execs=case.get("max_execs", 3000), rep=rep):
            rep.case()
            rep.traces += 1
            rep.transitions += obs["npkts"]
            rep.part("nack", executions=1, packets=obs["npkts"], choice_points=obs["nchoices"], faulted=int(bool(obs["faults"])))
            rep.outcome(outcome_key(case, obs))
            rep.nt(repr((sorted(case.items(), key=str), ch.choices())))
            for sig, what in judge(case, obs):
                rep.violation(sig, what, {"case": case, "choices": [list(t) for t in ch.trace]})


def build_items(tier, seed):
    # bounds: "quick" runs what used to be the thorough tier (it takes well under a minute on this machine); "thorough" = "deep"
    # adds one more failure point per execution and more timing classes / types
    deep = tier == "thorough"
    tier = "thorough"
    items = []
    k = 0
    # all routes x ack / non-ack / system types x timeouts, every single (thorough: pair / triple of) failure point(s)
    for (s, d) in ROUTES:
        hops = len(N.tree_path(s, d)) - 1
        for tmo in TIMEOUTS:
            types = (65, 127, 1, 64, 191, 192) if tmo == TIMEOUTS[0] else (65, 0)
            if tier == "thorough":
                types = (65, 127, 1, 64, 191, 192, 128, 130, 148, 150, 193) if tmo == TIMEOUTS[0] else (65, 0, 127, 191)
            timings = [None] if tier == "quick" else [(0, 0), (2, 2), (1, 1), (3, 0)]
            for t in types:
                for tm in timings:
                    k += 1
                    if tier == "quick":
                        b = 2 if hops <= 4 else 1
                        cost, lat = (0 if k % 3 else 2), (0 if k % 2 else 2)
                    else:
                        cost, lat = tm
                        b = (3 if hops <= 3 else 2) if tm == (0, 0) else (2 if hops <= 4 else 1)
                        if deep:
                            b = (4 if hops <= 3 else 3) if tm == (0, 0) else (3 if hops <= 3 else 2)
                    items.append(([dict(src=s, dst=d, mtype=t, mlen=(k * 5) % 25, tmo=list(tmo), cost=cost, lat=lat,
                                        seed=seed, id0=(k * 977) & 0xFFFF, max_execs=20000)], b))
    # the origin's queue is full of unread frames (its NETWORK_ACK must be seen all the same), and a connected mesh node as origin
    # (RF24MeshNoMaster.write(), also after an earlier message of the other kind)
    for (s, d) in ((O("1"), O("2")), (O("11"), O("2")), (O("11"), O("22"))):
        for t in (65, 1, 127):
            k += 1
            items.append(([dict(src=s, dst=d, mtype=t, mlen=(k * 5) % 25, tmo=list(TIMEOUTS[k % 2]), cost=0, lat=0, seed=seed, id0=(k * 977) & 0xFFFF,
                                max_execs=20000, origin_queue=6)], 1))
            for pre in (None, 10, 70):
                k += 1
                items.append(([dict(src=s, dst=d, mtype=t, mlen=(k * 5) % 25, tmo=list(TIMEOUTS[k % 2]), cost=0, lat=0, seed=seed, id0=(k * 977) & 0xFFFF,
                                    max_execs=20000, mesh=[s], pre_type=pre)], 3 if deep else 2))
    # one header object used twice (same frame id): the second message's fate is explored after an acknowledged first one
    for (s, d) in ((O("1"), O("2")), (O("11"), O("2")), (O("0"), O("11"))):
        for t in (65, 127, 1):
            k += 1
            items.append(([dict(src=s, dst=d, mtype=t, mlen=(k * 5) % 25, tmo=list(TIMEOUTS[0]), cost=0, lat=0, seed=seed, id0=(k * 977) & 0xFFFF,
                                max_execs=20000, same_header=True)], 3 if deep else 2))
    # third fault kind: every hardware ACK of a frame hop lost (frame delivered, its sender sees a failure)
    for (s, d) in ROUTES:
        hops = len(N.tree_path(s, d)) - 1
        for tmo in (TIMEOUTS[:1] if tier == "quick" else TIMEOUTS[:2]):
            for t in ((65, 1) if tier == "quick" else (65, 127, 1, 191, 192)):
                k += 1
                b = 2 if hops <= 6 else 1
                if deep:
                    b = 3 if hops <= 3 else 2
                items.append(([dict(src=s, dst=d, mtype=t, mlen=(k * 5) % 25, tmo=list(tmo), cost=0, lat=0, seed=seed, id0=(k * 977) & 0xFFFF,
                                    max_execs=20000, ack_faults=True)], b))
    # all 256 types on a 2-hop route (loss-free + every single failure point; thorough: + pairs, 2 more routes)
    for (s, d) in ((O("1"), O("2")),) + (((O("11"), O("0")), (O("0"), O("22"))) if tier == "thorough" else ()):
        for t0 in range(0, 256, 8):
            items.append(([dict(src=s, dst=d, mtype=t, mlen=t % 25, tmo=[25, 75], cost=0, lat=0, seed=seed, id0=t * 3) for t in range(t0, t0 + 8)],
                          3 if deep else 2))
    # the route_timeout window starts when the first hop ACCEPTED the frame: sweep route_timeout against
    # a first hop that only answers after 20 ms (of tx_timeout 25) and slow relays (10 ms poll latency)
    for (s, d) in ((O("1"), O("2")), (O("11"), O("2"))):
        for dly in (0, 20):
            cs = [dict(src=s, dst=d, mtype=66, mlen=4, tmo=[25, rt], cost=0, lat=3, seed=seed, id0=rt, first_hop_delay_ms=dly)
                  for rt in range(24, 84, 2 if tier == "quick" else 1)]
            items.append((cs, 0))
    # cross traffic: a foreign NETWORK_ACK is routed through an origin that waits for its own
    for start in (0, 2, 5, 10, 20, 40):
        for first, second in ((O("1"), O("11")), (O("11"), O("1"))):
            items.append(([dict(senders=[[first, O("2"), 66, 0], [second, O("2"), 67, start]], tmo=[25, 75], cost=0, lat=0, seed=seed, id0=start)],
                          3 if deep else 2))
    # (the same with multicasting switched off on the node the foreign NETWORK_ACK is routed through)
    for start in (0, 2, 5, 10, 20, 40):
        for first, second in ((O("1"), O("11")), (O("11"), O("1"))):
            items.append(([dict(senders=[[first, O("2"), 66, 0], [second, O("2"), 67, start]], tmo=[25, 75], cost=0, lat=0, seed=seed, id0=start,
                                nomc=[O("1")] if start % 4 else [O("1"), O("11"), O("0")])], 3 if deep else 2))
    # ... and a message FOR the waiting origin arrives right behind its NETWORK_ACK (both forwarded by the common relay 0o1)
    for start in ([0, 1, 2, 3, 4, 5, 6, 8, 10] if tier == "quick" else list(range(0, 16))):
        for lat in (0, 1, 2):
            items.append(([dict(senders=[[O("11"), O("2"), 66, 0], [O("21"), O("11"), 5, start]], tmo=[25, 75], cost=0, lat=lat, seed=seed, id0=start + 100)], 0))
    # (the same with fast relays, 12 us per SPI transaction, and a slow origin, 300 us: both frames are then in the
    # origin's RX FIFO within one drain; start offsets in steps of 0.5 ms)
    for lat in (0, 1, 2):
        cs = [dict(senders=[[O("11"), O("2"), 66, 0], [O("21"), O("11"), 5, h / 2.0]], tmo=[25, 75], cost=1, lat=lat, seed=seed, id0=h + 200, slow=[O("11")])
              for h in range(0, 30 if tier == "quick" else 60)]
        items.append((cs, 0))
    # a child's frame that the waiting origin must FORWARD sits in its RX FIFO ahead of its own NETWORK_ACK, and that nested
    # forward fails (slow origin 0o1, fast relays; every single failure point): the acknowledgement already received must survive
    for lat in (0, 1, 2):
        for h0 in range(0, 40, 8):
            cs = [dict(senders=[[O("1"), O("2"), 66, 0], [O("11"), O("0"), 5, h / 2.0]], tmo=[25, 75], cost=1, lat=lat, seed=seed, id0=h + 300, slow=[O("1")])
                  for h in range(h0, h0 + 8)]
            items.append((cs, 1))
    # multicasts of ack-range types never cause a NETWORK_ACK
    for lvl in (0, 1, 2):
        items.append(([dict(src=O("1"), dst=O("0"), mtype=t, mlen=3, tmo=[25, 75], cost=0, lat=0, seed=seed, id0=9, multicast=True, multicast_level=lvl)
                       for t in (65, 127, 150)], 0))
    return items


def run(tier, seed, rep, only=None):
    items = build_items(tier, seed)
    items.sort(key=lambda it: -(it[1] * 100 + len(it[0])))
    pmap(w_cases, items, rep)
    rep.states += len(rep.nontrivial)
    rep.sample({"case": items[0][0][0], "explored": "loss-free run + every choice of failing frame hop(s) up to the deviation bound"})
    return dict(
        level="fault_enumeration",
        exhaustive=True,
        rule="per frame hop (one node transmitting one network frame to its next hop, all its radio-level retransmissions included) the environment "
             "chooses delivered / lost for good (/ delivered but all its hardware ACKs lost, in the ack_faults cases); the loss-free execution plus EVERY set of failure points up to the stated size of "
             "each (route, type, timeout setting) case is executed with all nodes running the real code. Non-trivial = distinct (case, failure set).",
        bounds=dict(routes=["%o->%o" % r for r in ROUTES], timeouts=[list(t) for t in TIMEOUTS], all_256_types_on="1->2 (2 hops)",
                    failure_points_per_execution="3 on routes <= 3 hops, 2 elsewhere (1 on 8-hop routes in the non-default timing classes); 2 in the ack_faults / all-types / cross / same-header parts" if tier == "quick" else
                    "4 on routes <= 3 hops, 3 elsewhere in the default timing class (3 / 2 in the others); 3 in the all-types / cross / same-header parts, 3 / 2 in the ack_faults part"),
        trusted_base=["vf/sim.py", "vf/net.py"],
        assumptions=["cross-traffic part (two origins, the second one's NETWORK_ACK routed through the first): only the safety clause True => own NETWORK_ACK arrived, exceptions and termination are judged",
                     "a lost frame hop stays lost (every retransmission of that frame by that node is dropped); in the ack_faults cases the environment may instead drop every hardware ACK of a frame hop "
                     "(frame delivered, sender sees a failed transmission) - there 'the node that delivers' means the node whose radio saw the acknowledgement of the delivery",
                     "NETWORK_ACK arrival within +-3 ms of the route_timeout deadline accepts either return value"],
        min_outcomes=6,
    )


def replay(data):
    r = data["replay"]
    case = r["case"]
    if "senders" in case:
        obs = run_cross(case, Chooser([tuple(t) for t in r.get("choices", [])]))
        print(obs)
        viol = judge_cross(case, obs, data.get("property", PID))
        want = data.get("signature")
        return [(s, w) for s, w in viol if s == want] or viol
    obs = run_case(case, Chooser([tuple(t) for t in r.get("choices", [])]))
    print({k: v for k, v in obs.items() if k not in ("msg", "queues")})
    viol = judge(case, obs, data.get("property", PID))
    want = data.get("signature")
    return [(s, w) for s, w in viol if s == want] or viol
