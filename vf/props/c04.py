"""C04 - tree routing connects all 781 addresses; pipe addresses never collide.

E-ENUM over the routing transition system: states (node, destination), one transition each =
the node's own next-hop decision, observed as the 5-byte address of the first packet a real
RF24Network node puts on the simulated air (thorough: all 609 180; quick: all 609 180 through the
node's decision function called directly, bound to the on-air observation on 41 nodes x 780
destinations).  The listening map (physical address -> listening (node, pipe)) is read from the
simulated registers of 781 really constructed nodes.  Oracle: vf.ref.route."""
from .. import harness as H
from ..engine import pmap
from ..ref import route as R
from ..sim import World, HarnessError, Abort

PID = "C04"
TX_NORMAL = 0  # constants.rst: "Send a routed message"

ADDRS = R.all_addresses()
INDEX = {a: i for i, a in enumerate(ADDRS)}

# filled in by the parent process between the phases; inherited by forked workers
LISTEN = {}  # cfg name -> {physical address: [(node, pipe), ...]}
LEVELADDR = {}  # cfg name -> {level: address}
HOPS = {}  # cfg name -> {node: [observed next hop per destination index]}


def _always(pkt):
    return True


def seed_bytes(seed):
    """7 distinct seed-derived bytes: prefix + 6 suffix bytes"""
    x = (seed * 2654435761 + 0x9E3779B9) & 0xFFFFFFFF
    out = []
    while len(out) < 7:
        x = (x * 1103515245 + 12345) & 0x7FFFFFFF
        b = (x >> 16) & 0xFF
        if b not in out:
            out.append(b)
    return out[0], tuple(out[1:])


def configs(seed):
    sp, ss = seed_bytes(seed)
    sets = (("default", None, None), ("doc-alt", R.DOC_ALT_PREFIX, R.DOC_ALT_SUFFIX), ("seeded", sp, ss))
    out = []
    for name, p, s in sets:
        for mc in (True, False):
            out.append(dict(name="%s/%s" % (name, "mc" if mc else "nomc"), prefix=p, suffix=s, multicast=mc))
    return out


def build(addr, cfg):
    """a real RF24Network node for `addr` on its own radio, configured the documented way"""
    w = World(horizon_ns=10 ** 15).activate()
    node, r = H.mk_node(w, addr)
    if cfg["prefix"] is not None or not cfg["multicast"]:
        if cfg["prefix"] is not None:
            node.address_prefix = bytearray([cfg["prefix"]])
            node.address_suffix = bytearray(cfg["suffix"])
        if not cfg["multicast"]:
            node.allow_multicast = False
        node.node_address = addr  # re-assign so the new physical addresses are used (topology.rst)
    w.phantom_ack = _always
    return w, node, r


def cfg_bytes(cfg):
    return (R.DEFAULT_PREFIX if cfg["prefix"] is None else cfg["prefix"],
            R.DEFAULT_SUFFIX if cfg["suffix"] is None else tuple(cfg["suffix"]))


# ---------------------------------------------------------------- phase A: listening map from registers
def w_listen(item, rep):
    cfg, addrs = item
    for a in addrs:
        w, node, r = build(a, cfg)
        w.advance(200000)
        pipes = [r.pipe_addr(p) for p in range(6)]
        lvl = R.level(a)
        data = {"part": "registers", "cfg": cfg, "node": a}
        rep.case()
        rep.transitions += 1
        rep.traces += 1
        if r.r[0x02] & 0x3F != 0x3F:
            rep.violation("%s/pipes-not-open:L%d" % (PID, lvl), "node 0o%o has EN_RXADDR=0x%02x after construction" % (a, r.r[0x02]), data)
        if r.aw() != 5:
            rep.violation("%s/address-width:L%d" % (PID, lvl), "node 0o%o uses %d-byte addresses" % (a, r.aw()), data)
        if not (r.pwr() and r.prx() and r.ce_pin.value):
            rep.violation("%s/not-listening:L%d" % (PID, lvl), "node 0o%o is not in RX mode after construction" % a, data)
        if len({p[0] for p in pipes}) != 6:
            rep.violation("%s/pipe-byte0-clash:L%d" % (PID, lvl), "node 0o%o pipes share a first byte: %s" % (a, [p.hex() for p in pipes]), data)
        # what the node *means* pipes 1-5 to be (its own translation, called directly) must be what the
        # hardware can hold: identical to pipe 1 except for byte 0
        for p in range(1, 6):
            want = bytes(node._pipe_address(a, p))
            if want != pipes[p]:
                rep.violation("%s/pipe-hw-constraint:L%d:pipe%d" % (PID, lvl, p),
                              "node 0o%o wants pipe %d on %s but the radio listens on %s (pipes 2-5 share bytes 1-4 of pipe 1)"
                              % (a, p, want.hex(), pipes[p].hex()), data)
                break
        # the documentation's formula (default and alternative byte sets are documented)
        pre, suf = cfg_bytes(cfg)
        for p in range(6):
            if pipes[p] != R.pipe_address(a, p, pre, suf, cfg["multicast"]):
                rep.violation("%s/documented-address:L%d:pipe%s" % (PID, lvl, "0" if p == 0 else "1-5"),
                              "node 0o%o pipe %d listens on %s, topology.rst gives %s"
                              % (a, p, pipes[p].hex(), R.pipe_address(a, p, pre, suf, cfg["multicast"]).hex()), data)
                break
        rep.notes["A|%s|%d" % (cfg["name"], a)] = pipes
        rep.part("registers", nodes=1)


def w_coexist(item, rep):
    """several node objects of different networks in one process (docs/network_docs/topology.rst, "2 separate networks" /
    the hopping node): B gets other address bytes - assigned as new bytearrays or changed IN PLACE (the attributes are
    documented as mutable bytearrays) - while A (built before) and C (built after) keep the defaults.  Every object's
    registers and translations follow its OWN bytes."""
    how, addrs, seed = item
    sp, ss = seed_bytes(seed)
    for a in addrs:
        wA, A, rA = build(a, dict(prefix=None, suffix=None, multicast=True))
        wB = World(horizon_ns=10 ** 15).activate()
        B, rB = H.mk_node(wB, a)
        if how == "assign":
            B.address_prefix = bytearray([sp])
            B.address_suffix = bytearray(ss)
        else:
            B.address_prefix[0] = sp
            B.address_suffix[:] = bytes(ss)
        B.node_address = a
        wC, C, rC = build(a, dict(prefix=None, suffix=None, multicast=True))
        A.node_address = a  # (what a hopping application does when it comes back to network A)
        rep.case()
        rep.transitions += 3
        rep.traces += 1
        for nm, node, r, pre, suf in (("A (defaults, built before)", A, rA, R.DEFAULT_PREFIX, R.DEFAULT_SUFFIX), ("B (own bytes)", B, rB, sp, tuple(ss)),
                                      ("C (defaults, built after)", C, rC, R.DEFAULT_PREFIX, R.DEFAULT_SUFFIX)):
            got = [r.pipe_addr(p) for p in range(6)]
            want = [R.pipe_address(a, p, pre, suf, True) for p in range(6)]
            child = a | (3 << (3 * R.level(a))) if R.level(a) < 4 else R.parent(a)
            tn, tp, _ = node._logi_2_phys(child, TX_NORMAL)
            tx_got, tx_want = bytes(node._pipe_address(tn, tp)), R.pipe_address(tn, tp, pre, suf, True)
            if got != want or tx_got != tx_want:
                rep.violation("%s/address-bytes-leak:%s:%s" % (PID, how, nm[0]),
                              "node 0o%o of network %s: pipes %s, its own bytes give %s; frames for 0o%o go to %s, its own bytes give %s"
                              % (a, nm, [x.hex() for x in got], [x.hex() for x in want], child, tx_got.hex(), tx_want.hex()),
                              {"part": "coexist", "how": how, "node": a, "seed": seed})
                break
        rep.outcome("coexist:%s:L%d" % (how, R.level(a)))
    rep.part("coexist", nodes=len(addrs))


def check_listen_map(cfg, rep):
    """injectivity / level sharing over all 781 x 6 (node, pipe)"""
    name = cfg["name"]
    m = {}
    for a in ADDRS:
        pipes = rep.notes["A|%s|%d" % (name, a)]
        for p, ad in enumerate(pipes):
            m.setdefault(bytes(ad), []).append((a, p))
    LISTEN[name] = m
    lv = {}
    for ad, ls in m.items():
        p0 = [x for x in ls if x[1] == 0]
        px = [x for x in ls if x[1] != 0]
        data = {"part": "registers", "cfg": cfg, "address": ad, "listeners": ls[:8]}
        rep.case()
        if px and len(ls) > 1:
            other = [x for x in ls if x != px[0]][0]
            shape = "pipe0" if other[1] == 0 else ("same-node" if other[0] == px[0][0] else "other-node")
            rep.violation("%s/address-collision:L%d:%s" % (PID, R.level(px[0][0]), shape),
                          "address %s is pipe %d of node 0o%o and pipe %d of node 0o%o" % (ad.hex(), px[0][1], px[0][0], other[1], other[0]), data)
            rep.outcome("map:collision")
            continue
        if p0:
            lvls = {R.level(a) for a, _ in p0}
            if cfg["multicast"]:
                members = {a for a, _ in p0}
                want = {a for a in ADDRS if R.level(a) in lvls}
                if len(lvls) != 1 or members != want:
                    rep.violation("%s/level-address:%s" % (PID, "levels-mixed" if len(lvls) != 1 else "level-incomplete"),
                                  "pipe-0 address %s is shared by %d nodes of level(s) %s" % (ad.hex(), len(p0), sorted(lvls)), data)
                else:
                    lv[lvls.pop()] = ad
                    rep.outcome("map:level-address-shared-by-%d" % len(p0))
            else:
                if len(p0) != 1:
                    rep.violation("%s/pipe0-not-unique:L%d" % (PID, min(lvls)),
                                  "allow_multicast off: pipe-0 address %s is shared by %d nodes" % (ad.hex(), len(p0)), data)
                rep.outcome("map:pipe0-unique")
        else:
            rep.outcome("map:pipe1-5-unique")
    if cfg["multicast"]:
        if sorted(lv) != [0, 1, 2, 3, 4]:
            rep.violation("%s/level-address:missing" % PID, "levels with one shared pipe-0 address: %s" % sorted(lv), {"part": "registers", "cfg": cfg})
        LEVELADDR[name] = lv
    rep.part("listen-map", addresses=len(m))


# ---------------------------------------------------------------- phase B: next hop per (node, destination)
def probe_air(w, node, r, d):
    """write a probe frame for d; -> address of the first data packet on the air (or None)"""
    del w.airlog[:]
    frame = H.RF24NetworkFrame(H.RF24NetworkHeader(d, 0), b"")
    ok = node.write(frame)
    for p in w.airlog:
        if not p.is_ack and p.src is r:
            return p.addr, ok
    return None, ok


def judge_hop(cfg, n, d, addr, rep, how):
    """one (node, destination) state; -> observed next hop (or -1)"""
    name = cfg["name"]
    want = R.next_hop(n, d)
    ln = R.level(n)
    rel = R.relation(n, d)
    data = {"part": "hop", "cfg": cfg, "node": n, "dst": d, "how": how}
    if addr is None:
        rep.violation("%s/nothing-transmitted:L%d:%s" % (PID, ln, rel), "node 0o%o transmitted nothing for destination 0o%o" % (n, d), data)
        return -1
    ls = LISTEN[name].get(bytes(addr), [])
    if not ls:
        rep.violation("%s/nobody-listens:L%d:%s" % (PID, ln, rel),
                      "node 0o%o sends frames for 0o%o to %s where no node of the address space listens (next hop 0o%o)"
                      % (n, d, bytes(addr).hex(), want), data)
        return -1
    if any(p == 0 for _, p in ls):
        rep.violation("%s/unicast-to-pipe0:L%d:%s" % (PID, ln, rel),
                      "node 0o%o sends frames for 0o%o to pipe-0 address %s" % (n, d, bytes(addr).hex()), data)
        return -1
    if len(ls) > 1:
        rep.violation("%s/hop-address-shared:L%d:%s" % (PID, ln, rel),
                      "node 0o%o sends frames for 0o%o to %s where %d (node, pipe) listen" % (n, d, bytes(addr).hex(), len(ls)), data)
        return -1
    got, pipe = ls[0]
    if got != want:
        rep.violation("%s/next-hop:L%d:%s" % (PID, ln, rel),
                      "node 0o%o hands frames for 0o%o to node 0o%o (pipe %d), the tree path continues at 0o%o" % (n, d, got, pipe, want), data)
    return got


def w_hops(item, rep):
    cfg, srcs, air = item
    name = cfg["name"]
    for n in srcs:
        w, node, r = build(n, cfg)
        w.advance(200000)
        row = []
        ln = R.level(n)
        on_air = air == "all" or n in air
        nhops = set()
        for d in ADDRS:
            if d == n:
                row.append(n)
                continue
            try:
                if on_air:
                    addr, ok = probe_air(w, node, r, d)
                    rep.traces += 1
                    if not ok and addr is not None:
                        rep.violation("%s/write-false:L%d:%s" % (PID, ln, R.relation(n, d)),
                                      "write() at 0o%o for 0o%o returned False although the hop was acknowledged" % (n, d),
                                      {"part": "hop", "cfg": cfg, "node": n, "dst": d, "how": "air"})
                if air != "all":
                    tn, tp, _ = node._logi_2_phys(d, TX_NORMAL)
                    daddr = bytes(node._pipe_address(tn, tp))
                    if on_air:
                        rep.part("hops", bound_to_air=1)
                        if addr != daddr:
                            rep.violation("%s/direct-call-vs-air:L%d:%s" % (PID, ln, R.relation(n, d)),
                                          "node 0o%o for 0o%o: decision function gives %s, the packet on the air went to %s"
                                          % (n, d, daddr.hex(), None if addr is None else addr.hex()),
                                          {"part": "hop", "cfg": cfg, "node": n, "dst": d, "how": "air"})
                    else:
                        addr = daddr
            except (HarnessError, Abort):
                raise
            except Exception as e:  # noqa
                rep.violation("%s/raises-%s:L%d:%s" % (PID, type(e).__name__, ln, R.relation(n, d)),
                              "routing 0o%o -> 0o%o raised %r" % (n, d, e), {"part": "hop", "cfg": cfg, "node": n, "dst": d, "how": "air" if on_air else "direct"})
                row.append(-1)
                continue
            got = judge_hop(cfg, n, d, addr, rep, "air" if on_air else "direct")
            row.append(got)
            nhops.add(got)
            rep.outcome("hop:L%d:%s" % (ln, R.relation(n, d)))
        rep.case(len(ADDRS) - 1)
        rep.transitions += len(ADDRS) - 1
        rep.states += len(ADDRS) - 1
        rep.part("hops", states=len(ADDRS) - 1, on_air=(len(ADDRS) - 1) if on_air else 0)
        for h in nhops:
            rep.nt("%s|%o>%o" % (name, n, h))
        rep.notes["B|%s|%d" % (name, n)] = row
        if cfg["multicast"]:
            multicast_checks(cfg, w, node, r, n, rep)
            if on_air:
                alternate_checks(cfg, w, node, r, n, row, rep)
        if cfg["multicast"] and cfg["prefix"] is None:
            # the next hop of a unicast frame must not depend on the (public) multicast_level override
            for override in sorted({(ln + 1) % 5, 0 if ln else 3}):
                try:
                    node.multicast_level = override
                except Exception as e:  # noqa
                    rep.violation("%s/raises-%s:multicast_level" % (PID, type(e).__name__), "multicast_level = %d at 0o%o raised %r" % (override, n, e),
                                  {"part": "hop-mclevel", "cfg": cfg, "node": n, "override": override})
                    break
                for k, d in enumerate(ADDRS):
                    if d == n or row[k] == -1:
                        continue
                    try:
                        if on_air and k % 13 == 0:
                            addr, _ = probe_air(w, node, r, d)
                            rep.traces += 1
                        else:
                            tn, tp, _ = node._logi_2_phys(d, TX_NORMAL)
                            addr = bytes(node._pipe_address(tn, tp))
                    except (HarnessError, Abort):
                        raise
                    except Exception as e:  # noqa
                        addr = None
                    ls = LISTEN[name].get(bytes(addr), []) if addr is not None else []
                    got = ls[0][0] if len(ls) == 1 and ls[0][1] != 0 else -1
                    rep.transitions += 1
                    if got != row[k]:
                        rep.violation("%s/next-hop-depends-on-multicast-level:L%d:%s" % (PID, ln, R.relation(n, d)),
                                      "node 0o%o with multicast_level=%d hands frames for 0o%o to %s, with its own level to 0o%o"
                                      % (n, override, d, ("0o%o" % got) if got != -1 else (addr.hex() if addr else None), row[k]),
                                      {"part": "hop-mclevel", "cfg": cfg, "node": n, "dst": d, "override": override})
                        break
                rep.outcome("hop:multicast-level-override")


def alternate_checks(cfg, w, node, r, n, row, rep):
    """histories: a multicast to every level followed by a unicast to every distinct next hop of the node, and that
    unicast followed by the multicast again - the address of a transmission does not depend on the previous one"""
    name = cfg["name"]
    lv = LEVELADDR.get(name)
    if not lv or len(lv) != 5:
        return
    ln = R.level(n)
    firsts = {}
    for k, d in enumerate(ADDRS):
        if d != n and row[k] not in (-1, n) and row[k] not in firsts:
            firsts[row[k]] = (k, d)  # one destination per distinct next hop
    for L in (0, 1, 2, 3, 4):
        for hop, (k, d) in sorted(firsts.items()):
            data = {"part": "alternate", "cfg": cfg, "node": n, "level": L, "dst": d}
            try:
                node.multicast(b"mc", 1, L)
                addr, _ = probe_air(w, node, r, d)
                del w.airlog[:]
                node.multicast(b"mc", 1, L)
                pk = [p for p in w.airlog if not p.is_ack and p.src is r]
            except (HarnessError, Abort):
                raise
            except Exception as e:  # noqa
                rep.violation("%s/raises-%s:alternate" % (PID, type(e).__name__), "multicast(level=%d) / write to 0o%o at 0o%o raised %r" % (L, d, n, e), data)
                continue
            while len(node.queue):
                node.queue.dequeue()
            rep.case()
            rep.transitions += 3
            rep.traces += 1
            ls = LISTEN[name].get(bytes(addr), []) if addr is not None else []
            got = ls[0][0] if len(ls) == 1 and ls[0][1] != 0 else -1
            if got != hop:
                rep.violation("%s/hop-after-multicast:L%d:%s" % (PID, ln, R.relation(n, d)),
                              "node 0o%o right after multicast(level=%d) sends frames for 0o%o to %s, before that to node 0o%o"
                              % (n, L, d, None if addr is None else bytes(addr).hex(), hop), data)
            if pk and pk[0].addr != lv[L]:
                rep.violation("%s/multicast-after-unicast:L%d" % (PID, L),
                              "node 0o%o right after a unicast via 0o%o: multicast(level=%d) was transmitted to %s, level %d listens on %s"
                              % (n, hop, L, pk[0].addr.hex(), L, lv[L].hex()), data)
            rep.outcome("alternate:L%d" % L)
    rep.part("alternate", nodes=1)


def multicast_checks(cfg, w, node, r, n, rep):
    """(3) a multicast addressed to level L goes to exactly the level-L pipe-0 address"""
    name = cfg["name"]
    lv = LEVELADDR.get(name)
    if not lv or len(lv) != 5:
        return
    ln = R.level(n)
    for L in (None, 0, 1, 2, 3, 4):
        target = ln if L is None else L
        del w.airlog[:]
        q0 = len(node.queue)
        data = {"part": "multicast", "cfg": cfg, "node": n, "level": L}
        try:
            node.multicast(b"mc", 1, L)
        except (HarnessError, Abort):
            raise
        except Exception as e:  # noqa
            rep.violation("%s/multicast-raises-%s:L%d" % (PID, type(e).__name__, ln), "multicast(level=%r) at 0o%o raised %r" % (L, n, e), data)
            continue
        rep.case()
        rep.transitions += 1
        rep.traces += 1
        pk = [p for p in w.airlog if not p.is_ack and p.src is r]
        looped = len(node.queue) - q0
        while len(node.queue):
            node.queue.dequeue()
        if not pk:
            own = target == ln
            rep.violation("%s/multicast-not-transmitted:%s" % (PID, "own-level" if own else "L%d-to-L%d" % (ln, target)),
                          "node 0o%o multicast(level=%r): nothing on the air (%d frame(s) looped back into its own queue)"
                          % (n, L, looped), data)
            rep.outcome("mc:not-transmitted")
            continue
        if pk[0].addr != lv[target]:
            actual = [k for k, v in lv.items() if v == pk[0].addr]
            rep.violation("%s/multicast-address:L%d-sent-to-%s" % (PID, target, ("L%d" % actual[0]) if actual else "no-level"),
                          "node 0o%o multicast(level=%r) was transmitted to %s, level %d listens on %s" % (n, L, pk[0].addr.hex(), target, lv[target].hex()), data)
            rep.outcome("mc:wrong-address")
            continue
        if any(p.addr != lv[target] for p in pk):
            rep.violation("%s/multicast-address:extra-packet" % PID, "node 0o%o multicast(level=%r) also transmitted to another address" % (n, L), data)
        rep.outcome("mc:L%d-to-L%d" % (ln, target))
        rep.part("multicast", sent=1)


# ---------------------------------------------------------------- phase C: compose hops
def walk_one(cfg, tab, s, d, rep):
    i = INDEX[d]
    cur, hops = s, [s]
    while cur != d and len(hops) <= 9:
        cur = tab[cur][i] if cur in tab else -1
        if cur == -1:
            break
        hops.append(cur)
    want = R.path(s, d)
    if hops != want:
        shape = "lost" if cur == -1 else ("too-long" if len(hops) - 1 > 8 else "off-path")
        bad = next((k for k, (x, y) in enumerate(zip(hops, want)) if x != y), min(len(hops), len(want)))
        at = hops[max(0, bad - 1)]
        rep.violation("%s/route-%s:L%d:%s" % (PID, shape, R.level(at), R.relation(at, d) if at != d else "self"),
                      "0o%o -> 0o%o travels %s, the tree path is %s" % (s, d, [oct(x) for x in hops], [oct(x) for x in want]),
                      {"part": "walk", "cfg": cfg, "src": s, "dst": d})
    else:
        rep.outcome("route:%d-hops" % (len(hops) - 1))


def w_walk(item, rep):
    cfg, srcs = item
    tab = HOPS[cfg["name"]]
    for s in srcs:
        for d in ADDRS:
            if d != s:
                walk_one(cfg, tab, s, d, rep)
        rep.case(len(ADDRS) - 1)
        rep.part("walk", routes=len(ADDRS) - 1)


def air_nodes(seed):
    """quick tier: every node of levels 0-2 and one node per (level, own digit) class of levels 3-4"""
    out = {a for a in ADDRS if R.level(a) <= 2}
    x = seed * 31 + 7
    for lvl in (3, 4):
        for dg in range(1, 6):
            a = 0
            for k in range(lvl - 1):
                x = (x * 1103515245 + 12345) & 0x7FFFFFFF
                a |= (1 + (x >> 8) % 5) << (3 * k)
            out.add(a | (dg << (3 * (lvl - 1))))
    return out


def chunks(seq, k):
    seq = list(seq)
    return [seq[i:i + k] for i in range(0, len(seq), k)]


def run(tier, seed, rep, only=None):
    bad = R.selfcheck()
    if bad:
        raise HarnessError("reference route model inconsistent: %r" % bad)
    cfgs = configs(seed)
    if only:
        cfgs = [c for c in cfgs if any(o in c["name"] for o in only.split(","))] or cfgs
    air = "all" if tier == "thorough" else air_nodes(seed)
    for cfg in cfgs:
        pmap(w_listen, [(cfg, ch) for ch in chunks(ADDRS, 28)], rep)
        check_listen_map(cfg, rep)
        rep.states += 781
    if not only:
        co = [a for a in ADDRS if a in (0, 0o1, 0o5, 0o23, 0o45, 0o123, 0o345, 0o1234, 0o5432)] if tier == "quick" else list(ADDRS)
        pmap(w_coexist, [(how, ch, seed) for how in ("assign", "inplace") for ch in chunks(co, 60)], rep)
    # heavy nodes (on-air) first for load balance
    order = sorted(ADDRS, key=lambda a: (0 if (air == "all" or a in air) else 1, a))
    items = []
    for cfg in cfgs:
        heavy = [a for a in order if air == "all" or a in air]
        light = [a for a in order if not (air == "all" or a in air)]
        items += [(cfg, ch, air) for ch in chunks(heavy, 4 if air != "all" else 8)]
        items += [(cfg, ch, air) for ch in chunks(light, 40)]
    items.sort(key=lambda it: -len(it[1]) * (20 if (air == "all" or it[1][0] in air) else 1))
    pmap(w_hops, items, rep)
    for cfg in cfgs:
        HOPS[cfg["name"]] = {a: rep.notes.pop("B|%s|%d" % (cfg["name"], a)) for a in ADDRS}
    pmap(w_walk, [(cfg, ch) for cfg in cfgs for ch in chunks(ADDRS, 56)], rep)
    for k in [k for k in rep.notes if k.startswith("A|")]:
        del rep.notes[k]
    rep.sample({"cfg": cfgs[-1], "node": "0o123", "pipes": [p.hex() for p in (R.pipe_address(0o123, i, *cfg_bytes(cfgs[-1]), multicast=cfgs[-1]["multicast"]) for i in range(6))]})
    rep.sample({"route": "0o124 -> 0o3", "path": [oct(x) for x in R.path(0o124, 0o3)]})
    n_air = 781 if air == "all" else len(air)
    return dict(
        level="model_checking",
        exhaustive=True,
        rule="E-ENUM over the routing transition system: all 781 x 780 = 609 180 (node, destination) states per configuration, one "
             "transition each = the next hop, identified as the unique (node, pipe) that listens (simulated registers of 781 really "
             "constructed nodes) on the 5-byte address of the first packet of a real write(); "
             + ("every state observed on the air" if tier == "thorough" else
                "quick tier: every state through the node's own decision function called directly, and on the air for all 780 "
                "destinations of %d nodes (levels 0-2 complete, one node per (level, own digit) class of levels 3-4) with the two "
                "required to agree" % n_air)
             + "; then all 609 180 routes composed hop by hop and compared with the unique tree path (<= 8 hops). Listening map over "
               "all 781 x 6 (node, pipe): injective on pipes 1-5, pipe 0 = exactly one level (allow_multicast) / unique (off). "
               "multicast(level=None,0..4) from every node (allow_multicast on): first packet's address == that level's pipe-0 address. "
               "6 configurations = {default, documentation's alternative, seed-derived 7 distinct bytes} x allow_multicast on/off; in the default configuration every node's decisions are repeated with two multicast_level overrides (must not change any next hop). "
               "non-trivial = distinct (configuration, node, next hop) edges used. Histories on the on-air nodes: multicast to each level, then a unicast to each distinct next hop, then the multicast again (addresses do not depend on the previous transmission). Coexisting networks: three node objects in one process (defaults / own address bytes assigned or changed in place / defaults), each following its own bytes.",
        bounds=dict(addresses=781, states_per_config=609180, configurations=[c["name"] for c in cfgs], on_air_nodes=n_air,
                    multicast_levels="None,0..4"),
        trusted_base=["vf/sim.py (register file, address registers, air)", "vf/ref/route.py (tree model from docs/network_docs/topology.rst)"],
        assumptions=["probe frames are empty type-0 frames (the next hop does not depend on type or length: C11/C05 cover those)",
                     "every hop is acknowledged (world.phantom_ack): routing decisions only, no loss",
                     "address_prefix and the six address_suffix bytes are pairwise distinct (documented requirement for unique addresses)"]
                    + (["quick tier trusts the direct call of the node's decision function for the nodes not probed on the air"] if tier != "thorough" else []),
        min_outcomes=20,
    )


def replay(data):
    r = data["replay"]
    cfg = r["cfg"]
    from ..engine import Report
    rep = Report()
    # the listening map of the whole address space is needed for every verdict
    for ch in chunks(ADDRS, 100):
        w_listen((cfg, ch), rep)
    check_listen_map(cfg, rep)
    if r["part"] == "hop":
        n, d = r["node"], r["dst"]
        w, node, rr = build(n, cfg)
        if r.get("how") == "direct":
            tn, tp, _ = node._logi_2_phys(d, TX_NORMAL)
            addr = bytes(node._pipe_address(tn, tp))
        else:
            addr, ok = probe_air(w, node, rr, d)
            tn, tp, _ = node._logi_2_phys(d, TX_NORMAL)
            if addr != bytes(node._pipe_address(tn, tp)):
                rep.violation("%s/direct-call-vs-air:L%d:%s" % (PID, R.level(n), R.relation(n, d)), "direct call and air disagree", {})
        print("node 0o%o -> 0o%o: first packet to %s, listeners %s, reference next hop 0o%o"
              % (n, d, None if addr is None else addr.hex(), LISTEN[cfg["name"]].get(addr), R.next_hop(n, d)))
        judge_hop(cfg, n, d, addr, rep, r.get("how"))
    elif r["part"] == "hop-mclevel":
        # re-run the whole row of this node (own level, then the overrides)
        global ADDRS_REPLAY
        w_hops((cfg, [r["node"]], set()), rep)
    elif r["part"] == "coexist":
        w_coexist((r["how"], [r["node"]], r["seed"]), rep)
    elif r["part"] == "alternate":
        # re-run the whole row of this node on the air, then the alternating histories
        w_hops((cfg, [r["node"]], {r["node"]}), rep)
    elif r["part"] == "multicast":
        w, node, rr = build(r["node"], cfg)
        multicast_checks(cfg, w, node, rr, r["node"], rep)
    elif r["part"] == "walk":
        nodes = sorted(set(R.path(r["src"], r["dst"])) | {r["src"]})
        rows = Report()
        w_hops((cfg, nodes, "all"), rows)
        tab = {a: rows.notes["B|%s|%d" % (cfg["name"], a)] for a in nodes}
        # follow the observed hops wherever they lead
        cur = r["src"]
        for _ in range(10):
            if cur == r["dst"] or cur == -1:
                break
            if cur not in tab:
                extra = Report()
                w_hops((cfg, [cur], "all"), extra)
                tab[cur] = extra.notes["B|%s|%d" % (cfg["name"], cur)]
            cur = tab[cur][INDEX[r["dst"]]]
        walk_one(cfg, tab, r["src"], r["dst"], rep)
    out = [(s, v["what"]) for s, v in rep.violations.items()]
    want = data.get("signature")
    return [(s, w) for s, w in out if s == want] or out
