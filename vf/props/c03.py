"""C03 - setters program the documented encoding; getters agree; no reserved/out-of-range write; no
foreign field altered; cached view == radio.

E-BFS over configuration calls on ONE real driver object bound to a simulated radio (plus and
non-plus variant): every call sequence of length <= 2 (quick) / <= 3 (thorough) over the full
alphabet (every setter in every accepted input form with in-domain, boundary and out-of-domain
arguments, every getter), plus explicit-state BFS with state merging to depth 4 / 5 inside each
group of attributes that share a register.  Oracle after every call: vf.ref.regs (independent
datasheet/documentation encoder) vs. the simulated radio's register file, the simulator's record
of illegal writes, every getter, and a behavioural cache check (leave and re-enter `with` on a
copy: nothing may change).

Signatures: C03/<clause>:<attribute or method>:<argument class>, clause in
  defaults      register file after construction != documented defaults
  exception     documented exception class missing / undocumented exception raised
  encoding      a field that belongs to the attribute holds another value than documented
  foreign       a register / bit field that does not belong to the attribute was altered
  illegal-write / ro-write   the simulator recorded a reserved / out-of-range value or a write to a read-only register
  cache         a `with` re-entry on a copy changes a register (cached view != radio)
  getter        a getter does not return the value in effect
  exit          __exit__ leaves PWR_UP set or CE high
  restore       the non-plus carrier-wave test's documented recovery (`with`) does not re-establish the settings
The first failing clause (in this order) names the violation and the sequence is cut there.  Per
signature the shortest counterexample (then the first in alphabet order) is recorded, independent of
worker scheduling.

Parameterised by driver class (PROFILES) because C20 re-runs a reduced alphabet on rf24_lite
(`run_setters(tier, seed, rep, cls_name="lite", pid="C20")`).
"""
import copy

from .. import harness as H
from .. import engine
from ..engine import pmap
from ..ref import regs as R
from ..sim import HarnessError, Abort, MS

PID = "C03"

PROFILES = {
    "full": dict(cls="RF24", variant="full", has_with=True),
    "lite": dict(cls="LiteRF24", variant="lite", has_with=False),
}

REENTER = ("with", "reenter", ())  # pseudo call: obj.__exit__(None, None, None); obj.__enter__()


# ---------------------------------------------------------------------------- alphabet
def alphabet(seed, prof="full", plus=True):
    """-> list of entries (kind, name, args, argument class, bfs group or None).
    The seed only varies concrete in-domain values and address bytes."""
    lite = prof == "lite"
    out = []

    def E(kind, name, args, cls, g=None):
        out.append((kind, name, tuple(args), cls, g))

    def S(name, v, cls, g=None):
        E("set", name, (v,), cls, g)

    def C(name, args, cls, g=None):
        E("call", name, args, cls, g)

    def G(name, g=None):
        E("get", name, (), "-", g)

    def P(n, salt):
        b = bytearray(H.pattern(n, seed, salt))
        for i in range(n):  # keep clear of the reset values so that every write is visible
            if b[i] in (0xE7, 0xC2, 0xC3, 0xC4, 0xC5, 0xC6, 0xFF, 0x00):
                b[i] ^= 0x5A
        return bytes(b)

    ch_mid = 1 + (40 + 17 * seed) % 124
    if ch_mid == 76:
        ch_mid = 77
    pl_mid = 2 + (5 + 3 * seed) % 30
    pl_mid2 = 2 + (19 + 7 * seed) % 30
    bits = ((0x15 + 11 * seed) & 0x3F) or 0x15
    if bits == 0x3F:
        bits = 0x2A
    A5, B5, C5, D5, T5, U5 = P(5, 11), P(5, 12), P(5, 13), P(5, 14), P(5, 15), P(5, 16)

    # ---- RF_CH
    for v, c in ((-1, "<0"), (0, "min"), (ch_mid, "in-domain"), (125, "max"), (126, ">125"), (255, ">125")):
        S("channel", v, c)
    G("channel")
    # ---- RF_SETUP
    for v, c, g in ((1, "in-domain", "rf"), (2, "in-domain", "rf"), (250, "in-domain", "rf"), (0, "invalid", "rf"), (3, "invalid", None)):
        S("data_rate", v, c, g)
    G("data_rate", "rf")
    for v in (-18, -12, -6, 0):
        S("pa_level", v, "int", "rf")
    if not lite:
        S("pa_level", (-18, False), "tuple-lna-off", "rf")
        S("pa_level", (-12, True), "tuple-lna-on", "rf")
        S("pa_level", [-6, False], "list-lna-off")
        S("pa_level", (0, False, 9), "tuple3-lna-off")
        S("pa_level", (-5, True), "tuple-invalid-level")
        S("pa_level", (0,), "tuple1")
    S("pa_level", -7, "invalid", "rf")
    S("pa_level", 6, "invalid")
    G("pa_level", "rf")
    if not lite:
        G("is_lna_enabled", "rf")
        C("start_carrier_wave", (), "-", "rf")
        C("stop_carrier_wave", (), "-", "rf")
    # ---- CONFIG
    if not lite:
        for v, c, g in ((0, "in-domain", "cfg"), (1, "in-domain", "cfg"), (2, "in-domain", "cfg"), (3, ">2", "cfg"), (-1, "<0", "cfg")):
            S("crc", v, c, g)
        G("crc", "cfg")
    for v in (True, False):
        S("power", v, str(v), "cfg")
        S("listen", v, str(v), "cfg,pipes")
    G("power", "cfg")
    G("listen", "cfg")
    for r in (True, False):
        for s in (True, False):
            for f in (True, False):
                C("interrupt_config", (r, s, f), "3-bool", "cfg" if (r, s, f) in ((True, True, True), (False, True, True), (True, False, True), (True, True, False), (False, False, False)) else None)
    C("interrupt_config", (), "defaults")
    # ---- SETUP_AW
    for v, c, g in ((3, "in-domain", "pipes"), (4, "in-domain", None), (5, "in-domain", "pipes"), (2, "<3", None), (6, ">5", None), (0, "<3", None)):
        S("address_length", v, c, g)
    G("address_length")
    # ---- SETUP_RETR
    for v, c, g in ((0, "<250", None), (249, "<250", "retr"), (250, "min", "retr"), (499, "not-multiple", "retr"), (500, "in-domain", None),
                    (1500, "in-domain", "retr"), (3999, "not-multiple", None), (4000, "max", "retr"), (4001, ">4000", "retr"), (100000, ">4000", None)):
        S("ard", v, c, g)
    for v, c, g in ((-1, "<0", "retr"), (0, "min", "retr"), (3, "in-domain", "retr"), (15, "max", "retr"), (16, ">15", "retr"), (255, ">15", None)):
        S("arc", v, c, g)
    G("ard", "retr")
    G("arc", "retr")
    if not lite:
        for a, c, g in (((250, 0), "min", "retr"), ((4000, 15), "max", "retr"), ((1000, 3), "in-domain", "retr"), ((0, -1), "below", "retr"),
                        ((5000, 16), "above", "retr"), ((499, 7), "not-multiple", None), ((1500, 15), "values-already-in-effect", "retr")):
            C("set_auto_retries", a, c, g)
        C("get_auto_retries", (), "-", "retr")
    # ---- EN_AA / DYNPD / FEATURE
    forms = ((True, "bool", "feat"), (False, "bool", "feat"), (0, "int", None), (0x3F, "int", None), (bits, "int", "feat"), (0x40, "int-high-bits", None),
             (0xFF, "int-high-bits", None), (-1, "int-negative", None),
             ([1, 0, 1, 0, 1, 0], "list", "feat"), ((0,) * 6, "tuple", None), ([-1, 1, -1, 0], "list-skip", "feat"),
             ([0, 1, 1, 1, 1, 1, 0, 1], "list-long", None), ([], "list-empty", None), ("x", "invalid-type", None))
    if not lite:
        for v, c, g in forms:
            S("auto_ack", v, c, "feat,pipes" if isinstance(v, bool) else g)
        G("auto_ack", "feat")
        for a, c, g in (((True, 0), "pipe0-5", "feat"), ((False, 0), "pipe0-5", "feat"), ((True, 5), "pipe0-5", None), ((False, 5), "pipe0-5", None),
                        ((False, 3), "pipe0-5", None), ((True, None), "pipe-none", None), ((False, None), "pipe-none", None),
                        ((True, -1), "pipe<0", None), ((False, 6), "pipe>5", None), ((True,), "pipe-omitted", None)):
            C("set_auto_ack", a, c, g)
        for a, c in (((0,), "pipe0-5"), ((5,), "pipe0-5"), ((-1,), "pipe<0"), ((6,), "pipe>5"), ((), "pipe-omitted")):
            C("get_auto_ack", a, c, "feat" if a == (0,) else None)
        for v, c, g in forms:
            S("dynamic_payloads", v, c, g)
        for a, c, g in (((True,), "pipe-omitted", None), ((False,), "pipe-omitted", None), ((True, 0), "pipe0-5", "feat"), ((False, 0), "pipe0-5", "feat"),
                        ((True, 5), "pipe0-5", None), ((False, 5), "pipe0-5", None), ((True, None), "pipe-none", None),
                        ((True, -1), "pipe<0", None), ((False, 6), "pipe>5", None)):
            C("set_dynamic_payloads", a, c, g)
        for a, c in (((), "pipe-omitted"), ((5,), "pipe0-5"), ((-1,), "pipe<0"), ((6,), "pipe>5")):
            C("get_dynamic_payloads", a, c, "feat" if a == () else None)
        for v in (True, False):
            S("allow_ask_no_ack", v, str(v), "feat")
        G("allow_ask_no_ack", "feat")
    else:
        for v in (True, False):
            S("dynamic_payloads", v, "bool", "feat")
    G("dynamic_payloads", "feat")
    for v in (True, False):
        S("ack", v, str(v), "feat")
    G("ack", "feat")
    b1, b32 = H.pattern(1, seed, 31), H.pattern(32, seed, 32)
    C("load_ack", (b1, 0), "ok", "feat")
    C("load_ack", (b32, 5), "ok", None)
    C("load_ack", (b"", 0), "len0", None)
    C("load_ack", (b32 + b"\x01", 1), "len33", None)
    C("load_ack", (b1, -1), "pipe<0", None)
    C("load_ack", (b1, 6), "pipe>5", None)
    # ---- RX_PW
    for v, c in ((1, "min"), (32, "max"), (pl_mid, "in-domain"), (0, "<1"), (-1, "<1"), (33, ">32"), (255, ">32")):
        S("payload_length", v, c, "pw" if v in (pl_mid, 33) else None)
    if not lite:
        S("payload_length", [1, 2, 3, 4, 5, 6], "list", "pw")
        S("payload_length", (32, 0, -1, 33, pl_mid2), "tuple-skip-clamp", "pw")
        S("payload_length", [8] * 8, "list-long")
        S("payload_length", "x", "invalid-type")
        for a, c, g in (((pl_mid2,), "in-domain,pipe-omitted", "pw"), ((0,), "len-out-of-range,pipe-omitted", None), ((40,), "len-out-of-range,pipe-omitted", None),
                        ((pl_mid, 0), "in-domain,pipe0-5", "pw"), ((1, 5), "in-domain,pipe0-5", "pw"), ((32, 3), "in-domain,pipe0-5", None),
                        ((0, 1), "len-out-of-range,pipe0-5", None), ((33, 2), "len-out-of-range,pipe0-5", None), ((40, 0), "len-out-of-range,pipe0-5", None),
                        ((255, 4), "len-out-of-range,pipe0-5", None), ((-1, 2), "len-out-of-range,pipe0-5", None),
                        ((8, -1), "pipe<0", None), ((8, 6), "pipe>5", None), ((pl_mid, None), "in-domain,pipe-none", None)):
            C("set_payload_length", a, c, g)
        for a, c in (((), "pipe-omitted"), ((5,), "pipe0-5"), ((-1,), "pipe<0"), ((6,), "pipe>5")):
            C("get_payload_length", a, c, "pw" if a in ((), (5,)) else None)
    G("payload_length", "pw")
    # ---- pipes and addresses
    pe = "pipe"
    for p, addr in enumerate((A5, B5, C5, D5, P(5, 17), P(5, 18))):
        C("open_rx_pipe", (p, addr), "%s%s,len5" % (pe, "0-1" if p < 2 else "2-5"), "pipes" if p in (0, 1, 2, 5) else None)
    for p, base, salt in ((0, A5, 21), (1, B5, 22)):
        for n in (1, 2, 3, 4):
            C("open_rx_pipe", (p, P(n, salt + n)), "pipe0-1,len%d" % n, "pipes" if n == 3 else None)
    C("open_rx_pipe", (2, P(1, 27)), "pipe2-5,len1")
    C("open_rx_pipe", (3, P(3, 28)), "pipe2-5,len3")
    C("open_rx_pipe", (-1, A5), "pipe<0")
    C("open_rx_pipe", (6, A5), "pipe>5")
    C("open_rx_pipe", (0, b""), "len0")
    C("open_rx_pipe", (1, P(6, 29)), "len6")
    for p, c in ((-1, "pipe<0"), (0, "pipe0"), (1, "pipe1-5"), (2, "pipe1-5"), (3, "pipe1-5"), (4, "pipe1-5"), (5, "pipe1-5"), (6, "pipe>5")):
        C("close_rx_pipe", (p,), c, "pipes" if p in (0, 1, 2) else None)
    C("open_tx_pipe", (T5,), "len5", "pipes")
    C("open_tx_pipe", (U5[:3],), "len3", "pipes")
    C("open_tx_pipe", (U5[:1],), "len1")
    C("open_tx_pipe", (P(4, 19),), "len4")
    C("open_tx_pipe", (A5,), "len5", "pipes")  # the address open_rx_pipe(0, A5) uses
    C("open_tx_pipe", (b"",), "len0")
    C("open_tx_pipe", (P(6, 20),), "len6")
    if not lite:
        for a, c in (((), "tx"), ((0,), "pipe0-1"), ((1,), "pipe0-1"), ((2,), "pipe2-5"), ((5,), "pipe2-5"), ((6,), "index>5"), ((-2,), "tx")):
            C("address", a, c, "pipes" if a in ((), (0,)) else None)
        G("is_plus_variant")
        E(*REENTER, "-", "rf,cfg,feat,retr,pw,pipes")
    # feature group needs auto_ack bool too (done above); pipes group needs auto_ack on/off for open_tx_pipe
    if not lite:
        S("auto_ack", 0x3E, "int", "pipes")
    return out


def getter_calls(prof):
    """the getters evaluated after every call (clause c), all in-domain"""
    g = [("call", "address", (i,)) for i in range(-1, 6)] if prof != "lite" else []
    g.append(("get", "payload_length", ()))
    for name in ("channel", "data_rate", "pa_level", "address_length", "ard", "arc", "dynamic_payloads", "ack", "power", "listen"):
        g.append(("get", name, ()))
    if prof != "lite":
        for name in ("is_lna_enabled", "crc", "auto_ack", "allow_ask_no_ack", "is_plus_variant"):
            g.append(("get", name, ()))
        g.append(("call", "get_auto_retries", ()))
        for p in range(6):
            g.append(("call", "get_auto_ack", (p,)))
            g.append(("call", "get_dynamic_payloads", (p,)))
            g.append(("call", "get_payload_length", (p,)))
    return g


GROUPS = ("rf", "cfg", "feat", "retr", "pw", "pipes")


# ---------------------------------------------------------------------------- execution
def build(prof="full", plus=True):
    """fresh world + driver (inside its `with` block) + reference model"""
    w = H.World().activate()
    cls = getattr(H, PROFILES[prof]["cls"])
    drv, radio = H.mk_driver(w, "r", cls=cls, plus=plus)
    if PROFILES[prof]["has_with"]:
        drv.__enter__()
    w.settle()
    ref = R.RegRef(plus=plus, variant=PROFILES[prof]["variant"])
    return [w, drv, radio, ref]


def do_call(drv, call):
    kind, name, args = call
    try:
        if kind == "set":
            v = args[0]
            setattr(drv, name, list(v) if isinstance(v, list) else v)
            return None, None
        if kind == "get":
            return None, getattr(drv, name)
        if kind == "with":
            drv.__exit__(None, None, None)
            drv.__enter__()
            return None, None
        return None, getattr(drv, name)(*args)
    except (HarnessError, Abort):
        raise
    except Exception as e:  # noqa
        return type(e).__name__, None


def same(a, b):
    if isinstance(a, (bytes, bytearray)) or isinstance(b, (bytes, bytearray)):
        try:
            return bytes(a) == bytes(b)
        except TypeError:
            return False
    if isinstance(a, tuple) or isinstance(b, tuple):
        return tuple(a) == tuple(b) if isinstance(a, (tuple, list)) and isinstance(b, (tuple, list)) else False
    return a == b


CLOBBER_REGS = (R.CONFIG, R.EN_AA, R.SETUP_RETR, R.TX_ADDR)  # documented side effects of the non-plus carrier test
# a setter that programs a WHOLE register re-establishes it, also after the non-plus carrier test ("each register field holds the
# documented encoding of the value last set"): from then on that register is judged again
FULL_OWNERS = {"set_auto_retries": (R.SETUP_RETR,), "auto_ack": (R.EN_AA,)}


class Ctx:
    """per-worker exploration context"""

    def __init__(self, rep, pid, prof, plus, seed, wid="-", count_states=True):
        self.rep = rep
        self.wid = wid
        self.count_states = count_states
        self.pid = pid
        self.prof = prof
        self.plus = plus
        self.seed = seed
        self.A = alphabet(seed, prof, plus)
        self.getters = getter_calls(prof)
        self.has_with = PROFILES[prof]["has_with"]
        self.checked = set()  # canonical states whose state clauses (c), (d) were evaluated
        self.bad = {}  # ... and those among them that violated one: state -> (clause, getter name, text)
        self.merge = False  # merge bit-identical states in the sequence enumeration (thorough tier only)
        self.expanded = set()
        self.idx_after_clobber = [i for i, e in enumerate(self.A) if e[1] in ("stop_carrier_wave", "reenter") or (e[0] != "get" and e[1] in FULL_OWNERS and not (e[1] == "auto_ack" and not isinstance(e[2][0], (bool, int))))]
        self.found = []  # (sig, what) of the current step (for replay)

    # -- helpers
    def canon(self, st):
        w, drv, radio, ref = st
        return (radio.snapshot(), H.driver_state(drv), ref.key(), w.pending())

    def allowed(self, st, idxs=None):
        if st[3].clobbered:
            return self.idx_after_clobber
        return range(len(self.A)) if idxs is None else idxs

    def argclass(self, ent, ref_before):
        if ent[1] == "open_tx_pipe" and ref_before.p0_user is not None and bytes(ent[2][0]) == ref_before.p0_user:
            return "same-as-user-rx-pipe0"
        return ent[3]

    def viol(self, clause, name, cls, what, hist):
        sig = "%s/%s:%s:%s" % (self.pid, clause, name, cls)
        self.found.append((sig, what))
        key = "V|%s|%s" % (sig, self.wid)
        rank = [len(hist), 0 if self.plus else 1, list(hist)]
        cur = self.rep.notes.get(key)
        if cur is None or rank < cur["rank"]:
            self.rep.notes[key] = {
                "rank": rank, "count": (cur["count"] if cur else 0) + 1, "sig": sig,
                "what": "%s  [calls: %s]" % (what, " ; ".join(show(self.A[i]) for i in hist)),
                "replay": {"prof": self.prof, "plus": self.plus, "seed": self.seed, "idx": list(hist),
                           "calls": [show(self.A[i]) for i in hist], "signature": sig}}
        else:
            cur["count"] += 1

    # -- one transition + oracle.  returns True if the successor state is sound to continue from
    def step(self, st, i, hist):
        rep = self.rep
        ent = self.A[i]
        call = ent[:3]
        w, drv, radio, ref = st
        w.activate()
        hist = list(hist) + [i]
        self.found = []
        rep.transitions += 1
        before = radio.regfile()
        n_ill, n_ro = len(radio.illegal_writes), len(radio.ro_writes)
        exc, ret = do_call(drv, call)
        w.settle(100 * MS)
        obs = radio.regfile()
        cls = self.argclass(ent, ref)
        name = ent[1]
        was_clobbered = ref.clobbered
        # ---- expected outcomes
        if call == REENTER:
            o = ref.clone()
            o._b(R.CONFIG, R.PWR_UP, R.PWR_UP)  # "__enter__ powers the radio up"
            o.clobbered = False
            outs = [R.Outcome(None, o)]
        else:
            outs = ref.outcomes(call)
        clob = outs[0].ref.clobbered
        if clob and exc is None and call[0] != "get" and name in FULL_OWNERS and not (name == "auto_ack" and not isinstance(call[2][0], (bool, int))):
            # (the list form of auto_ack only touches the pipes it names)
            for o in outs:
                o.ref.unclob = o.ref.unclob | frozenset(FULL_OWNERS[name])
        skip = tuple(k for k in CLOBBER_REGS if k not in outs[0].ref.unclob) if clob else ()

        def delta(o):
            d = R.diff(o.ref.regfile(), obs)
            for k in skip:
                d.pop(k, None)
            if was_clobbered and not clob and R.CONFIG in d:  # the role after the test is not a "setting"
                e, ob = d[R.CONFIG]
                if (e ^ ob) & ~R.PRIM_RX & 0xFF == 0:
                    d.pop(R.CONFIG)
            return d

        pick = None
        for o in outs:
            if o.exc_ok(exc) and not delta(o):
                pick = o
                break
        rep.outcome("%s:%s:%s" % (name, ent[3], exc or ("changed" if obs != before else "same")))
        if pick is None:
            em = [o for o in outs if o.exc_ok(exc)]
            if not em:
                want = outs[0].exc
                self.viol("exception", name, cls, "%s: documented %s, observed %s" % (
                    show(ent), want if want else "no exception", exc or "no exception"), hist)
                return False
            d = delta(em[0])
            if was_clobbered and not clob:
                self.viol("restore", "carrier_wave", "non-plus", "settings not re-established by `with` after the "
                          "non-plus carrier-wave test: " + R.fmt(d), hist)
                return False
            clause = R.classify(d, ref.owned(call))
            self.viol(clause, name, cls, "%s: %s" % (show(ent), R.fmt(d)), hist)
            return False
        ref = st[3] = pick.ref
        # ---- (b) reserved / out-of-range writes recorded by the simulator
        ill = [x for x in radio.illegal_writes[n_ill:]
               if not (x[0] == R.SETUP_AW and ref.r[R.SETUP_AW] == 0)]  # documented 2-byte address mode
        if ill:
            self.viol("illegal-write", name, cls, "%s wrote %s" % (show(ent), ill[:3]), hist)
            return False
        ro = radio.ro_writes[n_ro:]
        if ro and not (name == "start_carrier_wave" and not self.plus):
            self.viol("ro-write", name, cls, "%s wrote to read-only register(s) %s" % (show(ent), ro[:3]), hist)
            return False
        # ---- return value of a getter call
        if exc is None and (call[0] == "get" or name.startswith("get_") or name == "address"):
            want = ref.value(call)
            if not same(ret, want):
                self.viol("getter", name, cls, "%s returned %r, value in effect %r" % (show(ent), ret, want), hist)
                return False
        if ref.clobbered:
            return True
        # ---- state clauses, once per distinct state
        k = self.canon(st)
        if k in self.checked:
            b = self.bad.get(k)
            if b is None:
                return True
            # a state already known to violate a state clause, reached again (possibly through another call)
            if b[0] == "getter":
                self.viol("getter", b[1], "in-domain", b[2], hist)
            else:
                self.viol(b[0], name, cls, b[2] % show(ent), hist)
            return False
        self.checked.add(k)
        if self.count_states:
            rep.states += 1
        if self.has_with:
            # (d) cache == radio: leaving and re-entering `with` must not change any register
            w2, drv2, radio2, _ = copy.deepcopy(st)
            w2.activate()
            m = len(radio2.illegal_writes)
            drv2.__exit__(None, None, None)
            if radio2.r[0] & R.PWR_UP or radio2.ce_pin.value:
                w.activate()
                self.bad[k] = ("exit", None, "after %%s: __exit__ leaves PWR_UP=%d CE=%d" % (bool(radio2.r[0] & 2), radio2.ce_pin.value))
                self.viol("exit", name, cls, self.bad[k][2] % show(ent), hist)
                return False
            try:
                drv2.__enter__()
            except Exception as e:  # noqa - the cached configuration cannot even be written back
                w.activate()
                text = "after %%s the driver's cached configuration differs from the radio: a `with` re-entry raises %s" % (
                    type(e).__name__)
                self.bad[k] = ("cache", None, text)
                self.viol("cache", name, cls, text % show(ent), hist)
                return False
            d = R.diff(obs, radio2.regfile())
            if R.CONFIG in d and (d[R.CONFIG][0] ^ d[R.CONFIG][1]) == R.PWR_UP:
                d.pop(R.CONFIG)
            ill = [x for x in radio2.illegal_writes[m:] if not (x[0] == R.SETUP_AW and ref.r[R.SETUP_AW] == 0)]
            w.activate()
            if d or ill:
                text = "after %%s the driver's cached configuration differs from the radio: a `with` re-entry changes %s%s" % (
                    R.fmt({k_: (v[1], v[0]) for k_, v in d.items()}).replace("expected", "to").replace("got", "from").replace("%", "%%"),
                    (" and writes " + repr(ill[:2]).replace("%", "%%")) if ill else "")
                self.bad[k] = ("cache", None, text)
                self.viol("cache", name, cls, text % show(ent), hist)
                return False
        # (c) every getter returns the value in effect
        w3, drv3, radio3, _ = copy.deepcopy(st)
        w3.activate()
        bad = None
        for g in self.getters:
            e3, r3 = do_call(drv3, g)
            want = ref.value(g)
            if e3 is not None or not same(r3, want):
                bad = (g, e3, r3, want)
                break
        w.activate()
        if bad:
            g, e3, r3, want = bad
            text = "%s -> %s, value in effect %r" % (show(g), e3 or repr(r3), want)
            self.bad[k] = ("getter", g[1], text)
            self.viol("getter", g[1], "in-domain", text, hist)
            return False
        return True


_BASE_RF = {}


def build_regfile(prof, plus):
    k = (prof, plus)
    if k not in _BASE_RF:
        _BASE_RF[k] = build(prof, plus)[2].regfile()
    return _BASE_RF[k]


def show(ent):
    kind, name, args = ent[:3]
    if kind == "set":
        return "%s = %r" % (name, args[0])
    if kind == "get":
        return name
    if kind == "with":
        return "<exit+enter>"
    return "%s(%s)" % (name, ", ".join(repr(a) for a in args))


def check_defaults(ctx, st):
    """the state a fresh object establishes == the documented defaults"""
    w, drv, radio, ref = st
    d = R.diff(ref.regfile(), radio.regfile())
    if d:
        ctx.viol("defaults", "constructor", "-", "after construction: " + R.fmt(d), [])
        ref.sync_from(radio.regfile())  # keep the rest of the exploration meaningful
    if radio.illegal_writes:
        ctx.viol("illegal-write", "constructor", "-", "constructor wrote %r" % (radio.illegal_writes[:3],), [])
    if bool(getattr(drv, "is_plus_variant", True)) != ref.plus:
        ctx.viol("getter", "is_plus_variant", "-", "is_plus_variant=%r on a %s radio" % (drv.is_plus_variant, "plus" if ref.plus else "non-plus"), [])


# ---------------------------------------------------------------------------- workers
def _dfs(ctx, st, hist, depth, stats):
    for i in ctx.allowed(st):
        st2 = copy.deepcopy(st)
        ok = ctx.step(st2, i, hist)
        ctx.rep.case()
        ctx.rep.traces += 1
        stats[len(hist)] += 1
        if len(hist) < 2 and (ctx.found or st2[2].regfile() != st[2].regfile()):
            ctx.rep.nt("%s%s:%r" % (ctx.prof, "+" if ctx.plus else "-", tuple(hist) + (i,)))
        if ok and depth > 1:
            if ctx.merge:
                # thorough tier: a state bit-identical to one whose continuations (of this length) were already
                # executed by this worker has, the system being deterministic, the same continuations
                k = (depth - 1, ctx.canon(st2))
                if k in ctx.expanded:
                    stats[3] += len(ctx.A) ** (depth - 1)
                    continue
                ctx.expanded.add(k)
            _dfs(ctx, st2, hist + [i], depth - 1, stats)


def w_seq(item, rep):
    """all call sequences of length <= depth that start with alphabet entry i0"""
    prof, plus, seed, pid, i0, depth = item
    ctx = Ctx(rep, pid, prof, plus, seed, wid="seq%d%d" % (plus, i0))
    ctx.merge = depth > 2
    st = build(prof, plus)
    check_defaults(ctx, st)
    stats = [0, 0, 0, 0]
    ok = ctx.step(st, i0, [])
    rep.case()
    rep.traces += 1
    stats[0] += 1
    if ctx.found or st[2].regfile() != build_regfile(prof, plus):
        rep.nt("%s%s:%r" % (prof, "+" if plus else "-", (i0,)))
    if ok and depth > 1:
        _dfs(ctx, st, [i0], depth - 1, stats)
    part = "seq-%s-%s" % (prof, "plus" if plus else "nonplus")
    rep.part(part, len1=stats[0], len2=stats[1], len3=stats[2], len3_merged=stats[3])
    if i0 == 3 and plus:
        rep.notes["S|0|" + part] = {"part": part, "first": show(ctx.A[i0]), "sequences": sum(stats[:3]), "alphabet": len(ctx.A)}


def w_bfs(item, rep):
    """explicit-state BFS (state merging) inside one register-sharing group, first call fixed"""
    prof, plus, seed, pid, group, i0, depth = item
    ctx = Ctx(rep, pid, prof, plus, seed, wid="bfs%s%d%d" % (group, plus, i0), count_states=False)
    idxs = [i for i, e in enumerate(ctx.A) if e[4] and group in e[4].split(",")]
    st = build(prof, plus)
    check_defaults(ctx, st)
    t0, s0 = rep.transitions, rep.states
    ok = ctx.step(st, i0, [])
    rep.case()
    rep.traces += 1
    if ok:
        def apply(st2, op, hist):
            rep.traces += 1
            rep.transitions -= 1  # engine.bfs and Ctx.step both count the transition
            return ctx.step(st2, op, hist)

        engine.bfs([(st, i0)], lambda s: ctx.allowed(s, idxs), apply, ctx.canon, depth - 1, rep)
    part = "bfs-%s-%s-%s" % (group, prof, "plus" if plus else "nonplus")
    rep.part(part, transitions=rep.transitions - t0, states=rep.states - s0, depth=str(depth), roots=1)
    rep.nt("%s:%s:%d" % (part, i0, rep.states - s0))
    if i0 == idxs[0]:
        rep.notes["S|1|" + part] = {"part": part, "alphabet": [show(ctx.A[i]) for i in idxs]}


def finalize(rep):
    """turn the candidates parked in rep.notes into violations: per signature the shortest (then first in
    alphabet order, plus radio first) counterexample - independent of worker scheduling"""
    best = {}
    for key in sorted(k for k in rep.notes if k.startswith("V|")):
        c = rep.notes.pop(key)
        b = best.get(c["sig"])
        if b is None:
            best[c["sig"]] = c
        else:
            n = b["count"] + c["count"]
            if c["rank"] < b["rank"]:
                best[c["sig"]] = b = c
            b["count"] = n
    for sig, c in sorted(best.items()):
        rep.violation(sig, c["what"], c["replay"])
        rep.violations[sig]["count"] += c["count"] - 1
    for key in sorted(k for k in rep.notes if k.startswith("S|")):  # samples in a scheduling-independent order
        rep.sample(rep.notes.pop(key))


def run_setters(tier, seed, rep, cls_name="full", pid=PID, only=None):
    prof = cls_name
    depth_seq = 2 if tier == "quick" else 3
    depth_bfs = 4 if tier == "quick" else 5
    variants = (True, False) if prof == "full" else (True,)
    seq_items, bfs_items = [], []
    sizes = {}
    for plus in variants:
        A = alphabet(seed, prof, plus)
        sizes["alphabet_%s" % ("plus" if plus else "nonplus")] = len(A)
        # the non-plus radio re-runs everything one level shallower in the thorough tier (it differs from the
        # plus radio only in the carrier-wave test and in variant detection)
        d = depth_seq if plus or tier == "quick" else depth_seq - 1
        for i0 in range(len(A)):
            seq_items.append((prof, plus, seed, pid, i0, d))
        if plus:
            for g in GROUPS:
                idxs = [i for i, e in enumerate(A) if e[4] and g in e[4].split(",")]
                sizes["bfs_alphabet_" + g] = len(idxs)
                for i0 in idxs:
                    bfs_items.append((prof, plus, seed, pid, g, i0, depth_bfs))
        else:
            idxs = [i for i, e in enumerate(A) if e[4] and "rf" in e[4].split(",")]
            for i0 in idxs:
                bfs_items.append((prof, plus, seed, pid, "rf", i0, depth_bfs))
    if not only or "seq" in only:
        pmap(w_seq, seq_items, rep)
    if not only or "bfs" in only:
        bfs_items.sort(key=lambda it: -sizes.get("bfs_alphabet_" + it[4], 0))
        pmap(w_bfs, bfs_items, rep)
    finalize(rep)
    return dict(seq_depth=depth_seq, bfs_depth=depth_bfs, **sizes)


def run(tier, seed, rep, only=None):
    b = run_setters(tier, seed, rep, "full", PID, only)
    return dict(
        level="model_checking",
        exhaustive=True,
        rule="E-BFS on one real RF24 object (inside its `with` block) bound to a simulated nRF24L01+ and nRF24L01 (non-plus). "
             "(1) every call sequence of length <= seq_depth over the full alphabet (every setter in every accepted input form with "
             "in-domain / boundary / out-of-domain arguments incl. pipe numbers -1..6, every getter, open/close rx/tx pipes with 0..6 byte "
             "addresses, interrupt_config x8, power, listen, carrier-wave start/stop, load_ack, `with` re-entry); every transition "
             "is executed for lengths <= 2; the third call is not re-executed from a state bit-identical to one this worker already "
             "expanded (parts.*.len3_merged); (2) explicit-state BFS with merging of bit-identical states (radio + all driver attributes + reference) to "
             "bfs_depth inside each register-sharing group, one root per first call. Oracle after every call: documented exception; "
             "whole register file == vf.ref.regs prediction (own field: encoding, other field: foreign); no reserved / out-of-range "
             "/ read-only register write; and once per distinct state: a `with` re-entry on a copy changes no register (cache == "
             "radio) and every getter returns the value in effect. A sequence is cut at its first violation. evaluations = "
             "executed sequences; states = distinct canonical states per worker; non-trivial = sequences (length <= 2) whose last "
             "call changed the register file or violated a clause, and BFS roots.",
        bounds=b,
        trusted_base=["vf/sim.py (nRF24L01(+) register file with write masks, reserved-bit / range recorder, FEATURE activation on the "
                      "non-plus variant)", "vf/ref/regs.py (register encoder written from the nRF24L01+ product specification and /repo/docs)"],
        assumptions=["integer / bool / list / tuple / bytes arguments only (no floats)",
                     "address_length outside 3..5 programs SETUP_AW=0b00: documented by the library as its 2-byte mode although the data sheet "
                     "calls the value illegal - accepted as documented",
                     "pa_level with an invalid value: ValueError (code) and the documented silent default are both accepted",
                     "listen=True closes pipe 0 when the user has no reading address on it and rewrites the user's address otherwise; "
                     "entering TX mode opens pipe 0 when auto-ack is on for pipe 0 (configure_api auto_ack notes, property C08)",
                     "non-plus carrier-wave test: CONFIG, EN_AA, SETUP_RETR, TX_ADDR are not compared until the next `with` (documented); "
                     "afterwards they must be re-established (PRIM_RX excepted)",
                     "radio events are run to completion between calls", "CPython 3.12 only"],
        min_outcomes=50,
    )


def replay(data):
    r = data["replay"]
    rep = engine.Report()
    ctx = Ctx(rep, data.get("property", PID), r["prof"], r["plus"], r["seed"])
    st = build(r["prof"], r["plus"])
    out = []
    if not r["idx"]:
        check_defaults(ctx, st)
        out = list(ctx.found)
    hist = []
    for i, text in zip(r["idx"], r["calls"]):
        if show(ctx.A[i]) != text:
            raise HarnessError("replay file does not match the alphabet: %r vs %r" % (show(ctx.A[i]), text))
        print("call:", text)
        ok = ctx.step(st, i, hist)
        hist.append(i)
        out = list(ctx.found)
        if not ok:
            break
    print("registers:", {R.NAMES[k]: (v if isinstance(v, int) else bytes(v).hex()) for k, v in sorted(st[2].regfile().items())})
    return out
