"""C17 - mesh joins yield distinct working addresses; lookups give the documented codes.
E-DFS over schedules in the threaded world: a real RF24Mesh master plus k real mesh nodes
(RF24Mesh / RF24MeshNoMaster alternating) on their own simulated MCUs; the schedule alphabet is
(join order, start offsets, SPI-cost class, poll-latency class); after the join phase one node
runs the lookup / send / release / re-join script.  Fault tier: every single lost frame of a
one-node join (only no-exception, termination, valid-or-None are claimed there)."""
import copy
import itertools

from .. import harness as H
from .. import net as N
from ..engine import pmap, explore, Chooser
from ..sim import MS, US

PID = "C17"
O = lambda s: int(s, 8)  # noqa: E731
OFFSETS = (0, 300 * US, 5 * MS, 40 * MS)
UNKNOWN_ID = 200
UNASSIGNED_ADDR = O("2345")
_templates = {}


def valid_addr(a):
    if not isinstance(a, int) or a <= 0 or a == O("4444"):
        return False
    n = 0
    while a:
        if not 1 <= (a & 7) <= 5:
            return False
        a >>= 3
        n += 1
    return n <= 4


def template(ids, cost, no_children=(), keep_queue=False):
    key = (tuple(ids), cost, tuple(no_children), keep_queue)
    t = _templates.get(key)
    if t is None:
        specs = [{"key": "m", "cls": H.RF24Mesh, "node_id": 0, "name": "master"}]
        for k, i in enumerate(ids):
            specs.append({"key": i, "cls": H.RF24Mesh if k % 2 else H.RF24MeshNoMaster, "node_id": i, "name": "id%d" % i,
                          "attrs": {"allow_children": False} if i in no_children else {}})
        t = N.Net(specs, cost_class=cost, horizon=60 * 1000 * MS)
        for i in no_children:
            if not keep_queue:
                t.nodes[i].queue.max_queue_size = 1  # (documented attribute) one slot: any junk frame would block a real message
        _templates[key] = t
    return t


def run_case(case, chooser=None):
    ids = case["ids"]
    net = copy.deepcopy(template(ids, case["cost"], case.get("no_children", ()), case.get("keep_queue", False)))
    net.w.activate()
    H.reset_frame_ids()
    net.lat = N.LAT[case["lat"]]
    w = net.w
    master = net.nodes["m"]
    timeout = case.get("timeout", 7.5)
    obs = {"join": {}, "probe": {}, "c07": [], "table_at_barrier": None, "addrs_at_barrier": None, "chatter": []}
    joined = [0]
    probe_done = [False]
    decided = {}
    if chooser is not None:
        def fault(pkt):
            if pkt.is_ack:
                return False
            key = (pkt.src.name, pkt.addr, pkt.payload)
            d = decided.get(key)
            if d is None:
                f = N.parse_frame(pkt.payload)
                d = decided[key] = bool(chooser.choose(2, "frame:%s:%s" % (pkt.src.name, f["type"] if f else "raw")))
                if d:
                    decided["__one__"] = True
            # default: a lost frame is lost once (its retransmissions get through): single transient loss;
            # fault_mode "forgood": every transmission of that frame (same node, same bytes) is lost
            if d and case.get("fault_mode") == "forgood":
                return True
            if d and key in decided.get("__used__", set()):
                return False
            if d:
                decided.setdefault("__used__", set()).add(key)
            return d
        w.fault = fault

    def post(key, call):
        bad = N.listening_violations(net.nodes[key], net.radios[key])
        if bad:
            obs["c07"].append((key, call, tuple(bad)))

    def hook(key, node, radio):
        bad = N.listening_violations(node, radio)
        if bad:
            obs["c07"].append((key, "update", tuple(bad)))

    def node_script(i, k):
        def f(ctx):
            n = net.nodes[i]
            ctx.wait(1 * MS + case["offsets"][k])
            while case.get("sequential") and joined[0] < k:
                net.serve(ctx, i, 5 * MS, hook)  # strictly one join after the other
            t0 = w.now
            a = n.renew_address(timeout)
            obs["join"][i] = (a, w.now - t0, n.node_address)
            post(i, "renew_address")
            joined[0] += 1
            nq = 0
            while joined[0] < len(ids):
                chat_now = k in case.get("chatter", ())
                if -1 in case.get("chatter", ()) and a is not None:
                    # "relay + child": whoever sits behind a relay, and the relay itself, ask at the same time
                    chat_now = N.level_of(a) >= 2 or any(N.parent_of(net.nodes[j].node_address) == a for j in ids if j != i and net.nodes[j].node_address != O("4444"))
                if chat_now and a is not None:
                    # a connected node keeps asking the master while others are still joining
                    # ("asking never disturbs the master")
                    q = (n.lookup_address(i), a) if nq % 2 == 0 else (n.lookup_node_id(a), i)
                    nq += 1
                    obs["chatter"].append((i, "lookup_address" if nq % 2 else "lookup_node_id") + q)
                    post(i, "lookup")
                    net.serve(ctx, i, case.get("chatter_gap_ms", 11) * MS, hook)
                else:
                    net.serve(ctx, i, 5 * MS, hook)
            if obs["table_at_barrier"] is None:
                obs["table_at_barrier"] = dict(master.dhcp_dict)
                obs["addrs_at_barrier"] = {j: net.nodes[j].node_address for j in ids}
            if k != 0 or not case.get("script", True) or a is None:
                if k == 0:
                    probe_done[0] = True
                # the other nodes keep running their application loop until the probing node is through (it may sit
                # behind any of them), then for `tail` ms more
                while case.get("script", True) and not probe_done[0]:
                    net.serve(ctx, i, 5 * MS, hook)
                net.serve(ctx, i, case.get("tail", 700) * MS, hook)
                return
            try:
                probe(ctx, n, i, a)
            finally:
                probe_done[0] = True
            net.serve(ctx, i, 100 * MS, hook)

        def probe(ctx, n, i, a):
            net.serve(ctx, i, 20 * MS, hook)
            p = obs["probe"]
            table = obs["table_at_barrier"]
            p["lookup_address"] = [(j, n.lookup_address(j), table.get(j)) for j in ids]
            post(i, "lookup_address")
            p["lookup_node_id"] = [(table.get(j), n.lookup_node_id(table.get(j)), j) for j in ids if table.get(j)]
            post(i, "lookup_node_id")
            p["trivial"] = [n.lookup_address(0), n.lookup_address(None), n.lookup_node_id(None), n.lookup_node_id(0)]
            p["connected_before"] = n.check_connection()
            post(i, "check_connection")
            if len(ids) > 1:
                msg = H.pattern(case.get("mlen", 5), case.get("seed", 0), 9)
                dest = ids[case.get("send_to", -1)]
                p["send"] = (dest, n.send(dest, 5, msg), msg)
                post(i, "send")
                # one message at a time: let the (unacknowledged-type) message reach its
                # destination before the next request enters the network
                net.serve(ctx, i, 30 * MS, hook)
                # a second message of the same type to the same id while the first is still unread
                # (not when the destination was given a one-slot queue)
                if dest in case.get("no_children", ()) and not case.get("keep_queue"):
                    return_after_first = True
                else:
                    return_after_first = False
                msg2 = H.pattern(min(24, case.get("mlen", 5) + 1), case.get("seed", 0), 10)  # (single frame, other content)
                if not return_after_first:
                    p["send2"] = (dest, n.send(dest, 5, msg2), msg2)
                    post(i, "send")
                    net.serve(ctx, i, 30 * MS, hook)
            if case.get("unknown", True):
                p["unknown_id"] = n.lookup_address(UNKNOWN_ID)
                post(i, "lookup_address")
                p["unknown_addr"] = n.lookup_node_id(UNASSIGNED_ADDR)
                post(i, "lookup_node_id")
                # the master must still answer afterwards
                p["after_unknown"] = (n.lookup_address(i), table.get(i))
            net.serve(ctx, i, 30 * MS, hook)
            if case.get("renew_connected", True):
                # renew_address() on a node that is still connected (no release first)
                t0 = w.now
                a3 = n.renew_address(timeout)
                p["renew_connected"] = (a3, w.now - t0, n.node_address)
                post(i, "renew_address")
                net.serve(ctx, i, 30 * MS, hook)
                p["table_after_renew"] = dict(master.dhcp_dict)
            p["release"] = n.release_address()
            post(i, "release_address")
            p["addr_after_release"] = n.node_address
            net.serve(ctx, i, 30 * MS, hook)
            p["table_after_release"] = dict(master.dhcp_dict)
            p["connected_after_release"] = n.check_connection()
            p["lookup_when_unconnected"] = n.lookup_address(ids[-1])
            t0 = w.now
            a2 = n.renew_address(timeout)
            p["rejoin"] = (a2, w.now - t0, n.node_address)
            if a2 is not None and case.get("master_release", True):
                # the master expires the lease with its documented release_address(address); the node
                # still holds the address: lookups must show the master's CURRENT mapping
                # (150 ms of quiet first: the master may still be repeating its reply to a duplicate of the
                # re-join request, and a lookup that meets a busy master is legitimately not answered)
                net.serve(ctx, i, 150 * MS, hook)
                p["master_release"] = master.release_address(a2)
                p["own_id_after_master_release"] = n.lookup_address(i)
                post(i, "lookup_address")
                p["ping_master_after_master_release"] = n.check_connection(1, True)
                post(i, "check_connection")
                master.set_address(i, a2)  # (give it back so that the remaining judgements stay simple)
            post(i, "renew_address")
            net.serve(ctx, i, 30 * MS, hook)
            p["table_after_rejoin"] = dict(master.dhcp_dict)
            if a2 is not None and case.get("stall_master", True) and chooser is None:
                # the master's application stops calling update() (its radio still acknowledges): no answer -> -1
                net.paused.add("m")
                other = ids[-1] if len(ids) > 1 else i
                p["stalled"] = [("lookup_address", other, n.lookup_address(other)),
                                ("lookup_node_id", n.node_address, n.lookup_node_id(n.node_address)),
                                ("lookup_node_id", O("3"), n.lookup_node_id(O("3")))]
                post(i, "lookup")
                net.paused.discard("m")
            net.serve(ctx, i, 100 * MS, hook)
        return f

    net.run({i: node_script(i, k) for k, i in enumerate(ids)}, idle_hook=hook)
    obs["aborted"] = w.aborted
    obs["exc"] = {k: type(e).__name__ + ": " + str(e)[:80] for k, e in net.exc.items()}
    obs["queues"] = net.queues()
    obs["table_end"] = dict(master.dhcp_dict)
    obs["npkts"] = len(net.air())
    obs["ncoll"] = sum(1 for p in net.air() if p.collided)
    obs["faults"] = sum(1 for k, v in decided.items() if not isinstance(k, str) and v)
    obs["nchoices"] = len(chooser.trace) if chooser else 0
    obs["virt_s"] = w.now / 1e9
    return obs


def judge(case, obs, pid=PID):
    ids = case["ids"]
    faulty = obs["faults"] > 0
    timeout = case.get("timeout", 7.5)
    k = len(ids)
    shape = "k%d%s" % (min(k, 6), ":fault" if faulty else "")
    v = []
    if obs["aborted"]:
        v.append(("%s/nontermination:%s" % (pid, shape), "virtual-time horizon hit"))
    for key, e in obs["exc"].items():
        who = "master" if key == "m" else "node"
        v.append(("%s/exception:%s:%s:%s" % (pid, who, e.split(":")[0], "fault" if faulty else "nofault"), "%s raised %s" % (key, e)))
    for i, (a, dt, cur) in obs["join"].items():
        if a is not None and not valid_addr(a):
            v.append(("%s/join-invalid-address:%s" % (pid, shape), "renew_address() of id %d returned %r" % (i, a)))
        if a is not None and cur != a:
            v.append(("%s/join-address-mismatch:%s" % (pid, shape), "renew_address() of id %d returned %o but node_address is %o" % (i, a, cur)))
        if not faulty and not case.get("expect"):
            if a is None:
                v.append(("%s/join-failed:%s" % (pid, shape), "renew_address() of id %d returned None after %.0f ms on a loss-free medium" % (i, dt / 1e6)))
            elif dt > timeout * 1e9:
                v.append(("%s/join-late:%s" % (pid, shape), "renew_address() of id %d took %.0f ms (timeout %.1f s)" % (i, dt / 1e6, timeout)))
    if faulty:
        for key, call, bad in obs["c07"]:
            v.append(("%s/not-listening:%s:%s" % (pid, call, bad[0]), "%s after %s(): %s" % (key, call, ",".join(bad))))
        return v
    table = obs["table_at_barrier"] or {}
    addrs = obs["addrs_at_barrier"] or {}
    got = [a for (a, _, _) in obs["join"].values() if a is not None]
    if len(set(got)) != len(got):
        v.append(("%s/duplicate-address:%s" % (pid, shape), "two nodes were given the same address: %r" % {i: "%o" % a[0] for i, a in obs["join"].items() if a[0]}))
    for i in ids:
        if i in obs["join"] and obs["join"][i][0] is not None and table.get(i) != obs["join"][i][0]:
            v.append(("%s/table-mismatch:%s" % (pid, shape), "id %d joined as %o but the master's table says %r" % (i, obs["join"][i][0], table.get(i))))
    for i, call, res, want in obs.get("chatter", []):
        # (other nodes are transmitting: "no answer" is a documented outcome, a wrong answer is not)
        if res != want and res != -1:
            v.append(("%s/lookup-while-others-join:%s" % (pid, call), "%s of id %d's own mapping returned %r while other nodes were joining, the mapping is %r" % (call, i, res, want)))
            break
    for name, want_addr in (case.get("expect") or {}).items():
        i = int(name.split("-")[1])
        got_addr = obs["join"].get(i, (None,))[0]
        if got_addr != want_addr:
            v.append(("%s/forced-chain:%s" % (pid, "none" if got_addr is None else ("reserved" if got_addr == O("4444") else "other")),
                      "id %d joined as %s, the only place left for it was 0o%o (table %r)" % (
                          i, ("0o%o" % got_addr) if got_addr is not None else None, want_addr, {k_: "0o%o" % a_ for k_, a_ in obs["table_end"].items()})))
            break
    p = obs["probe"]
    if p:
        me = ids[0]
        for j, res, want in p.get("lookup_address", []):
            if res != want:
                v.append(("%s/lookup-address:%s" % (pid, "no-answer" if res == -1 else "wrong"), "lookup_address(%d) returned %r, master's table has %r" % (j, res, want)))
        for a, res, want in p.get("lookup_node_id", []):
            if res != want:
                v.append(("%s/lookup-node-id:%s" % (pid, "no-answer" if res == -1 else "wrong"), "lookup_node_id(%o) returned %r, expected %d" % (a, res, want)))
        if p.get("trivial") is not None and p["trivial"] != [0, 0, me, 0]:
            v.append(("%s/trivial-lookups" % pid, "lookup_address(0), lookup_address(None), lookup_node_id(None), lookup_node_id(0) = %r, expected [0, 0, %d, 0]" % (p["trivial"], me)))
        if p.get("connected_before") is not True:
            v.append(("%s/check-connection:connected" % pid, "check_connection() returned %r on a connected node" % p.get("connected_before")))
        if "send" in p:
            to_id, ret, msg = p["send"]
            q = obs["queues"][to_id]
            hits = [g for g in q if g[3] == msg and g[2] == 5]
            if ret is not True or len(hits) != 1 or hits[0][0] != obs["join"][me][0]:
                v.append(("%s/send-to-id:%s" % (pid, "lost" if not hits else ("dup" if len(hits) > 1 else "ret")),
                          "send(id %d) returned %r; destination queue holds %d matching frame(s)" % (to_id, ret, len(hits))))
        if "send2" in p:
            to_id, ret, msg2 = p["send2"]
            q = obs["queues"][to_id]
            hits = [g for g in q if g[3] == msg2 and g[2] == 5]
            if ret is not True or len(hits) != 1:
                v.append(("%s/send-to-id:second-%s" % (pid, "lost" if not hits else ("dup" if len(hits) > 1 else "ret")),
                          "second send(id %d) of the same type returned %r; destination queue holds %d matching frame(s)" % (to_id, ret, len(hits))))
        if "unknown_id" in p and p["unknown_id"] != -2:
            v.append(("%s/unknown-id:%r" % (pid, p["unknown_id"] if p["unknown_id"] in (-1, 65534) else "other"),
                      "lookup_address(%d) for an unassigned id returned %r, documented -2" % (UNKNOWN_ID, p["unknown_id"])))
        if "unknown_addr" in p and p["unknown_addr"] != -2:
            v.append(("%s/unknown-address:%r" % (pid, p["unknown_addr"] if p["unknown_addr"] in (-1, 254) else "other"),
                      "lookup_node_id(%o) for an unassigned address returned %r, documented -2" % (UNASSIGNED_ADDR, p["unknown_addr"])))
        if "after_unknown" in p and p["after_unknown"][0] != p["after_unknown"][1]:
            v.append(("%s/master-disturbed" % pid, "after the unknown lookups lookup_address(own id) returned %r (table %r)" % p["after_unknown"]))
        if "renew_connected" in p:
            a3, dt, cur = p["renew_connected"]
            others = {a for j, a in addrs.items() if j != me}
            if a3 is None or not valid_addr(a3) or dt > timeout * 1e9 or cur != a3:
                v.append(("%s/renew-while-connected:failed" % pid, "renew_address() on a connected node returned %r after %.0f ms (node_address %o)" % (a3, dt / 1e6, cur)))
            elif a3 in others or p.get("table_after_renew", {}).get(me) != a3:
                v.append(("%s/renew-while-connected:bad-address" % pid, "renewed as %o; other nodes %r; table %r" % (a3, sorted(others), p.get("table_after_renew"))))
        if "release" in p:
            if p["release"] is not True:
                v.append(("%s/release:returned-%r" % (pid, p["release"]), "release_address() returned %r" % (p["release"],)))
            elif p["addr_after_release"] != O("4444"):
                v.append(("%s/release:address-kept" % pid, "node_address is %o after release_address()" % p["addr_after_release"]))
            if p["release"] is True and me in p.get("table_after_release", {}):
                v.append(("%s/release:lease-kept" % pid, "the master still lists id %d after release_address()" % me))
            if p.get("connected_after_release") is not False:
                v.append(("%s/check-connection:released" % pid, "check_connection() returned %r after release" % (p.get("connected_after_release"),)))
            if p.get("lookup_when_unconnected") != -2:
                v.append(("%s/lookup-unconnected" % pid, "lookup_address() on an unconnected node returned %r, documented -2" % (p.get("lookup_when_unconnected"),)))
        if "rejoin" in p:
            a2, dt, cur = p["rejoin"]
            others = {a for j, a in addrs.items() if j != me}
            if a2 is None or not valid_addr(a2) or dt > timeout * 1e9:
                v.append(("%s/rejoin-failed" % pid, "renew_address() after release returned %r after %.0f ms" % (a2, dt / 1e6)))
            elif a2 in others or p.get("table_after_rejoin", {}).get(me) != a2:
                v.append(("%s/rejoin-bad-address" % pid, "re-joined as %o; other nodes %r; table %r" % (a2, sorted(others), p.get("table_after_rejoin"))))
    for call, arg, res in (p or {}).get("stalled", []):
        if res != -1:
            v.append(("%s/no-answer-code:%s" % (pid, call), "%s(%s) returned %r while the master did not answer, documented -1" % (call, oct(arg) if call == "lookup_node_id" else arg, res)))
            break
    if p and "master_release" in p:
        if p["master_release"] is not True:
            v.append(("%s/master-release:returned-%r" % (pid, p["master_release"]), "master.release_address(leased address) returned %r" % (p["master_release"],)))
        else:
            if p["own_id_after_master_release"] != -2:
                v.append(("%s/lookup-own-id-after-master-release" % pid, "lookup_address(own id) returned %r after the master dropped the lease, documented -2" % (p["own_id_after_master_release"],)))
            if p["ping_master_after_master_release"] is not False:
                v.append(("%s/check-connection:ping-master-after-master-release" % pid, "check_connection(ping_master=True) returned %r although the master no longer lists the node" % (p["ping_master_after_master_release"],)))
    vals = list(obs["table_end"].values())
    if len(set(vals)) != len(vals):
        v.append(("%s/table-duplicate-lease:%s" % (pid, shape), "master table maps two ids to one address: %r" % obs["table_end"]))
    for key, call, bad in obs["c07"]:
        v.append(("%s/not-listening:%s:%s" % (pid, call, bad[0]), "%s after %s(): %s" % (key, call, ",".join(bad))))
    return v


# --------------------------------------------------------------------------- scripted multi-node histories
# One global list of steps, each executed by one named node while all others (and the master) keep running their application
# loop: joins, releases, re-joins, sends to node ids and lookups in every enabled order (generated below), judged step by step
# against a reference of "who is connected where" built from the results and the master's table.
def run_scen(case):
    ids = case["ids"]
    net = copy.deepcopy(template(ids, case["cost"]))
    net.w.activate()
    H.reset_frame_ids()
    net.lat = N.LAT[case["lat"]]
    w = net.w
    master = net.nodes["m"]
    for nid, addr in case.get("prefill", []):
        master.set_address(nid, addr)  # the documented static assignment: these addresses are taken (by nodes that are out of range)
    steps = [tuple(x) for x in case["steps"]]
    timeout = case.get("timeout", 3.0)
    cur = [0]
    obs = {"log": [], "c07": []}

    def hook(key, node, radio):
        bad = N.listening_violations(node, radio)
        if bad:
            obs["c07"].append((key, "update", tuple(bad)))

    def script(i, k):
        def f(ctx):
            n = net.nodes[i]
            ctx.wait(1 * MS + k * 300 * US)
            while cur[0] < len(steps):
                idx = cur[0]
                actor, op, arg = steps[idx]
                if actor != i:
                    net.serve(ctx, i, 5 * MS, hook)
                    continue
                t0 = w.now
                msg = None
                if op in ("join", "rejoin"):
                    r = n.renew_address(timeout)
                elif op == "release":
                    r = n.release_address()
                elif op == "send":
                    msg = H.pattern(5 + idx % 7, case.get("seed", 0), 30 + idx)
                    r = n.send(arg, 10 + idx, msg)
                elif op == "lookup":
                    r = n.lookup_address(arg)
                else:
                    raise RuntimeError("unknown step %r" % (op,))
                dt = w.now - t0
                bad = N.listening_violations(n, net.radios[i])
                if bad:
                    obs["c07"].append((i, op, tuple(bad)))
                net.serve(ctx, i, 40 * MS, hook)  # one request in flight: let it settle before the next step starts
                obs["log"].append(dict(step=idx, actor=i, op=op, arg=arg, ret=r, dt=dt, addr=n.node_address, msg=msg, mtype=10 + idx,
                                       table=dict(master.dhcp_dict), addrs={j: net.nodes[j].node_address for j in ids}))
                cur[0] = idx + 1
            net.serve(ctx, i, 120 * MS, hook)
        return f

    net.run({i: script(i, k) for k, i in enumerate(ids)}, idle_hook=hook)
    obs["aborted"] = w.aborted
    obs["exc"] = {k: type(e).__name__ + ": " + str(e)[:80] for k, e in net.exc.items()}
    obs["queues"] = net.queues()
    obs["table_end"] = dict(master.dhcp_dict)
    obs["npkts"] = len(net.air())
    obs["ncoll"] = sum(1 for p in net.air() if p.collided)
    obs["virt_s"] = w.now / 1e9
    obs["faults"] = 0
    return obs


def judge_scen(case, obs, pid=PID):
    ids = case["ids"]
    v = []
    prefill = {nid: addr for nid, addr in case.get("prefill", [])}
    if obs["aborted"]:
        v.append(("%s/scenario:nontermination" % pid, "virtual-time horizon hit in %r" % (case["steps"],)))
    for key, e in obs["exc"].items():
        v.append(("%s/scenario:exception:%s:%s" % (pid, "master" if key == "m" else "node", e.split(":")[0]), "%s raised %s in %r" % (key, e, case["steps"])))
    conn = {}  # reference: id -> address of the nodes that are connected right now
    leases = dict(prefill)  # reference: what the master has been told (a release that cannot reach it leaves a stale lease)

    def reachable(a):
        """every ancestor of address a is the address of a connected node (or the master)"""
        a = N.parent_of(a)
        while a:
            if a not in conn.values():
                return False
            a = N.parent_of(a)
        return True

    hist = []
    for e in obs["log"]:
        i, op, arg, r = e["actor"], e["op"], e["arg"], e["ret"]
        hist.append("%s(%s%s)" % (op, i, "" if arg is None else "->%s" % arg))
        where = " [history: %s]" % " ".join(hist)
        shape = "%s-after-%s" % (op, "+".join(sorted({h.split("(")[0] for h in hist[:-1]})) or "nothing")
        if op in ("join", "rejoin"):
            others = {a for j, a in conn.items() if j != i}
            taken = set(prefill.values()) | others
            free_l1 = any(x not in taken for x in range(1, 6))
            relay_ok = any(reachable(a) for a in others)
            conn.pop(i, None)
            if not (free_l1 or relay_ok):
                continue  # nowhere to join: None is the honest answer
            if not valid_addr(r):
                v.append(("%s/scenario:join-failed:%s" % (pid, shape), "renew_address() of id %d returned %r after %.0f ms on a loss-free medium%s" % (i, r, e["dt"] / 1e6, where)))
                continue
            if e["addr"] != r:
                v.append(("%s/scenario:join-address-mismatch:%s" % (pid, shape), "renew_address() returned %o, node_address is %o%s" % (r, e["addr"], where)))
            if e["table"].get(i) != r:
                v.append(("%s/scenario:join-not-in-table:%s" % (pid, shape), "id %d was given %o, the master's table says %r%s" % (i, r, e["table"].get(i), where)))
            if r in taken:
                v.append(("%s/scenario:join-address-in-use:%s" % (pid, shape), "id %d was given %o which another node holds%s" % (i, r, where)))
            if e["dt"] > case.get("timeout", 3.0) * 1e9 + 50 * MS:
                v.append(("%s/scenario:join-late:%s" % (pid, shape), "renew_address() took %.0f ms%s" % (e["dt"] / 1e6, where)))
            conn[i] = r
            leases[i] = r
        elif op == "release":
            if i not in conn:
                continue
            ok = reachable(conn[i])
            a0 = conn.pop(i)
            if not ok:
                continue  # the release cannot reach the master: only termination is claimed
            leases.pop(i, None)
            if r is not True or e["addr"] != O("4444"):
                v.append(("%s/scenario:release-result:%s" % (pid, shape), "release_address() of id %d returned %r, node_address %o%s" % (i, r, e["addr"], where)))
            if e["table"].get(i) == a0:
                v.append(("%s/scenario:release-still-leased:%s" % (pid, shape), "after the release the master still leases %o to id %d%s" % (a0, i, where)))
        elif op == "send":
            if i not in conn or arg not in conn or not reachable(conn[i]) or not reachable(conn[arg]):
                continue  # no route: only termination / no exception is claimed
            want = (conn[i], conn[arg], e["mtype"], e["msg"])
            got = {k: [g for g in q if g[2] == e["mtype"]] for k, q in obs["queues"].items()}
            holders = sorted(str(k) for k, q in got.items() if q)
            if r is not True:
                v.append(("%s/scenario:send-false:%s" % (pid, shape), "send() from id %d to id %d returned %r%s" % (i, arg, r, where)))
            elif holders != [str(arg)]:
                v.append(("%s/scenario:send-misdelivered:%s" % (pid, shape), "the message from id %d for id %d (at %o) ended up in the queue(s) of %s%s" % (
                    i, arg, conn[arg], holders or "nobody", where)))
            elif got[arg] != [want]:
                v.append(("%s/scenario:send-altered:%s" % (pid, shape), "id %d queued %r, sent %r%s" % (arg, got[arg], want, where)))
        elif op == "lookup":
            if i not in conn or not reachable(conn[i]):
                continue
            want = leases.get(arg, -2)
            if r != want:
                v.append(("%s/scenario:lookup:%s" % (pid, shape), "lookup_address(%d) by id %d returned %r, the mapping is %r%s" % (arg, i, r, want, where)))
    for key, call, bad in obs["c07"]:
        v.append(("%s/not-listening:%s:%s" % (pid, call, bad[0]), "node %s after %s: %s" % (key, call, ",".join(bad))))
    return v


def scen_cases(tier, seed):
    """generated histories: a fixed opening (A and B join, A sends to B), then every enabled sequence of `depth` membership
    changes among three nodes, then a closing round of sends / lookups between all connected pairs"""
    A, B, C = 1, 2, 3
    opening = [(A, "join", None), (B, "join", None), (A, "send", B)]
    cases = []
    depth = 4 if tier == "quick" else 5

    def enabled(conn):
        ops = []
        for x in (A, B, C):
            if x in conn:
                ops.append((x, "release", None))
                ops.append((x, "rejoin", None))
            else:
                ops.append((x, "join", None))
        return ops

    def rec(seq, conn):
        if len(seq) == depth:
            closing = []
            cl = sorted(conn)
            for x in cl:
                for y in cl:
                    if x != y:
                        closing.append((x, "send", y))
            if cl:
                closing += [(cl[0], "lookup", y) for y in (A, B, C)]
            yield opening + seq + closing
            return
        for op in enabled(conn):
            c2 = set(conn)
            if op[1] == "release":
                c2.discard(op[0])
            else:
                c2.add(op[0])
            yield from rec(seq + [op], c2)

    k = 0
    for prefill in ([], [[201, 1], [202, 2], [203, 3], [204, 4]]):
        for steps in rec([], {A, B}):
            k += 1
            # with one free level-1 slot the later joiners sit behind the first one (level 2): its release orphans them
            cases.append(dict(scen=True, ids=[A, B, C], prefill=prefill, steps=[list(x) for x in steps], cost=k % 4, lat=(k // 4) % 2, seed=seed))
    return cases


def record(case, obs, rep, trace):
    rep.case()
    rep.traces += 1
    rep.transitions += obs["npkts"]
    rep.part("mesh", executions=1, packets=obs["npkts"], collisions=obs["ncoll"], virtual_seconds=round(obs["virt_s"], 3))
    lv = sorted(N.level_of(a[0]) for a in obs["join"].values() if a[0])
    junk = sum(len(q) for q in obs["queues"].values()) - (1 if obs["probe"].get("send") else 0)
    if junk > 0:
        rep.outcome("frames-other-than-the-message-in-application-queues")
    rep.outcome("k%d:joined=%d:levels=%s:faults=%d:exc=%d:probe=%s" % (len(case["ids"]), len(lv), "".join(map(str, lv)), obs["faults"], len(obs["exc"]),
                                                                   "y" if obs["probe"].get("rejoin") else "n"))
    rep.nt(repr((sorted(case.items(), key=str), [t[0] for t in trace])))
    for sig, what in judge(case, obs):
        rep.violation(sig, what, {"case": case, "choices": [list(t) for t in trace]})


def record_scen(case, obs, rep):
    rep.case()
    rep.traces += 1
    rep.transitions += obs["npkts"]
    rep.part("scenario", executions=1, packets=obs["npkts"], steps=len(obs["log"]), virtual_seconds=round(obs["virt_s"], 3))
    rep.outcome("scen:%s" % ",".join("%s=%s" % (e["op"][0], "ok" if (e["ret"] is True or valid_addr(e["ret"]) or (e["op"] == "lookup" and e["ret"] >= 0)) else "no") for e in obs["log"][3:8]))
    rep.nt(repr(sorted(case.items(), key=str)))
    for sig, what in judge_scen(case, obs):
        rep.violation(sig, what, {"case": case})


def w_cases(item, rep):
    cases, bound = item
    for case in cases:
        if case.get("scen"):
            record_scen(case, run_scen(case), rep)
            continue
        if bound == 0:
            record(case, run_case(case), rep, [])
        else:
            for ch, obs in explore(lambda c: run_case(case, c), bound, max_execs=case.get("max_execs", 400), rep=rep):
                record(case, obs, rep, ch.trace)


def build_items(tier, seed):
    cases = []
    # (id sets include ones whose numeric value coincides with a level-1 address 1..5 that
    # another node will be given: ids and addresses must never be confused)
    idsets = {1: [(1,), (255,)], 2: [(1, 2), (77, 3), (4, 9), (5, 4)], 3: [(1, 2, 3), (9, 4, 250), (3, 5, 4)]}
    timing_all = [(c, l) for c in range(4) for l in (0, 1, 2)]
    kk = 0
    for k in (1, 2, 3):
        for ids in idsets[k]:
            # start offsets are pairwise distinct: two nodes started at exactly the same instant
            # stay in lock-step for ever in a model without clock jitter (deterministic back-off)
            offs = list(itertools.permutations(range(len(OFFSETS)), k)) if k > 1 else [(0,)]
            for oi, off in enumerate(offs):
                if k == 1:
                    tsel = timing_all
                elif tier == "quick":
                    tsel = timing_all if k == 2 else [timing_all[(kk * 5) % 12], timing_all[(kk * 7 + 1) % 12], timing_all[(kk * 11 + 2) % 12]]
                else:
                    tsel = timing_all
                for (c, l) in dict.fromkeys(tsel):
                    kk += 1
                    cases.append(dict(ids=list(ids), offsets=[OFFSETS[o] for o in off], cost=c, lat=l, seed=seed, mlen=(kk * 7) % 25))
    # all join orders (k=3) under one offset pattern
    for perm in itertools.permutations((1, 2, 3)):
        cases.append(dict(ids=list(perm), offsets=[0, 300 * US, 5 * MS], cost=0, lat=0, seed=seed, mlen=20))
    # slot exhaustion: more than five nodes force a join through a relay
    cases.append(dict(ids=[7, 8, 9, 10, 11, 12], offsets=[j * 5 * MS for j in range(6)], cost=0, lat=0, seed=seed, mlen=5, tail=300))
    cases.append(dict(ids=[21, 22, 23, 24, 25, 26, 27], offsets=[j * 40 * MS for j in range(7)], cost=0, lat=1, seed=seed, mlen=24, tail=300))
    for oi, off in enumerate(itertools.permutations(range(4), 4)):
        cases.append(dict(ids=[11, 12, 13, 14], offsets=[OFFSETS[o] for o in off], cost=oi % 4, lat=(oi // 4) % 3, seed=seed, mlen=oi))
    # connected nodes keep looking themselves up at the master while the others join (also past the five level-1 slots)
    for ci, (idl, step) in enumerate((([41, 42, 43], 40), ([7, 8, 9, 10, 11, 12], 30), ([21, 22, 23, 24, 25, 26, 27], 60), ([7, 8, 9, 10, 11, 12], 5))):
        for chat in ([0], [0, 1], [4] if len(idl) > 5 else [1]) + (([-1],) if len(idl) > 6 else ()):
            # (last variant, 7 nodes: the node(s) behind a relay and the relay itself keep asking at the same time while the last one joins)
            for (c_, l_) in ((0, 0), (2, 1)) if tier == "quick" else ((0, 0), (2, 1), (1, 2), (3, 0)):
                cases.append(dict(ids=list(idl), offsets=[j * step * MS for j in range(len(idl))], cost=c_, lat=l_, seed=seed, mlen=5, tail=300, chatter=list(chat)))

    # a connected node that refuses children must stay silent (and clean) when others poll its level
    cases.append(dict(ids=[21, 22, 23, 24, 25, 26, 27, 28], offsets=[j * 40 * MS for j in range(8)], cost=0, lat=0, seed=seed, mlen=7, tail=300,
                      no_children=[22, 23], send_to=1))
    # level 1 full and only ONE of its nodes accepts children - the first or the last that joined (whichever holds 0o1 /
    # 0o5): the sixth node has to join through exactly that relay
    cases.append(dict(ids=[51, 52, 53, 54, 55, 56], offsets=[j * 40 * MS for j in range(6)], cost=0, lat=0, seed=seed, mlen=6, tail=300,
                      no_children=[52, 53, 54, 55], send_to=1))
    cases.append(dict(ids=[51, 52, 53, 54, 55, 56], offsets=[j * 40 * MS for j in range(6)], cost=0, lat=0, seed=seed, mlen=6, tail=300,
                      no_children=[51, 52, 53, 54], send_to=1))
    # (A chain forced down to level 4 through relay 0o444 - 11 sequential joiners, most with allow_children off -
    # was tried and dropped: the unacknowledged, never repeated MESH_ADDR_RESPONSE of the last hop collides with a
    # bystander's forwarding at exactly the same instant in every (identical) retry cycle of this jitter-free model,
    # the symmetry artefact of section 2.3. The reserved-address corner of that chain is covered by C16.)
    if tier == "thorough":
        cases.append(dict(ids=[7, 8, 9, 10, 11, 12], offsets=[j * 300 * US for j in range(6)], cost=2, lat=0, seed=seed, mlen=5, tail=300))
        cases.append(dict(ids=list(range(31, 43)), offsets=[j * 30 * MS for j in range(12)], cost=0, lat=0, seed=seed, mlen=5, tail=300))
        for k in (4, 5):
            for oi, off in enumerate(itertools.permutations(range(5), k)):
                cases.append(dict(ids=list(range(1, k + 1)), offsets=[(OFFSETS + (90 * MS,))[o] for o in off], cost=oi % 4, lat=(oi // 4) % 3, seed=seed, mlen=5))
    items = [([c], 0) for c in cases]
    # single lost frame, exhaustively over the frames of a one-node join (+ probe script)
    items.append(([dict(ids=[5], offsets=[0], cost=0, lat=0, seed=seed, script=True, unknown=False, timeout=2.0, max_execs=200 if tier == "quick" else 2000)], 1))
    items.append(([dict(ids=[5, 6], offsets=[0, 5 * MS], cost=0, lat=0, seed=seed, script=False, timeout=2.0, tail=100, max_execs=150 if tier == "quick" else 2000)], 1 if tier == "quick" else 2))
    items.append(([dict(ids=[5], offsets=[0], cost=0, lat=0, seed=seed, script=False, timeout=1.2, tail=100, fault_mode="forgood", renew_connected=False,
                        max_execs=120 if tier == "quick" else 1000)], 1 if tier == "quick" else 2))
    items.sort(key=lambda it: -(len(it[0][0]["ids"]) + 10 * it[1]))
    sc = scen_cases(tier, seed)
    items += [(sc[i:i + 6], 0) for i in range(0, len(sc), 6)]
    return items


def run(tier, seed, rep, only=None):
    items = build_items(tier, seed)
    if only == "scen":
        items = [it for it in items if it[0][0].get("scen")]
    if only == "small":
        items = [it for it in items if len(it[0][0]["ids"]) <= 2 and it[1] == 0]
    pmap(w_cases, items, rep)
    rep.states += len(rep.nontrivial)
    rep.sample({"case": items[len(items) // 2][0][0]})
    return dict(
        level="model_checking",
        exhaustive=True,
        rule="every case = (ids in join order, start offset per node from {0, 0.3, 5, 40 ms}, pairwise distinct, SPI-cost class, poll-latency class): all offset "
             "assignments for k<=3 (every id set; all 12 timing classes for k<=2, 3 per case for k=3 in the quick tier, all in the thorough tier), all join orders for k=3, "
             "thorough: every offset assignment for k=4 and k=5 from five offsets, 6- and 7-node runs that exhaust the master's five level-1 slots; "
             "runs in which already connected nodes keep looking up their own mapping while the others join; "
             "after the join barrier the first node runs lookups (known, trivial, unknown), send-to-id, release, re-join. Fault part: the "
             "loss-free run plus EVERY single lost frame of a 1-node join+script and of a 2-node join. Non-trivial = distinct (case, fault choice).",
        bounds=dict(k_max=7 if tier == "quick" else 12, offsets_ns=list(OFFSETS), fault_deviation_bound=1 if tier == "quick" else 2),
        trusted_base=["vf/sim.py", "vf/net.py"],
        assumptions=["messages sent to a node id are single frames (fragmented routed traffic is C05's business, see its known finding)", "distinct per-node SPI costs (two MCUs with bit-identical clocks live-lock in renew_address()'s deterministic back-off: a symmetry artefact of a zero-drift model)",
                     "a lost frame is lost once (its radio-level retransmission gets through)"],
        min_outcomes=5,
    )


def replay(data):
    r = data["replay"]
    case = r["case"]
    if case.get("scen"):
        obs = run_scen(case)
        for e in obs["log"]:
            print({k: e[k] for k in ("step", "actor", "op", "arg", "ret", "addr", "table")})
        viol = judge_scen(case, obs, data.get("property", PID))
        want = data.get("signature")
        return [(s, w) for s, w in viol if s == want] or viol
    ch = Chooser([tuple(t) for t in r["choices"]]) if r.get("choices") else None
    obs = run_case(case, ch)
    print({k: v for k, v in obs.items() if k not in ("queues",)})
    viol = judge(case, obs, data.get("property", PID))
    want = data.get("signature")
    return [(s, w) for s, w in viol if s == want] or viol
