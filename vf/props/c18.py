"""C18 - every advertisement is a well-formed BLE packet for the channel it is sent on.

E-ENUM over (name kind x name length 0..20, show_pa_level x PA level, setter order, MAC form,
advertising channel, data form and size around the capacity boundary) and E-BFS over histories
of hop_channel() / channel assignments / own and foreign `with` blocks.  The real FakeBLE object
runs on a simulated radio; what is judged is the W_TX_PAYLOAD transaction on the SPI log and
the packet the simulated radio puts on the air (with RF_CH, framing, address, rate at that
moment), decoded by the independent bit-serial link layer in vf.ref.ble."""
import copy

from .. import harness as H
from ..engine import pmap, bfs
from ..ref import ble
from ..sim import World, HarnessError, Abort

PID = "C18"
PA_LEVELS = (-18, -12, -6, 0)
NRF_ADDR = ble.nrf_address()
HORIZON = 10 ** 15
CAPACITY = ble.MAX_RADIO_PAYLOAD - 3 - 2 - 6 - 3  # CRC, header+length, AdvA, flags structure = 18


# --------------------------------------------------------------------------- violation stash
# Workers stash oracle failures in rep.notes (unique keys, so the merge is order independent);
# run() collapses all failures of one clause into one signature whose shape is the set of
# features common to every counterexample, and keeps the smallest counterexample as replay.
def stash(rep, item_key, clause, feats, what, replay, size=0):
    raw = clause + "|" + ",".join("%s=%s" % kv for kv in sorted(feats.items()))
    key = "v|%s|%s" % (raw, item_key)
    e = rep.notes.get(key)
    if e is None:
        rep.notes[key] = {"clause": clause, "feats": dict(feats), "what": what, "replay": replay,
                          "count": 1, "size": size}
    else:
        e["count"] += 1


def collapse(rep, pid):
    groups = {}
    for key in sorted(k for k in rep.notes if k.startswith("v|")):
        e = rep.notes.pop(key)
        groups.setdefault(e["clause"], []).append((key, e))
    for clause, lst in sorted(groups.items()):
        f0 = lst[0][1]["feats"]
        common = {k: v for k, v in f0.items() if all(e["feats"].get(k) == v for _, e in lst)}
        shape = ",".join("%s=%s" % (k, common[k]) for k in sorted(common))
        sig = "%s/%s%s" % (pid, clause, (":" + shape) if shape else "")
        key, first = min(lst, key=lambda ke: (ke[1]["size"], ke[0]))
        rep.violation(sig, first["what"], dict(first["replay"], clause=clause))
        rep.violations[sig]["count"] = sum(e["count"] for _, e in lst)


def replay_verdict(data, fails):
    """fails: [(clause, what)] observed when re-executing; report them under the recorded
    signature when the clause is the recorded one"""
    want = data.get("signature")
    clause = (data.get("replay") or {}).get("clause")
    pid = data.get("property", PID)
    out = []
    for c, what in fails:
        out.append((want if (want and c == clause) else "%s/%s" % (pid, c), what))
    hit = [x for x in out if x[0] == want]
    return hit or out


# --------------------------------------------------------------------------- inputs
def name_value(kind, n, seed):
    """-> (value handed to the setter, expected bytes in the name structure)"""
    if kind == "none":
        return None, None
    if kind == "utf8":  # multi-byte characters: limits count encoded bytes, not characters
        s = "é" * (n // 2) + ("a" if n % 2 else "")
        return s, s.encode("utf-8")
    if kind == "str":
        raw = bytes(0x30 + (b % 75) for b in H.pattern(n, seed, 11 + n))
        return raw.decode("ascii"), raw
    raw = H.pattern(n, seed, 23 + n)
    return (bytearray(raw) if kind == "bytearray" else raw), raw


def mac_value(kind, seed, salt):
    """-> (value for the setter or 'keep', expected 6 bytes or expected prefix)"""
    p = H.pattern(6, seed, 40 + salt)
    if kind == "bytes":
        return p, p
    if kind == "bytearray":
        return bytearray(p), p
    if kind == "int":  # a device address as a number: the PDU carries it LSByte first
        return int.from_bytes(p, "little"), p
    if kind == "short":
        return p[:3], p[:3]
    if kind == "none":
        return None, b""
    return "keep", b""


def data_value(spec, seed):
    """-> (args for advertise(), expected AdvData tail, list of (library chunk, independent chunk))"""
    kind = spec[0]
    if kind == "none":
        return (), b"", []
    if kind == "empty":
        c = spec[1]
        return (([] if c == "list" else () if c == "tuple" else bytearray() if c == "bytearray" else b""),), b"", []
    if kind == "raw":
        _, n, dtype, buftype = spec
        buf = H.pattern(n, seed, 60 + n)
        arg = bytearray(buf) if buftype == "bytearray" else buf
        exp = ble.ad(0xFF if dtype is None else dtype, buf) if n else b""
        return ((arg,) if dtype is None else (arg, dtype)), exp, []
    if kind in ("list", "libchunk"):
        _, parts, container, elemtype = spec
        chunks, pairs = [], []
        for i, (t, n) in enumerate(parts):
            body = H.pattern(n, seed, 80 + 7 * i + n)
            mine = ble.ad(t, body)
            if kind == "libchunk":
                lib = H.m_ble.chunk(bytearray(body) if elemtype == "bytearray" else body, t)
                pairs.append((bytes(lib), mine))
                chunks.append(lib)
            else:
                chunks.append(bytearray(mine) if elemtype == "bytearray" else mine)
        exp = b"".join(ble.ad(t, H.pattern(n, seed, 80 + 7 * i + n)) for i, (t, n) in enumerate(parts))
        return ((tuple(chunks) if container == "tuple" else list(chunks)),), exp, pairs
    if kind == "svc":
        _, what, val = spec
        if what == "battery":
            o = H.m_ble.BatteryServiceData()
            o.data = val
        elif what == "temperature":
            o = H.m_ble.TemperatureServiceData()
            o.data = float(val)
        else:
            o = H.m_ble.UrlServiceData()
            o.data = val
        c = H.m_ble.chunk(o.buffer)
        return ([c],), bytes(c), []
    raise HarnessError("unknown data spec %r" % (spec,))


# --------------------------------------------------------------------------- packet oracle
def tx_cmds(radio, mark):
    return [m[1] for m in radio.spilog[mark:] if m[1] and (m[1][0] in (0xA0, 0xB0))]


def check_fields(octs, exp_mac, mac_prefix, opt, data):
    """first field of the de-whitened octets that is not what an advertisement of this
    configuration must carry, or None.  opt: list of (allowed types, data) in any order."""
    optlen = sum(2 + len(d) for _, d in opt)
    n = 6 + 3 + optlen + len(data)
    if len(octs) < 2 + n:
        return "length-byte", "packet of %d octets does not fit what was captured" % (2 + n)
    bad = []
    if octs[0] not in (0x42, 0x02):
        bad.append(("header", "PDU header 0x%02x is not ADV_NONCONN_IND" % octs[0]))
    if octs[1] != n:
        bad.append(("length-byte", "length octet %d, PDU payload has %d octets" % (octs[1], n)))
    mac = octs[2:8]
    if (exp_mac is not None and mac != exp_mac) or not mac.startswith(mac_prefix):
        bad.append(("mac", "AdvA %s, configured %s" % (mac.hex(), (exp_mac or mac_prefix).hex())))
    fl = octs[8:11]
    if fl[:2] != b"\x02\x01" or fl[2] not in (0x04, 0x05, 0x06):
        bad.append(("flags", "flags structure %s" % fl.hex()))
    got, ok = ble.parse_ad(octs[11:11 + optlen])
    remaining = list(opt)
    good = ok and len(got) == len(opt)
    if good:
        for t, d in got:
            m = next((o for o in remaining if t in o[0] and d == o[1]), None)
            if m is None:
                good = False
                break
            remaining.remove(m)
    if not good:
        pa_exp = [o for o in opt if ble.AD_TX_POWER in o[0]]
        pa_ok = not pa_exp or any(t == ble.AD_TX_POWER and d == pa_exp[0][1] for t, d in got)
        bad.append(("name-field" if pa_ok else "tx-power-field", "optional structures %s, expected %s"
                    % (octs[11:11 + optlen].hex(), [(list(ts), d.hex()) for ts, d in opt])))
    tail = octs[11 + optlen:2 + n]
    if tail != data:
        bad.append(("chunks", "caller's data %s arrived as %s" % (data.hex(), tail.hex())))
    if not bad:
        return None
    if len(bad) >= 4 and bad[0][0] == "header":
        return "garbled", "de-whitened packet is unrecognisable: %s" % octs[:2 + n].hex()
    return bad[0]


def judge_packet(payload, rf_ch, exp_mac, mac_prefix, opt, data):
    """-> list of (clause, what) for one transmitted radio payload"""
    idx = ble.ble_channel(rf_ch)
    if idx is None:
        return [("tuned-off-ble", "advertisement transmitted with RF_CH=%d, not an advertising channel frequency" % rf_ch)]
    octs = ble.dewhiten(payload, channel_index=idx)
    f = check_fields(octs, exp_mac, mac_prefix, opt, data)
    if f is None:
        pdu, ok = ble.decode(payload, channel_index=idx)
        if not ok:
            return [("crc", "CRC-24 of %s is wrong for PDU %s" % (payload.hex(), pdu.hex() if pdu else None))]
        return []
    for other in (37, 38, 39):
        if other != idx and check_fields(ble.dewhiten(payload, channel_index=other), exp_mac, mac_prefix, opt, data) is None:
            return [("whitening-channel", "packet sent on RF_CH=%d (BLE channel %d) is whitened for BLE channel %d"
                     % (rf_ch, idx, other))]
    if f[0] == "garbled":
        rev = bytes(int("{:08b}".format(b)[::-1], 2) for b in payload)
        if check_fields(ble.dewhiten(rev, channel_index=idx), exp_mac, mac_prefix, opt, data) is None:
            return [("bit-order", "payload bytes are not bit-reversed for the MSBit-first radio")]
    return [f]


def judge_radio(pkt, cmd):
    out = []
    if pkt.esb:
        out.append(("framing", "packet sent with Enhanced ShockBurst framing (EN_AA/EN_DPL not cleared)"))
    if pkt.crc:
        out.append(("radio-crc", "hardware CRC of %d byte(s) appended to the BLE packet" % pkt.crc))
    if pkt.addr != NRF_ADDR:
        out.append(("access-address", "address on the air %s (width %d), BLE access address needs %s"
                    % (pkt.addr.hex(), len(pkt.addr), NRF_ADDR.hex())))
    if pkt.rate != 1000:
        out.append(("data-rate", "air data rate %d kbps" % pkt.rate))
    if cmd is not None and pkt.payload != cmd[1:]:
        out.append(("payload-path", "W_TX_PAYLOAD %s but %s on the air" % (cmd[1:].hex(), pkt.payload.hex())))
    return out


# --------------------------------------------------------------------------- one E-ENUM case
def base_pack(seed):
    w = World(horizon_ns=HORIZON).activate()
    H.URANDOM.reseed(seed)
    drv, radio = H.mk_driver(w, "ble", cls=H.FakeBLE, spilog=True)
    del radio.spilog[:]
    del w.airlog[:]
    return w, drv, radio


def exec_case(pack, case, seed):
    """-> (fails [(clause, what)], feats, outcome)"""
    w, drv, radio = copy.deepcopy(pack)
    w.activate()
    fails = []
    nkind, nlen = case["name"]
    show, level = case["pa"][:2]
    lna = case["pa"][2] if len(case["pa"]) > 2 else True
    # the form in which the application switches the field on: a bool, or another truthy value (a masked configuration word)
    show_arg = (4 if show else 0) if (len(case["pa"]) > 3 and case["pa"][3] == "int") else show
    name_arg, name_raw = name_value(nkind, nlen, seed)
    mac_arg, mac_exp = mac_value(case["mac"], seed, nlen)
    feats = {"name": "none" if name_raw is None else "set", "pa": "on" if show else "off",
             "data": case["data"][0], "ch": "?", "fit": "?"}

    def guarded(where, fn, allowed=()):
        try:
            fn()
            return None
        except (HarnessError, Abort):
            raise
        except allowed as e:
            return type(e).__name__
        except Exception as e:  # noqa
            fails.append(("exception:%s:%s" % (type(e).__name__, where), "%s raised %r" % (where, e)))
            return type(e).__name__

    guarded("enter", drv.__enter__)
    for _ in range(case["hops"]):
        guarded("hop_channel", drv.hop_channel)
    if mac_arg != "keep":
        guarded("mac", lambda: setattr(drv, "mac", mac_arg))
    # (the tuple form also switches the LNA gain bit of RF_SETUP off: the advertised TX power is the PA level all the same)
    guarded("pa_level", lambda: setattr(drv, "pa_level", level if lna else (level, False)))
    # optional fields, in either order; a setter may refuse only what can never be advertised
    name_eff, show_eff = None, False
    rejected = []

    def set_name():
        nonlocal name_eff
        if name_raw is None:
            guarded("name", lambda: setattr(drv, "name", None))
            return
        r = guarded("name", lambda: setattr(drv, "name", name_arg), (ValueError,))
        if r is None:
            name_eff = name_raw
        elif r == "ValueError":
            rejected.append("name")
            if len(name_raw) + 2 + 3 * show_eff <= CAPACITY:
                fails.append(("setter-rejects-fitting:name", "name of %d bytes refused although it fits (show_pa_level=%s)"
                              % (len(name_raw), show_eff)))

    def set_show():
        nonlocal show_eff
        r = guarded("show_pa_level", lambda: setattr(drv, "show_pa_level", show_arg), (ValueError,))
        if r is None:
            show_eff = bool(show)
        elif r == "ValueError":
            rejected.append("pa")
            if not show or (0 if name_eff is None else len(name_eff) + 2) + 3 <= CAPACITY:
                fails.append(("setter-rejects-fitting:show_pa_level", "show_pa_level=%s refused although it fits" % show))

    for step in ((set_name, set_show) if case["order"] == "name-first" else (set_show, set_name)):
        step()
    feats["name"] = "none" if name_eff is None else "set"  # the configuration in effect, not the one asked for
    feats["pa"] = "on" if show_eff else "off"
    # accessors reflect the configuration
    try:
        g = drv.name
        if (g is None) != (name_eff is None) or (g is not None and bytes(g) != name_eff):
            fails.append(("name-getter", "name reads back %r, configured %r" % (g, name_eff)))
        if bool(drv.show_pa_level) != show_eff:
            fails.append(("show_pa_level-getter", "show_pa_level reads back %r" % drv.show_pa_level))
        mac_now = bytes(drv.mac)
    except (HarnessError, Abort):
        raise
    except Exception as e:  # noqa
        fails.append(("exception:%s:getter" % type(e).__name__, "accessor raised %r" % e))
        mac_now = None
    if mac_now is not None and (len(mac_now) != 6 or not mac_now.startswith(mac_exp)):
        fails.append(("mac-setter", "mac reads back %s after setting %r" % (mac_now.hex(), mac_arg)))
    exp_mac = mac_exp if len(mac_exp) == 6 else mac_now
    opt = []
    if show_eff:
        opt.append(((ble.AD_TX_POWER,), bytes([level & 0xFF])))
    if name_eff is not None:
        opt.append(((ble.AD_SHORT_NAME, ble.AD_COMPLETE_NAME), name_eff))
    optlen = sum(2 + len(d) for _, d in opt)
    free = CAPACITY - optlen
    try:
        args, data, pairs = data_value(case["data"], seed)
    except (HarnessError, Abort):
        raise
    except Exception as e:  # noqa  (service data classes / chunk() of the library raised)
        fails.append(("exception:%s:data-helper" % type(e).__name__, "building %r raised %r" % (case["data"], e)))
        return fails, feats, "helper-raises"
    for lib, mine in pairs:
        if lib != mine:
            fails.append(("chunk-helper", "chunk() built %s, an AD structure of that type and data is %s" % (lib.hex(), mine.hex())))
    left = free - len(data)
    feats["fit"] = "over" if left < 0 else ("full" if left == 0 else "under")
    # len_available(): exact free bytes, with and without the hypothetical data
    try:
        la0 = drv.len_available()
        la1 = drv.len_available(data)
        if la0 != free:
            fails.append(("len_available", "len_available() = %r, %d bytes are free" % (la0, free)))
        elif la1 != left:
            fails.append(("len_available-hypothetical", "len_available(%d bytes) = %r, expected %d" % (len(data), la1, left)))
    except (HarnessError, Abort):
        raise
    except Exception as e:  # noqa
        fails.append(("exception:%s:len_available" % type(e).__name__, "len_available raised %r" % e))
    mark, amark = len(radio.spilog), len(w.airlog)
    feats["ch"] = radio.r[0x05]
    exc = guarded("advertise", lambda: drv.advertise(*args), (ValueError,))
    outcome = "exception:%s" % exc
    w.advance(1000000)
    cmds = tx_cmds(radio, mark)
    pkts = [p for p in w.airlog[amark:] if p.src is radio]
    if left < 0:
        if exc != "ValueError":
            fails.append(("valueerror-missing", "advertise() accepted a packet %d byte(s) over the 32 byte limit (%r)" % (-left, exc)))
        if cmds or pkts or radio.tx_fifo:
            fails.append(("valueerror-leak", "packet does not fit but %d payload(s) reached the radio" % max(len(cmds), len(pkts))))
        outcome = "refused:over%d:%s" % (-left, exc)
    else:
        if exc == "ValueError":
            fails.append(("valueerror-spurious", "advertise() refused a packet that fits with %d byte(s) to spare" % left))
            outcome = "refused-fitting"
        if exc is None or cmds or pkts:
            if len(cmds) != 1 or len(pkts) != 1:
                fails.append(("tx-count", "%d W_TX_PAYLOAD, %d packets on the air for one advertise()" % (len(cmds), len(pkts))))
            for i, p in enumerate(pkts[:1]):
                cmd = cmds[i] if i < len(cmds) else None
                fails += judge_radio(p, cmd)
                fails += judge_packet(p.payload, p.ch, exp_mac, mac_exp, opt, data)
            if not pkts and cmds:
                fails += judge_packet(cmds[0][1:], radio.r[0x05], exp_mac, mac_exp, opt, data)
            if radio.tx_fifo:
                fails.append(("tx-residue", "TX FIFO not empty after advertise() returned"))
        if exc is None:
            outcome = "sent:ch%s:opt%d:data%d:%s" % (pkts[0].ch if pkts else "?", optlen, len(data), "full" if left == 0 else "room")
    if rejected:
        outcome += ":setter-refused-" + "+".join(rejected)
    if name_raw is not None and name_eff is not None and len(name_eff) + 2 > CAPACITY:
        outcome += ":unusable-name-accepted"
    return fails, feats, outcome


def do_cases(part, item_key, cases, seed, rep):
    pack = base_pack(seed)
    for case in cases:
        fails, feats, outcome = exec_case(pack, case, seed)
        rep.case()
        rep.transitions += 1
        rep.traces += 1
        rep.outcome(outcome)
        if not outcome.startswith("refused-fitting"):
            rep.nt(repr(sorted(case.items())))
        rep.part(part, executions=1)
        for clause, what in fails:
            stash(rep, item_key, clause, feats, what, {"part": part, "case": case, "seed": seed},
                  size=len(repr(case)))


# --------------------------------------------------------------------------- E-ENUM domains
def compositions(total, k, least=2):
    """all ways to split `total` bytes into k AD structures of >= `least` bytes each"""
    if k == 1:
        if total >= least:
            yield (total,)
        return
    for first in range(least, total - least * (k - 1) + 1):
        for rest in compositions(total - first, k - 1, least):
            yield (first,) + rest


def name_domain():
    out = [("none", 0)]
    for kind in ("str", "bytes"):
        out += [(kind, n) for n in range(0, 21)]
    out += [("bytearray", n) for n in (0, 5, 16, 17)] + [("utf8", n) for n in (2, 9, 16, 17, 18, 19)]
    return out


def free_of(name, pa):
    return CAPACITY - (0 if name[0] == "none" else name[1] + 2) - (3 if pa[0] else 0)


def items_fields(tier, seed):
    """optional-field product: every name x PA configuration x setter order x channel, data =
    nothing / a raw buffer / a one-element list sized limit-2..limit+2"""
    items = []
    pas = [(s, lv) for s in (False, True) for lv in PA_LEVELS] + [(True, lv, False) for lv in PA_LEVELS]
    pas += [(True, PA_LEVELS[0], True, "int"), (False, PA_LEVELS[1], True, "int")]  # show_pa_level = 4 / = 0
    for ni, name in enumerate(name_domain()):
        cases = []
        for pa in pas:
            for order in ("name-first", "pa-first"):
                for hops in (0, 1, 2):
                    free = free_of(name, pa)
                    mac = ("bytes", "int", "bytearray")[(hops + ni) % 3]
                    base = dict(name=list(name), pa=list(pa), order=order, hops=hops, mac=mac)
                    cases.append(dict(base, data=["none"]))
                    for tot in range(free - 2, free + 3):
                        if tot >= 3:
                            dtype = (None, 0x16, 0xFF, 0x2A)[(tot + hops) % 4]
                            cases.append(dict(base, data=["raw", tot - 2, dtype, "bytes" if tot % 2 else "bytearray"]))
                        if tot >= 2 and (tier == "thorough" or order == "name-first"):
                            cases.append(dict(base, data=["list", [[0xFF if tot % 3 else 0x16, tot - 2]], "list", "bytes"]))
        items.append(("fields", "f%03d" % ni, cases, seed))
    return items


def items_chunks(tier, seed):
    """capacity boundary: for every reachable number of free bytes, every split of every total
    limit-2..limit+2 into 1..3 structures"""
    items = []
    cfgs = []
    for pa in ((False, 0), (True, -12)):
        cfgs.append((("none", 0), pa))
        for n in range(0, 17):
            cfgs.append((("bytes", n), pa))
    for ci, (name, pa) in enumerate(cfgs):
        free = free_of(name, pa)
        cases = []
        k_i = 0
        for tot in range(free - 2 if tier == "quick" else 2, free + 3):
            for k in (1, 2, 3):
                for combo in compositions(tot, k):
                    k_i += 1
                    chans = (0, 1, 2) if tier == "thorough" or k < 3 else ((ci + k_i) % 3,)
                    for hops in chans:
                        kind = "libchunk" if k_i % 4 == 0 else "list"
                        parts = [[(0xFF, 0x16, 0x21)[(i + k_i) % 3], c - 2] for i, c in enumerate(combo)]
                        cases.append(dict(name=list(name), pa=list(pa), order="pa-first", hops=hops, mac="bytes",
                                          data=[kind, parts, "tuple" if k_i % 2 else "list",
                                                "bytearray" if k_i % 3 == 0 else "bytes"]))
        items.append(("chunks", "c%03d" % ci, cases, seed))
    return items


def items_misc(tier, seed):
    """service-data helper objects, MAC forms, empty-data call forms, wrap-around hops"""
    cases = []
    svcs = [["svc", "battery", v] for v in (0, 1, 100, 255, seed % 256)]
    svcs += [["svc", "temperature", v] for v in (0.0, 25.5, -12.25, 300.0, -300.0)]
    svcs += [["svc", "url", u] for u in ("http://www.google.com", "https://a.org/", "http://x", "https://www.example.info/ab")]
    for hops in (0, 1, 2, 3, 4):
        for name in (("none", 0), ("str", 3), ("bytes", 8), ("str", 12)):
            for pa in ((False, 0), (True, -18), (True, 0)):
                base = dict(name=list(name), pa=list(pa), order="name-first", hops=hops, mac="bytes")
                for s in svcs:
                    cases.append(dict(base, data=s))
                for c in ("list", "tuple", "bytes", "bytearray"):
                    cases.append(dict(base, data=["empty", c]))
        for mac in ("bytes", "bytearray", "int", "short", "none", "keep"):
            for name in (("none", 0), ("str", 5)):
                cases.append(dict(name=list(name), pa=[True, -6], order="name-first", hops=hops, mac=mac,
                                  data=["raw", 4, None, "bytes"]))
    n = max(1, len(cases) // 6)
    return [("misc", "m%03d" % i, cases[i * n:(i + 1) * n], seed) for i in range((len(cases) + n - 1) // n)]


# --------------------------------------------------------------------------- E-BFS over histories
OPKIND = {"hop": "hop_channel", "ch": "channel-assign", "exit": "with-exit", "enter": "with-enter",
          "foreign_rf24": "foreign-with", "foreign_ble": "foreign-ble-with", "adv": "advertise", "name": "name-assign", "pa": "show_pa_level-assign"}
PROBE_NAME = b"nRF"


def hist_init(seed, variant):
    """[world, FakeBLE under test, radio, foreign RF24, foreign FakeBLE, meta]"""
    w = World(horizon_ns=HORIZON).activate()
    H.URANDOM.reseed(seed)
    drv, radio = H.mk_driver(w, "ble", cls=H.FakeBLE)
    drv.mac = H.pattern(6, seed, 3)
    f1 = H.attach_driver(w, radio, H.RF24)
    with f1:
        f1.channel = 26
    f2 = H.attach_driver(w, radio, H.FakeBLE)
    f2.mac = H.pattern(6, seed, 4)
    meta = {"inside": False, "ok": True}
    if variant != "outside":
        drv.__enter__()
        meta["inside"] = True
    if variant == "inside-hop2":
        drv.hop_channel()
        drv.hop_channel()
    del w.airlog[:]
    return [w, drv, radio, f1, f2, meta]


def hist_alphabet(st):
    ops = ["hop", ["ch", 2], ["ch", 26], ["ch", 80], ["ch", 5]]
    if st[5]["inside"]:
        ops += ["exit", "adv", ["name", 6], ["name", 0], ["pa", 1], ["pa", 0]]
    else:
        ops += ["enter", "foreign_rf24", "foreign_ble"]
    return ops


def hist_canon(st):
    w, drv, radio, f1, f2, meta = st
    return (radio.snapshot(), H.driver_state(drv), H.driver_state(f1), H.driver_state(f2), meta["inside"], w.pending())


def advertise_and_judge(w, drv, radio, seed, fails, who="advertise", pkt_fails=None):
    """one advertisement of the object's current configuration; the whitening channel must match
    the frequency the radio is tuned to when the packet leaves"""
    amark = len(w.airlog)
    try:
        name = drv.name
        show = bool(drv.show_pa_level)
        level = drv.pa_level
        mac = bytes(drv.mac)
        buf = H.pattern(3, seed, 9)
        drv.advertise(buf, 0xFF)
    except (HarnessError, Abort):
        raise
    except Exception as e:  # noqa
        fails.append(("exception:%s:%s" % (type(e).__name__, who), "%s raised %r" % (who, e)))
        return None
    w.advance(1000000)
    pkts = [p for p in w.airlog[amark:] if p.src is radio]
    del w.airlog[:]
    if len(pkts) != 1:
        fails.append(("tx-count", "%d packets on the air for one advertise()" % len(pkts)))
        return None
    opt = []
    if show:
        opt.append(((ble.AD_TX_POWER,), bytes([level & 0xFF])))
    if name is not None:
        opt.append(((ble.AD_SHORT_NAME, ble.AD_COMPLETE_NAME), bytes(name)))
    p = pkts[0]
    got = judge_radio(p, None) + judge_packet(p.payload, p.ch, mac, mac, opt, ble.ad(0xFF, buf))
    if pkt_fails is None:
        fails += got
    else:
        pkt_fails += got
    return p.ch, not got


def hist_probe(st, seed):
    """advertise once on a private copy (entering the `with` block first when outside)"""
    w, drv, radio, f1, f2, meta = copy.deepcopy(st)
    w.activate()
    fails = []
    try:
        if not meta["inside"]:
            drv.__enter__()
        drv.name = PROBE_NAME
        drv.show_pa_level = True
    except (HarnessError, Abort):
        raise
    except Exception as e:  # noqa
        fails.append(("exception:%s:probe" % type(e).__name__, "entering / configuring raised %r" % e))
        return fails, None
    r = advertise_and_judge(w, drv, radio, seed, fails)
    # second probe: the object's CURRENT optional fields (nothing assigned by the probe)
    w2, drv2, radio2, _f1, _f2, meta2 = copy.deepcopy(st)
    w2.activate()
    try:
        if not meta2["inside"]:
            drv2.__enter__()
        nm, show = drv2.name, bool(drv2.show_pa_level)
        free = CAPACITY - (0 if nm is None else len(nm) + 2) - (3 if show else 0)
        la = drv2.len_available()
        if la != free:
            fails.append(("len_available", "len_available() is %r with name %r and show_pa_level %r: %d bytes are free" % (la, nm, show, free)))
        hyp = drv2.len_available(b"\x00" * 4)
        if hyp != free - 4:
            fails.append(("len_available-hypothetical", "len_available(4 bytes) is %r, expected %d" % (hyp, free - 4)))
    except (HarnessError, Abort):
        raise
    except Exception as e:  # noqa
        fails.append(("exception:%s:probe" % type(e).__name__, "len_available() raised %r" % e))
        return fails, r
    advertise_and_judge(w2, drv2, radio2, seed, fails, "advertise-current-config")
    return fails, r


def hist_apply_op(st, op, seed, fails, pkt_fails):
    w, drv, radio, f1, f2, meta = st
    w.activate()
    name = op if isinstance(op, str) else op[0]
    try:
        if name == "hop":
            drv.hop_channel()
        elif name == "ch":
            before = radio.r[0x05]
            try:
                drv.channel = op[1]
            except ValueError:
                if op[1] in (2, 26, 80):
                    raise
            if op[1] not in (2, 26, 80) and radio.r[0x05] != before:
                fails.append(("non-ble-channel-tuned", "channel = %d tuned the radio to RF_CH=%d" % (op[1], radio.r[0x05])))
            if op[1] in (2, 26, 80) and radio.r[0x05] != op[1]:
                fails.append(("channel-assign-ignored", "channel = %d left RF_CH=%d" % (op[1], radio.r[0x05])))
        elif name == "exit":
            drv.__exit__(None, None, None)
            meta["inside"] = False
        elif name == "enter":
            drv.__enter__()
            meta["inside"] = True
        elif name == "foreign_rf24":
            with f1:
                f1.channel = 80 if f1.channel == 26 else 26
        elif name == "foreign_ble":
            with f2:
                f2.hop_channel()
                advertise_and_judge(w, f2, radio, seed + 1, fails, "foreign-advertise", pkt_fails)
        elif name == "adv":
            advertise_and_judge(w, drv, radio, seed, fails, pkt_fails=pkt_fails)
        elif name == "name":
            drv.name = (b"abcdefgh"[:op[1]] if op[1] else None)
        elif name == "pa":
            drv.show_pa_level = bool(op[1])
        else:
            raise HarnessError("unknown op %r" % (op,))
    except (HarnessError, Abort):
        raise
    except Exception as e:  # noqa
        fails.append(("exception:%s:%s" % (type(e).__name__, OPKIND[name]), "%r raised %r" % (op, e)))
    del w.airlog[:]


def hist_step(st, op, seed):
    """apply one operation and probe -> (reports [(clause, what)], op kind, probe result, verdict).
    The step that breaks a consistent object carries the signature; an object that was already
    inconsistent only reports failures of the operation itself."""
    fails = []
    parent_ok = st[5]["ok"]
    pkt_fails = []
    hist_apply_op(st, op, seed, fails, pkt_fails)
    pf, r = hist_probe(st, seed)
    st[5]["ok"] = not pf
    name = op if isinstance(op, str) else op[0]
    kind = OPKIND[name] + ("-invalid" if name == "ch" and op[1] not in (2, 26, 80) else "")
    todo = fails + ((pkt_fails + pf) if parent_ok else [])
    seen, reports = set(), []
    for clause, what in todo:
        if clause not in seen:
            seen.add(clause)
            reports.append(("history-%s:after-%s" % (clause, kind), what))
    return reports, kind, r, "ok" if not pf else ("still-bad" if not parent_ok else "breaks")


def w_history(item, rep):
    _, item_key, variant, depth, seed = item
    init = hist_init(seed, variant)
    f0, r0 = hist_probe(init, seed)
    init[5]["ok"] = not f0
    for clause, what in f0:  # the probe of an initial state is an ordinary E-ENUM case
        stash(rep, item_key, clause, {"name": "set", "pa": "on", "data": "raw", "ch": r0[0] if r0 else "?", "fit": "under"},
              what, {"part": "history", "variant": variant, "ops": [], "seed": seed})

    def apply(st, op, hist):
        ops = hist[1:] + [op]
        reports, kind, r, verdict = hist_step(st, op, seed)
        rep.traces += 1
        rep.outcome("hist:%s:%s:%s" % (kind, "ch%s" % r[0] if r else "none", verdict))
        rep.part("history", executions=1)
        rd = {"part": "history", "variant": variant, "ops": ops, "seed": seed}
        for clause, what in reports:
            stash(rep, item_key, clause, {}, what + " after " + repr(ops), rd, size=len(ops))
        rep.nt(repr((variant, ops)))
        return True

    done = bfs([(init, variant)], hist_alphabet, apply, hist_canon, depth, rep)
    rep.part("history", **{"depth_completed_" + variant: done})


# --------------------------------------------------------------------------- repeated advertisements
def w_repeat(item, rep):
    """the usual 37/38/39 loop: the SAME list / tuple of chunks (bytearrays from chunk(), bytes) is
    advertised again and again with a hop in between; every packet must carry the caller's chunks
    verbatim and the caller's objects must not change"""
    _, seed = item
    for container in (list, tuple):
        for kinds in (("ba", "ba"), ("ba", "by"), ("by", "ba"), ("ba", "ba", "ba"), ("ba",)):
            w, drv, radio = copy.deepcopy(base_pack(seed))
            w.activate()
            drv.__enter__()
            drv.mac = H.pattern(6, seed, 5)
            chunks = []
            for i, k in enumerate(kinds):
                c = ble.ad(0xFF if i else 0x16, H.pattern(2 + i, seed, 30 + i))
                chunks.append(bytearray(c) if k == "ba" else bytes(c))
            keep = [bytes(c) for c in chunks]
            arg = container(chunks)
            fails = []
            for rnd in range(4):
                amark = len(w.airlog)
                try:
                    drv.advertise(arg)
                except (HarnessError, Abort):
                    raise
                except Exception as e:  # noqa
                    fails.append(("repeat-exception:%s" % type(e).__name__, "advertise() #%d of the same %s raised %r" % (rnd + 1, container.__name__, e)))
                    break
                w.advance(1000000)
                pkts = [p for p in w.airlog[amark:] if p.src is radio]
                if len(pkts) != 1:
                    fails.append(("tx-count", "%d packets for advertise() #%d" % (len(pkts), rnd + 1)))
                    break
                got = judge_packet(pkts[0].payload, pkts[0].ch, bytes(drv.mac), bytes(drv.mac), [], b"".join(keep))
                if got:
                    fails.append(("repeat-" + got[0][0], "advertise() #%d of the same %s: %s" % (rnd + 1, container.__name__, got[0][1])))
                    break
                if [bytes(c) for c in chunks] != keep:
                    fails.append(("repeat-caller-chunks-modified", "the caller's chunk objects changed after advertise() #%d" % (rnd + 1)))
                    break
                drv.hop_channel()
            rep.case()
            rep.transitions += 4
            rep.traces += 1
            rep.outcome("repeat:%s:%s" % (container.__name__, "ok" if not fails else fails[0][0]))
            rep.nt("repeat:%s:%s" % (container.__name__, "+".join(kinds)))
            for clause, what in fails:
                rep.violation("%s/%s" % (PID, clause), what, {"part": "repeat", "seed": seed})


# --------------------------------------------------------------------------- work dispatch
def work(item, rep):
    if item[0] == "history":
        return w_history(item, rep)
    if item[0] == "repeat":
        return w_repeat(item, rep)
    part, item_key, cases, seed = item
    do_cases(part, item_key, cases, seed, rep)


def w_reference(seed, rep):
    """cross-validation of the reference codec (encoder vs decoder, spec fixed points)"""
    n = ble.selfcheck(seed)
    rep.part("reference", roundtrips=n)


def run(tier, seed, rep, only=None):
    # the field / chunk / misc enumerations always run at what used to be the thorough bounds (they are cheap)
    depth = 6 if tier == "quick" else 9
    tier = "thorough"
    w_reference(seed, rep)
    items = []
    if not only or "fields" in only:
        items += items_fields(tier, seed)
    if not only or "chunks" in only:
        items += items_chunks(tier, seed)
    if not only or "misc" in only:
        items += items_misc(tier, seed)
    hist = [("history", "h%d" % i, v, depth, seed) for i, v in enumerate(("inside", "outside", "inside-hop2"))]
    if not only or "history" in only:
        items = hist + items
    ncases = sum(len(it[2]) for it in items if it[0] != "history")
    if not only or "repeat" in only:
        items.append(("repeat", seed))
    pmap(work, items, rep)
    collapse(rep, PID)
    ordered = sorted(rep.outcomes.items())  # merge order of the workers must not show in the evidence
    rep.outcomes.clear()
    rep.outcomes.update(dict(ordered))
    del rep.samples[:]  # written-out cases chosen here, not by whichever worker finishes first
    for it in items:
        if it[0] == "history":
            rep.sample({"part": "history", "initial": it[2], "ops": ["hop", ["ch", 26], "exit", "foreign_rf24", "enter"][:it[3]],
                        "then": "advertise; decode for the BLE channel of RF_CH"})
    for part in ("fields", "chunks", "misc"):
        its = [it for it in items if it[0] == part]
        if its:
            cases = its[len(its) // 2][2]
            rep.sample({"part": part, "case": cases[len(cases) // 2]})
    rep.states += len([it for it in items if it[0] != "history"])
    return dict(
        level="model_checking",
        exhaustive=True,
        rule="E-ENUM: every name (None, str/bytes of every length 0..20, bytearray, multi-byte UTF-8) x show_pa_level x 4 PA levels "
             "x setter order x 3 channels with data sized limit-2..limit+2 (raw buffer and 1-element list); for every reachable "
             "number of free bytes every split of every total limit-2..limit+2 into 1..3 AD structures; service-data objects, MAC "
             "forms, empty call forms, wrap-around hops.  E-BFS: histories over hop_channel / channel=2|26|80|5 / own with exit+enter "
             "/ foreign RF24 and foreign FakeBLE with-blocks / advertise, from 3 initial states, an advertisement probed after every "
             "transition.  Every transmitted payload is decoded by vf.ref.ble for the BLE channel of RF_CH at transmission.  "
             "A case is non-trivial when a packet was sent or a ValueError was due; states = BFS states + E-ENUM work items.",
        bounds=dict(name_lengths="0..20", pa_levels=list(PA_LEVELS), totals="limit-2..limit+2", chunks="1..3",
                    history_depth=depth, enum_cases=ncases),
        trusted_base=["vf/sim.py (nRF24L01+ behavioural model: SPI log, legacy ShockBurst framing, air log)",
                      "vf/ref/ble.py (bit-serial BLE link layer: whitening, CRC-24, AD parser; self-checked at start)"],
        assumptions=["MAC / name / data bytes are seed-derived patterns, not all values", "payload_length left at its default of 32",
                     "MACs are 6 bytes (longer buffers are outside the property)", "CPython 3.12 only"],
        min_outcomes=8,
    )


def replay(data):
    r = data["replay"]
    seed = r["seed"]
    fails = []
    if r["part"] == "repeat":
        from ..engine import Report
        rp = Report()
        w_repeat(("repeat", seed), rp)
        want = data.get("signature")
        return [(s_, v_["what"]) for s_, v_ in rp.violations.items() if want is None or s_ == want]
    if r["part"] == "history":
        st = hist_init(seed, r["variant"])
        f0, r0 = hist_probe(st, seed)
        st[5]["ok"] = not f0
        if not r["ops"]:
            fails += f0
        for i, op in enumerate(r["ops"]):
            reports, kind, res, verdict = hist_step(st, op, seed)
            print("step", i, op, "-> probe (RF_CH, consistent) =", res, verdict, reports)
            if i == len(r["ops"]) - 1:
                fails += reports
    else:
        f, feats, outcome = exec_case(base_pack(seed), r["case"], seed)
        print("case", r["case"], "->", outcome, feats)
        fails += f
    return replay_verdict(data, fails)
