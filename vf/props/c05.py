"""C05 - a network message reaches its destination exactly once, intact, over any tree.
E-ENUM over (topology, src, dst, length, type, API, fragmentation, timing class) and E-DFS over
per-delivery application-latency deviations, in the threaded discrete-event world: every node
is a real RF24Network / RF24NetworkRoutingOnly object on its own simulated MCU and radio."""
import copy

from .. import harness as H
from .. import net as N
from ..engine import pmap, explore, Chooser
from ..sim import MS, US, Abort, HarnessError

PID = "C05"

O = lambda s: int(s, 8)  # noqa: E731

TOPOS = {
    # chain of depth 4 with a second branch: routes of up to 8 hops
    # (the second branch uses the digits 4 and 5: addresses above 0o3777 need all 12 address bits,
    # and child number 5 shares its parent's pipe 5 with the grandparent)
    "chain": [O(x) for x in ("0", "1", "11", "111", "1111", "5", "45", "445", "4445")],
    # bushy 3-level tree
    "bushy": [O(x) for x in ("0", "1", "2", "3", "5", "11", "21", "51", "12", "32", "15", "111", "211")],
    # mixed routing-only / full nodes
    "mixed": [O(x) for x in ("0", "1", "11", "21", "2", "12", "112")],
}
# every node of this topology was constructed with ANOTHER address (of another level) and re-assigned
# afterwards - what a mesh renewal does, and what the documentation prescribes after changing
# allow_multicast / address bytes
TOPOS["readdr"] = [O(x) for x in ("0", "1", "3", "11", "31", "13", "113")]
# destinations that also hand system messages to update()'s caller (ret_sys_msg, always on for mesh nodes): user
# types - 127 is the highest - are queued all the same
TOPOS["retsys"] = [O(x) for x in ("0", "2", "12", "32")]
# routers whose multicast level was overridden (below / above their own level): routing is by address, not by level
TOPOS["mclevel"] = [O(x) for x in ("0", "1", "11", "111", "1111", "2")]
# every node has switched fragmentation and multicasting off and on again (and re-assigned its address, as documented)
TOPOS["toggled"] = [O(x) for x in ("0", "3", "13", "213")]
# the documentation's second network ("network_b"): every node assigns its own address bytes and then re-assigns the address
# it already has, which is the documented way to make them take effect
TOPOS["netb"] = [O(x) for x in ("0", "2", "12", "5")]
# connected mesh nodes (RF24MeshNoMaster / RF24Mesh objects placed on their addresses the way renew_address() does once an address
# was granted; master = RF24Mesh with node id 0): their write(address, type, message) is another entry into the same routing
TOPOS["meshy"] = [O(x) for x in ("0", "1", "11", "5", "21")]
MESH_TOPOS = {"meshy"}
NODE_ATTR_SEQ = {"netb": [("address_prefix", bytearray([0xDB])), ("address_suffix", bytearray([0xDD, 0x99, 0xB6, 0xD9, 0x9D, 0x66]))],
                 "toggled": [("fragmentation", False), ("fragmentation", True), ("allow_multicast", False), ("allow_multicast", True),
                             ("multicast_relay", True), ("multicast_relay", False)]}
NODE_ATTRS = {"retsys": {a: {"ret_sys_msg": True} for a in TOPOS["retsys"]},
              "mclevel": {O("1"): {"multicast_level": 0}, O("11"): {"multicast_level": 0}, O("111"): {"multicast_level": 4}, O("2"): {"multicast_level": 3}}}
PRE_ADDR = {O("0"): O("12"), O("1"): O("234"), O("3"): O("5"), O("11"): O("2"), O("31"): O("1234"), O("13"): O("4"), O("113"): O("35")}
ROUTING_ONLY = {"mixed": {O("1"), O("2"), O("12")}}
LENGTHS_Q = (0, 1, 24, 25, 48, 49, 144)
TYPES = (0, 1, 64, 65, 127)

_templates = {}


def template(topo, cost, frag):
    key = (topo, cost, frag)
    t = _templates.get(key)
    if t is None:
        ro = ROUTING_ONLY.get(topo, ())
        specs = [{"addr": a, "cls": H.RF24NetworkRoutingOnly if a in ro else H.RF24Network} for a in TOPOS[topo]]
        if topo in MESH_TOPOS:
            specs = [{"addr": a, "key": a, "cls": H.RF24Mesh if (k % 2 == 0) else H.RF24MeshNoMaster, "node_id": 0 if a == 0 else 40 + k, "name": "n%o" % a}
                     for k, a in enumerate(TOPOS[topo])]
        if topo == "readdr":
            for sp in specs:
                sp["pre_addr"] = PRE_ADDR[sp["addr"]]
        for sp in specs:
            if sp["addr"] in NODE_ATTRS.get(topo, {}):
                sp["attrs"] = dict(NODE_ATTRS[topo][sp["addr"]])
            if topo in NODE_ATTR_SEQ:
                sp["attr_seq"] = list(NODE_ATTR_SEQ[topo])
                sp["rebegin"] = True
        t = N.Net(specs, cost_class=cost)
        if topo in MESH_TOPOS:
            for a in TOPOS[topo]:
                if a:
                    t.nodes[a]._begin(a)
        if not frag:
            for n in t.nodes.values():
                n.fragmentation = False
        _templates[key] = t
    return t


def run_unicast(case, chooser=None):
    """one complete execution -> observation dict"""
    net = copy.deepcopy(template(case["topo"], case["cost"], case["frag"]))
    net.w.activate()
    H.reset_frame_ids()
    H.set_frame_id(case.get("id0", 0))
    net.lat = N.LAT[case["lat"]]
    net.chooser = chooser
    src, dst = case["src"], case["dst"]
    msg = H.pattern(case["mlen"], case.get("seed", 0), salt=case["mlen"] + 3)
    obs = {"c07": [], "ret": "unset"}
    if case.get("lose"):
        # the k-th distinct network frame transmitted by node `lose_at` (default: the origin) is lost for good
        # (every retransmission of it), for every k in case["lose"]
        lose, at, order = set(case["lose"]), net.radios[case.get("lose_at", src)].name, {}

        def fault(pkt):
            if pkt.is_ack or pkt.src.name != at:
                return False
            return order.setdefault(pkt.payload, len(order)) in lose
        net.w.fault = fault

    def hook(key, node, radio):
        bad = N.listening_violations(node, radio)
        if bad:
            obs["c07"].append((key, "update", tuple(bad)))

    def sender(ctx):
        n = net.nodes[src]
        ctx.wait(1 * MS)
        t0 = net.w.now
        hdr = H.RF24NetworkHeader(dst, case["mtype"])
        if case.get("hdr_from") is not None:
            # the reply idiom: the header object of a frame read earlier is re-used (to_node = from_node), so it
            # already names an origin - the peer ("dst") or any other address - when it is handed to send()/write()
            hdr.from_node = dst if case["hdr_from"] == "dst" else case["hdr_from"]
        buf = bytearray(msg) if case.get("buftype") == "bytearray" else msg
        if case.get("prior"):
            net.serve(ctx, src, 150 * MS, hook)  # (the other origin's cut-short message comes first)
            t0 = net.w.now
        if case.get("mcast_level") is not None:
            obs["ret"] = n.multicast(buf, case["mtype"], case["mcast_level"])  # (used by C06's end-to-end part)
        elif case["api"] == "mesh-write":
            obs["ret"] = n.write(dst, case["mtype"], buf)
        elif case["api"] == "send":
            obs["ret"] = n.send(hdr, buf)
        else:
            obs["ret"] = n.write(H.RF24NetworkFrame(hdr, buf))
        obs["dt"] = net.w.now - t0
        obs["hdr_type_after"] = hdr.message_type
        if case.get("second"):
            # a second message to the same destination, sent after the first one is through and
            # BEFORE the destination's application has read anything
            net.serve(ctx, src, 40 * MS, hook)
            mlen2, mtype2 = case["second"]
            msg2 = H.pattern(mlen2, case.get("seed", 0) + 1, salt=mlen2 + 5)
            obs["msg2"] = msg2
            if case.get("mcast_level") is not None:
                if case.get("second_gap_ms"):
                    net.serve(ctx, src, case["second_gap_ms"] * MS, hook)
                obs["ret2"] = n.multicast(msg2, mtype2, case["mcast_level"])
            elif case["api"] == "mesh-write":
                obs["ret2"] = n.write(dst, mtype2, msg2)
            else:
                obs["ret2"] = n.send(H.RF24NetworkHeader(dst, mtype2), msg2)
        bad = N.listening_violations(n, net.radios[src])
        if bad:
            obs["c07"].append((src, "write", tuple(bad)))
        net.serve(ctx, src, (case.get("drain", 120) + (200 if case["lat"] == 3 else 0)) * MS, hook)

    scripts = {src: sender}
    if case.get("prior"):
        # history: ANOTHER node sent a fragmented message to the same destination before, and that one was cut short (case["lose"]
        # names the frames of it - transmitted by case["lose_at"] - that never arrived); nothing of it may be delivered, and it must
        # not stand in the way of the judged message
        other, plen, ptype = case["prior"]

        def prior_script(ctx):
            ctx.wait(1 * MS)
            obs["prior_ret"] = net.nodes[other].send(H.RF24NetworkHeader(dst, ptype), H.pattern(plen, case.get("seed", 0) + 7, salt=plen + 1))
            net.serve(ctx, other, 500 * MS, hook)
        scripts[other] = prior_script
    net.run(scripts, idle_hook=hook)
    obs["aborted"] = net.w.aborted
    obs["exc"] = {k: type(e).__name__ + ": " + str(e)[:80] for k, e in net.exc.items()}
    obs["queues"] = net.queues()
    obs["msg"] = msg
    air = net.air()
    obs["npkts"] = len(air)
    obs["ncoll"] = sum(1 for p in air if p.collided)
    obs["oversize"] = [r.name for r in net.radios.values() if any(a[0] == "payload_width" for a in r.anomalies)]
    obs["flushed_unread"] = {k: r.rx_flushed_unread for k, r in net.radios.items() if r.rx_flushed_unread}
    # cause of an abandoned hop transmission: nobody listens on that address vs. contention
    listeners = set()
    for r in net.radios.values():
        for p in range(6):
            if r.r[0x02] & (1 << p):
                listeners.add(r.pipe_addr(p))
    unacked = {}
    for p in air:
        if not p.is_ack and not p.noack:
            unacked[(p.src.name, p.addr, p.payload)] = p.acked or unacked.get((p.src.name, p.addr, p.payload), False)
    abandoned = [k for k, acked in unacked.items() if not acked]
    obs["abandoned"] = len(abandoned)
    obs["cause"] = "none" if not abandoned else ("addressing" if any(k[1] not in listeners for k in abandoned) else "contention")
    obs["nchoices"] = len(chooser.trace) if chooser else 0
    # ground truth for the NETWORK_ACK round trip (late = arrived after route_timeout)
    sname = net.radios[src].name
    t_accept = next((p.end for p in air if p.src.name == sname and not p.is_ack and p.acked), None)
    t_nack = None
    for p in air:
        if not p.is_ack and sname in p.heard_by:
            f = N.parse_frame(p.payload)
            if f and f["type"] == 193 and f["to"] == src:
                t_nack = p.end
    obs["nack_rtt"] = None if t_accept is None or t_nack is None else t_nack - t_accept
    obs["route_timeout"] = net.nodes[src].route_timeout * MS
    return obs


def judge(case, obs, pid=PID):
    src, dst, msg = case["src"], case["dst"], obs["msg"]
    hops = len(N.tree_path(src, dst)) - 1
    shape = "%s:%s" % ("frag" if case["mlen"] > 24 else "single", "direct" if hops == 1 else "routed")
    v = []
    if obs["aborted"]:
        v.append(("%s/nontermination:%s" % (pid, shape), "virtual-time horizon hit"))
    for key, e in obs["exc"].items():
        role = "src" if key == src else ("dst" if key == dst else "router")
        v.append(("%s/exception:%s:%s" % (pid, e.split(":")[0], role), "node %o raised %s" % (key, e)))
    want = (src, dst, case["mtype"], msg)
    got = list(obs["queues"][dst])
    if obs.get("flushed_unread"):
        k0 = sorted(obs["flushed_unread"])[0]
        v.append(("%s/received-frames-discarded:%s" % (pid, "router" if k0 not in (src, dst) else ("src" if k0 == src else "dst")),
                  "node %o flushed %d received payload(s) out of its RX FIFO unread" % (k0, obs["flushed_unread"][k0])))
    if "msg2" in obs:
        want2 = (src, dst, case["second"][1], obs["msg2"])
        if want2 in got and want in got and got.index(want2) < got.index(want):
            v.append(("%s/second-message:order:%s" % (pid, shape), "the second message was queued before the first"))
        if want2 not in got:
            v.append(("%s/second-message:lost:%s" % (pid, shape), "the second message (%d bytes, type %d) is not in the destination's queue (first message %s)" % (
                len(obs["msg2"]), case["second"][1], "present" if want in got else "missing too")))
        elif obs.get("ret2") is not True:
            v.append(("%s/second-message:return-%r:%s" % (pid, obs.get("ret2"), shape), "send() of the second message returned %r" % (obs.get("ret2"),)))
        if want2 in got:
            got.remove(want2)
    for key, q in obs["queues"].items():
        if key != dst and q:
            v.append(("%s/bystander:%s" % (pid, shape), "node %o queued %d frame(s) not addressed to it" % (key, len(q))))
    if got.count(want) > 1:
        v.append(("%s/duplicate:%s" % (pid, shape), "destination queued the message %d times" % got.count(want)))
    for g in got:
        if g != want:
            what = "type" if g[3] == msg and g[:2] == want[:2] else ("origin" if g[2:] == want[2:] else "content")
            v.append(("%s/altered-%s:%s" % (pid, what, shape), "destination queued from=%o to=%o type=%d len=%d, sent type=%d len=%d" % (
                g[0], g[1], g[2], len(g[3]), case["mtype"], len(msg))))
    if obs["oversize"]:
        v.append(("%s/oversize:%s" % (pid, shape), "payload wider than 32 bytes written to the radio"))
    for key, when, bad in obs["c07"]:
        v.append(("%s/not-listening:%s:%s" % (pid, when, bad[0]), "node %o after %s(): %s" % (key, when, ",".join(bad))))
    contention = obs["ncoll"] > 0 or obs["cause"] == "contention"
    cause = "contention" if contention and obs["cause"] != "addressing" else obs["cause"]
    ret_bad = obs["ret"] is not True and not obs["aborted"] and src not in obs["exc"]
    late = False
    if ret_bad and want in got and obs["ret"] is False and 64 < case["mtype"] < 192 and hops > 1:
        # the NETWORK_ACK may legitimately be late when application loops are slow:
        # False is then the documented answer (decided by C13); only an ACK that reached the
        # origin's radio well within route_timeout makes a False return wrong here
        rtt = obs.get("nack_rtt")
        late = rtt is not None and rtt > obs["route_timeout"] - 5 * MS
    if shape == "frag:routed" and contention and (want not in got or ret_bad):
        v.append(("%s/frag-routed-contention" % pid, "message of %d bytes type %d from %o to %o: delivered=%d, %s() returned %r (%d hops, "
                  "%d abandoned hop transmissions, %d collisions)" % (len(msg), case["mtype"], src, dst, got.count(want), case["api"], obs["ret"],
                                                                     hops, obs["abandoned"], obs["ncoll"])))
    else:
        if want not in got:
            v.append(("%s/undelivered:%s:%s" % (pid, shape, cause), "message of %d bytes type %d from %o to %o not delivered (%d hops, %d abandoned hop "
                      "transmissions, %d collisions)" % (len(msg), case["mtype"], src, dst, hops, obs["abandoned"], obs["ncoll"])))
        if ret_bad and not late:
            v.append(("%s/return-%r:%s:%s" % (pid, obs["ret"], shape, "delivered" if want in got else "undelivered"),
                      "%s() returned %r (NETWORK_ACK round trip %s ms)" % (case["api"], obs["ret"], None if obs.get("nack_rtt") is None else obs["nack_rtt"] / 1e6)))
    obs["late_ack"] = late
    return v


def outcome_key(case, obs):
    hops = len(N.tree_path(case["src"], case["dst"])) - 1
    frags = (case["mlen"] + 23) // 24 if case["mlen"] > 24 else 1
    return "hops%d:frags%d:acktype%d:ret=%r:delivered=%d:%s%s" % (
        hops, frags, int(64 < case["mtype"] < 192), obs["ret"], len(obs["queues"][case["dst"]]), obs["cause"],
        ":late-ack" if obs.get("late_ack") else "")


def w_cases(item, rep):
    cases, dev_bound = item
    for case in cases:
        if dev_bound == 0:
            obs = run_unicast(case)
            _record(case, obs, rep, [])
        else:
            for ch, obs in explore(lambda c: run_unicast(case, c), dev_bound, max_execs=case.get("max_execs", 4000), rep=rep):
                _record(case, obs, rep, ch.trace)


def _record(case, obs, rep, trace):
    rep.case()
    rep.traces += 1
    rep.transitions += obs["npkts"]
    rep.part("unicast", executions=1, packets=obs["npkts"], collisions=obs["ncoll"], choice_points=obs["nchoices"])
    viol = judge(case, obs)
    rep.outcome(outcome_key(case, obs))
    if obs["npkts"]:
        rep.nt(repr((sorted(case.items()), [t[0] for t in trace])))
    for sig, what in viol:
        rep.violation(sig, what, {"case": case, "choices": [list(t) for t in trace]})


def pairs(topo):
    full = [a for a in TOPOS[topo] if a not in ROUTING_ONLY.get(topo, ())]
    return [(s, d) for s in full for d in TOPOS[topo] if s != d and d not in ROUTING_ONLY.get(topo, ())]


def build_items(tier, seed):
    items = []
    k = 0
    lengths = LENGTHS_Q if tier == "quick" else tuple(range(0, 145))
    timing = [(c, l) for c in range(4) for l in range(4)]
    for topo in TOPOS:
        if topo in MESH_TOPOS:
            continue  # (own API, below)
        for (s, d) in pairs(topo):
            cases = []
            for mlen in lengths:
                if tier == "quick":
                    # every length at every pair under the default timing + a rotating
                    # selection of the 16 timing classes (all 16 for the chain topology)
                    tsel = timing if topo == "chain" and mlen in (1, 25, 144) else [timing[0], timing[(k * 5 + mlen) % 16], timing[(k * 7 + 3 * mlen + 1) % 16]]
                else:
                    tsel = timing if mlen in LENGTHS_Q else [timing[0], timing[(k + mlen) % 16]]
                for (c, l) in dict.fromkeys(tsel):
                    k += 1
                    mtype = TYPES[k % len(TYPES)]
                    cases.append(dict(topo=topo, src=s, dst=d, mlen=mlen, mtype=mtype, frag=True, cost=c, lat=l,
                                      api="send" if k % 3 else "write", seed=seed, id0=(k * 7919) & 0xFFFF,
                                      buftype="bytearray" if k % 2 else "bytes"))
                    if (c, l) == timing[0] and mlen in (0, 24, 25, 144):
                        # the same message with a re-used header that already names an origin (the peer's / a third node's address)
                        k += 1
                        cases.append(dict(cases[-1], hdr_from="dst" if k % 2 else 0o3, id0=(k * 7919) & 0xFFFF))
                if mlen <= 24:
                    k += 1
                    cases.append(dict(topo=topo, src=s, dst=d, mlen=mlen, mtype=TYPES[k % len(TYPES)], frag=False,
                                      cost=k % 4, lat=(k // 4) % 4, api="send", seed=seed, id0=k & 0xFFFF))
            for i in range(0, len(cases), 12):
                items.append((cases[i:i + 12], 0))
    # connected mesh nodes: every pair x lengths through RF24Mesh(NoMaster).write()
    for (s, d) in pairs("meshy"):
        cs = []
        for mlen in lengths if tier != "quick" else (0, 1, 24, 25, 49, 144):
            k += 1
            cs.append(dict(topo="meshy", src=s, dst=d, mlen=mlen, mtype=TYPES[k % len(TYPES)], frag=True, cost=k % 4, lat=(k // 4) % 3, api="mesh-write", seed=seed,
                           id0=(k * 7919) & 0xFFFF, buftype="bytearray" if k % 2 else "bytes"))
        for i in range(0, len(cs), 12):
            items.append((cs[i:i + 12], 0))
    # an earlier fragmented message of ANOTHER origin to the same destination was cut short (its last / middle+last fragments lost):
    # the judged message (single frame / fragmented; direct neighbours, so that finding #17 does not interfere) arrives all the same
    for topo, s_, d_, other in (("chain", O("1"), O("0"), O("5")), ("chain", O("5"), O("0"), O("1")), ("bushy", O("11"), O("1"), O("51")), ("bushy", O("0"), O("1"), O("11"))):
        cs = []
        for plen, lose in ((60, [2]), (60, [1, 2]), (49, [1]), (120, [2, 3, 4]), (120, [4])):
            for mlen in (10, 30, 49, 144):
                for (c, l) in ((0, 0), (2, 1)):
                    k += 1
                    cs.append(dict(topo=topo, src=s_, dst=d_, mlen=mlen, mtype=1, frag=True, cost=c, lat=l, api="send", seed=seed, id0=(k * 7919) & 0xFFFF,
                                   prior=[other, plen, 2], lose=list(lose), lose_at=other))
        for i in range(0, len(cs), 10):
            items.append((cs[i:i + 10], 0))
    # two messages in a row to one destination whose application reads late (direct neighbours and
    # single-frame routed, so that finding #17 does not interfere)
    for topo, s_, d_ in (("chain", O("1"), O("0")), ("chain", O("0"), O("1")), ("bushy", O("11"), O("1")), ("mixed", O("11"), O("21"))):
        cs = []
        for (l1, t1), (l2, t2) in (((30, 1), (40, 1)), ((48, 65), (25, 65)), ((144, 7), (144, 7)), ((10, 1), (30, 1)), ((30, 1), (10, 1)), ((5, 1), (6, 1))):
            if topo == "mixed" and max(l1, l2) > 24:
                continue  # routed: single frames only
            for (c, l) in ((0, 0), (2, 1), (1, 2)):
                k += 1
                cs.append(dict(topo=topo, src=s_, dst=d_, mlen=l1, mtype=t1, frag=True, cost=c, lat=l, api="send", seed=seed, id0=(k * 7919) & 0xFFFF,
                               second=[l2, t2]))
        items.append((cs, 0))
    # E-DFS over per-delivery latency deviations on selected routes
    dev = 1 if tier == "quick" else 2
    sel = [("chain", O("1111"), O("0")), ("chain", O("0"), O("4445")), ("chain", O("11"), O("45")), ("chain", O("1"), O("11")),
           ("mixed", O("11"), O("112")), ("bushy", O("111"), O("32"))]
    for topo, s, d in sel:
        for mlen, mtype in ((1, 1), (24, 65), (25, 1)) + (((49, 65),) if tier == "thorough" else ()):
            items.append(([dict(topo=topo, src=s, dst=d, mlen=mlen, mtype=mtype, frag=True, cost=0, lat=0, api="send",
                                seed=seed, id0=5, max_execs=1500 if tier == "quick" else 20000)], dev))
    return items


def run(tier, seed, rep, only=None):
    items = build_items(tier, seed)
    if only:
        items = [it for it in items if (only == "dfs") == bool(it[1])]
    # longest work first
    items.sort(key=lambda it: -(it[1] * 1000 + sum(c["mlen"] for c in it[0])))
    pmap(w_cases, items, rep)
    rep.states += len(rep.nontrivial)
    rep.sample({"case": items[len(items) // 2][0][0]})
    return dict(
        level="model_checking",
        exhaustive=True,
        rule="every ordered (src,dst) pair of 9 topologies (connected mesh nodes writing by address, the documentation's network_b: own address_prefix / address_suffix applied by re-assigning the same node_address, nodes that toggled fragmentation / multicasting off and on again, chain to depth 4 with 8-hop routes, bushy, mixed routing-only/full, a tree of re-addressed nodes, nodes with ret_sys_msg on, "
             "a chain whose routers have overridden multicast levels) x message "
             "lengths x fragmentation on/off x API x SPI-cost class x poll-latency class (per-run classes enumerated; per-delivery latency "
             "deviations explored exhaustively up to the stated deviation bound on 6 routes). One execution = all nodes running the real "
             "update()/send() code in a deterministic discrete-event world. Non-trivial = at least one packet on the air; distinct by (case, choice list). "
             "states = distinct executions; transitions = packets put on the air.",
        bounds=dict(topologies={k: ["%o" % a for a in v] for k, v in TOPOS.items()}, lengths=list(lengths_of(tier)), types=list(TYPES),
                    timing_classes="4 SPI-cost x 4 poll-latency classes", latency_deviation_bound=1 if tier == "quick" else 2),
        trusted_base=["vf/sim.py", "vf/net.py (threaded discrete-event harness; idle loop modelled as wake-on-RX + latency)"],
        assumptions=["loss-free medium, one message in flight", "application loop = update() called `latency` after the radio latched RX data "
                     "(update() on an empty FIFO has no effect)", "distinct per-node SPI costs (base + k us)",
                     "timing continuum represented by 4 cost classes x 4 latencies"],
        min_outcomes=6,
    )


def lengths_of(tier):
    return LENGTHS_Q if tier == "quick" else range(0, 145)


def replay(data):
    r = data["replay"]
    case = r["case"]
    ch = Chooser([tuple(t) for t in r.get("choices", [])]) if r.get("choices") else None
    obs = run_unicast(case, ch)
    print("ret=%r dt=%sms packets=%d collisions=%d cause=%s exc=%r" % (obs["ret"], obs.get("dt", 0) / 1e6, obs["npkts"], obs["ncoll"], obs["cause"], obs["exc"]))
    print("queues:", {("%o" % k): [(("%o" % f), t, len(m)) for f, _, t, m in q] for k, q in obs["queues"].items() if q})
    viol = judge(case, obs, data.get("property", PID))
    want = data.get("signature")
    return [(s, w) for s, w in viol if s == want] or viol
