"""C19 - received BLE packets decode to what was advertised; everything else is ignored safely.

E-ENUM.  Transmitter = a real FakeBLE object or the independent encoder vf.ref.ble feeding a
ghost radio (legacy ShockBurst framing, no hardware CRC, 4-byte access address, 32 static
bytes); receiver = a real FakeBLE object listening on the same simulated air.  Domains: battery
0..255, temperatures -300.00..300.00, Eddystone URLs (scheme x expansion x body x TX power), raw
structures, name / TX-power combinations, 3 channels, all 1-bit and 2-bit corruptions of valid
packets, CRC-valid packets with adversarial AD structures, CRC-valid and arbitrary seed-derived
payloads, and all short interleavings of reception / available() / read().  Oracle: a payload
is queued iff vf.ref.ble accepts it; the element's fields equal what was advertised;
available() never raises; read() is first-in first-out, each element once."""
import copy
import itertools

from .. import harness as H
from .. import sim
from ..engine import pmap
from ..ref import ble
from ..sim import World, HarnessError, Abort, US
from . import c18 as K

PID = "C19"
HORIZON = 10 ** 15
NRF_ADDR = ble.nrf_address()
FLAGS = ble.ad(ble.AD_FLAGS, b"\x05")
PA_LEVELS = (-18, -12, -6, 0)


def rnd_bytes(n, seed, salt):
    """seed-derived arbitrary bytes (full 0..255 range, unlike the position pattern)"""
    x = (seed * 2654435761 + salt * 40503 + 0x9E3779B9) & 0xFFFFFFFF
    out = bytearray()
    for _ in range(n):
        x ^= (x << 13) & 0xFFFFFFFF
        x ^= x >> 17
        x ^= (x << 5) & 0xFFFFFFFF
        out.append((x >> 11) & 0xFF)
    return bytes(out)


def pad32(payload, seed, salt):
    """what the nRF24L01 captures after the CRC: arbitrary (here seed-derived) bits"""
    return bytes(payload) + rnd_bytes(32 - len(payload), seed, 1000 + salt)


def excname(e):
    m = type(e).__module__
    return type(e).__name__ if m == "builtins" else "%s.%s" % (m, type(e).__name__)


# --------------------------------------------------------------------------- test bench
class Bench:
    """one receiver (FakeBLE, listening), one FakeBLE transmitter and one ghost transmitter on a
    shared air, all tuned to the same advertising channel"""

    def __init__(self, seed, hops, need_lib_tx=True):
        self.seed, self.hops = seed, hops
        w = self.w = World(horizon_ns=HORIZON).activate()
        w.log_air = True
        H.URANDOM.reseed(seed)
        self.rx, self.rr = H.mk_driver(w, "rx", cls=H.FakeBLE)
        self.rx.__enter__()
        # hops 0..2: tuned by hop_channel() only; hops >= 10: (hops-10)//3 hops, then the channel
        # attribute is ASSIGNED to the BLE frequency (2, 26, 80)[(hops-10) % 3]
        nhops, assign = (hops, None) if hops < 10 else ((hops - 10) // 3, (2, 26, 80)[(hops - 10) % 3])
        for _ in range(nhops):
            self.rx.hop_channel()
        if assign is not None:
            self.rx.channel = assign
        self.tx = self.tr = None
        self.repeat_differs = None
        if need_lib_tx:
            self.tx, self.tr = H.mk_driver(w, "tx", cls=H.FakeBLE, cost=31 * US)
            self.tx.__enter__()
            for _ in range(nhops):
                self.tx.hop_channel()
            if assign is not None:
                self.tx.channel = assign
        self.rx.listen = True
        self.ch = self.rr.r[0x05]
        self.ghost = sim.ghost_sender(w, "ghost", channel=self.ch, crc=0, aw=4, en_aa=0, dynpd=0, feature=0)
        w.advance(300 * US)
        if ble.ble_channel(self.ch) is None or (self.tr is not None and self.tr.r[0x05] != self.ch):
            raise HarnessError("bench not on one advertising channel: rx %r tx %r" % (self.ch, self.tr and self.tr.r[0x05]))
        del w.airlog[:]
        self.dirty = False

    def inject(self, payload32):
        """put 32 bytes on the air from the ghost; the receiver's radio must capture them"""
        w = self.w.activate()
        n = len(self.rr.rx_fifo)
        sim.ghost_send(self.ghost, NRF_ADDR, payload32, noack=False)
        w.advance(700 * US)
        del w.airlog[:]
        got = len(self.rr.rx_fifo) - n
        if got != (1 if n < 3 else 0) or (got and self.rr.rx_fifo[-1][1] != bytes(payload32)):
            raise HarnessError("ghost packet not captured by the receiver radio (fifo %d -> %d)" % (n, len(self.rr.rx_fifo)))
        return got

    def lib_advertise(self, mac, name, pa, chunks, call):
        """advertise through the transmitting FakeBLE object -> payload as captured by the
        receiver's radio"""
        w = self.w.activate()
        tx = self.tx
        tx.mac = mac
        tx.name = None
        tx.show_pa_level = False
        if pa is not None:
            tx.pa_level = pa
            tx.show_pa_level = True
        tx.name = name
        n = len(self.rr.rx_fifo)
        if call[0] == "raw":
            tx.advertise(call[1], call[2])
        else:
            # the application keeps its list of chunks and advertises it again (as it would on the next channel):
            # both packets must be the same
            lst = list(chunks)
            tx.advertise(lst)
            w.advance(300 * US)
            if len(self.rr.rx_fifo) != n + 1:
                raise HarnessError("advertisement not captured by the receiver radio")
            first = self.rr.rx_fifo.pop()[1]
            tx.advertise(lst)
            w.advance(300 * US)
            if len(self.rr.rx_fifo) == n + 1 and self.rr.rx_fifo[-1][1] != first:
                self.repeat_differs = (first, self.rr.rx_fifo[-1][1])
        w.advance(300 * US)
        del w.airlog[:]
        if len(self.rr.rx_fifo) != n + 1:
            raise HarnessError("advertisement not captured by the receiver radio")
        return self.rr.rx_fifo[-1][1]

    def hop(self):
        """the receiver moves on to the next advertising channel (as a scanning application does); the ghost follows"""
        w = self.w.activate()
        self.rx.listen = False
        self.rx.hop_channel()
        self.rx.listen = True
        self.ch = self.rr.r[0x05]
        self.ghost = sim.ghost_sender(w, "ghost-ch%d" % self.ch, channel=self.ch, crc=0, aw=4, en_aa=0, dynpd=0, feature=0)
        w.advance(300 * US)
        del w.airlog[:]
        if ble.ble_channel(self.ch) is None:
            raise HarnessError("receiver left the advertising channels")
        self.hold = True  # (bench_for keeps this bench for the next payload, then it is discarded)
        self.dirty = True

    def poll(self):
        """available() then read() until empty -> (exception name or None, available() result,
        elements)"""
        self.w.activate()
        els = []
        try:
            av = self.rx.available()
        except (HarnessError, Abort):
            raise
        except Exception as e:  # noqa
            self.dirty = True
            return excname(e) + ":available", None, els
        try:
            for _ in range(4):
                el = self.rx.read()
                if el is None:
                    break
                els.append(el)
        except (HarnessError, Abort):
            raise
        except Exception as e:  # noqa
            self.dirty = True
            return excname(e) + ":read", av, els
        return None, av, els


def bench_for(cache, seed, hops, need_lib_tx=True):
    b = cache.get(hops)
    if b is not None and getattr(b, "hold", False):
        b.hold = False
        return b
    if b is None or b.dirty or b.rr.rx_fifo or (need_lib_tx and b.tx is None):
        b = cache[hops] = Bench(seed, hops, need_lib_tx)
    return b


# --------------------------------------------------------------------------- expectations
def name_expect(raw):
    if raw is None:
        return None
    try:
        return raw.decode("utf-8")
    except UnicodeError:
        return bytes(raw)


def pdu_shape(pdu):
    """code-independent shape of a CRC-checked PDU for signatures"""
    if pdu[1] < 6:
        return "shorter-than-address"
    structs, wf = ble.parse_ad(pdu[8:])
    if any(t == ble.AD_SERVICE_DATA16 and len(d) < 2 for t, d in structs):
        return "service-data-shorter-than-uuid"
    return "well-formed-ad" if wf else "malformed-ad"


def is_instance_of(obj, clsname):
    return any(c.__name__ == clsname for c in type(obj).__mro__)


def entry_bytes(e):
    if isinstance(e, (bytes, bytearray)):
        return bytes(e)
    return None


def known_item(t, d):
    """independent interpretation of one AD structure as one of the documented service data
    kinds (exact canonical sizes only), else None"""
    if t != ble.AD_SERVICE_DATA16 or len(d) < 2:
        return None
    uuid = d[0] | (d[1] << 8)
    if uuid == ble.UUID_BATTERY and len(d) == 3:
        return ("battery", d[2])
    if uuid == ble.UUID_HEALTH_THERMOMETER and len(d) == 6 and d[5] == 0xFE:
        return ("temperature", ble.temperature_value(d[2:6]))
    if uuid == ble.UUID_EDDYSTONE and len(d) >= 5 and d[2] == 0x10 and d[4] < 4 \
            and all(b < 14 or 0x21 <= b <= 0x7E for b in d[5:]):
        return ("url", ble.url_decode(d[4:]), d[3] - 256 if d[3] & 0x80 else d[3])
    return None


def check_item(entry, item, chunk):
    """-> (clause suffix, what) or None; item as produced by known_item(), or ('raw',)"""
    kind = item[0]
    try:
        if kind == "battery":
            if not is_instance_of(entry, "BatteryServiceData") or entry.data != item[1]:
                return "battery-decode", "battery level %r decoded as %r" % (item[1], getattr(entry, "data", entry))
        elif kind == "temperature":
            if not is_instance_of(entry, "TemperatureServiceData"):
                return "temperature-decode", "temperature structure decoded as %r" % (entry,)
            v = entry.data
            if not isinstance(v, (int, float)) or abs(v - item[1]) > 0.005:
                shape = "negative-value" if item[1] < 0 else "non-negative-value"
                return "temperature-decode:" + shape, "temperature %.2f on the air decoded as %r" % (item[1], v)
        elif kind == "url":
            if not is_instance_of(entry, "UrlServiceData") or entry.data != item[1]:
                return "url-decode", "URL %r decoded as %r" % (item[1], getattr(entry, "data", entry))
            if entry.pa_level_at_1_meter != item[2]:
                return "url-txpower-decode", "URL TX power %r decoded as %r" % (item[2], entry.pa_level_at_1_meter)
        else:
            b = entry_bytes(entry)
            if b is None or b not in (chunk, chunk[1:], chunk[2:]):
                return "raw-chunk", "structure %s delivered as %r" % (chunk.hex(), entry)
            return None
        u = bytes(entry.uuid)
        if u != chunk[2:4]:
            return "uuid", "service UUID %s reported as %s" % (chunk[2:4].hex(), u.hex())
    except (HarnessError, Abort):
        raise
    except Exception as e:  # noqa
        return "exception:%s:getter-%s" % (excname(e), kind), "reading the decoded %s raised %r" % (kind, e)
    return None


def check_element(el, pdu, strict_data):
    """compare a queued element with the independent interpretation of the PDU it was built
    from -> [(clause, what)].  strict_data: the AD region is ours and well formed, so every
    structure must be represented, in order."""
    out = []
    d = ble.describe(pdu)
    if bytes(el.mac) != d["mac"]:
        out.append(("mac", "AdvA %s reported as %s" % (d["mac"].hex(), bytes(el.mac).hex())))
    if not d["well_formed"]:
        return out
    want = name_expect(d["name"])
    if el.name != want and not (want == "" and el.name in (b"", None)):
        out.append(("name", "name %r reported as %r" % (want, el.name)))
    if el.pa_level != d["tx_power"]:
        out.append(("pa_level", "TX power %r reported as %r" % (d["tx_power"], el.pa_level)))
    if not strict_data:
        # arbitrary but well-formed content: canonical service data must still decode right
        ents = list(el.data)
        for t, data in d["structs"]:
            it = known_item(t, data)
            if it is None:
                continue
            cls = {"battery": "BatteryServiceData", "temperature": "TemperatureServiceData", "url": "UrlServiceData"}[it[0]]
            cand = [e for e in ents if is_instance_of(e, cls)]
            if not cand:
                out.append((it[0] + "-decode", "%s structure not represented in the element" % it[0]))
                continue
            res = [check_item(c, it, ble.ad(t, data)) for c in cand]
            if all(res):  # no entry of that class carries the value (other structures may share the UUID)
                out.append(res[0])
        return out
    ents = list(el.data)
    if ents and entry_bytes(ents[0]) == FLAGS:
        ents.pop(0)
    items = [(t, data) for t, data in d["structs"]
             if t not in (ble.AD_FLAGS, ble.AD_SHORT_NAME, ble.AD_COMPLETE_NAME) and not (t == ble.AD_TX_POWER and len(data) == 1)]
    if len(ents) != len(items):
        out.append(("data-count", "%d data structures advertised, element lists %d: %r" % (len(items), len(ents), ents)))
        return out
    for e, (t, data) in zip(ents, items):
        r = check_item(e, known_item(t, data) or ("raw",), ble.ad(t, data))
        if r:
            out.append(r)
            break
    return out


# --------------------------------------------------------------------------- executors
def exec_raw(cache, seed, hops, payload, feats_extra=None):
    """arbitrary 32 received bytes -> (fails [(clause, what, feats)], outcome)"""
    b = bench_for(cache, seed, hops, need_lib_tx=False)
    pdu, ok = ble.decode(payload, b.ch)
    b.inject(payload)
    exc, av, els = b.poll()
    feats = {"ch": b.ch}
    fails = []
    if exc:
        fails.append(("exception:%s:%s" % (exc, pdu_shape(pdu) if pdu is not None else "no-pdu"), "%s for received payload %s (PDU %s, CRC %s)"
                      % (exc, bytes(payload).hex(), pdu.hex() if pdu else None, "ok" if ok else "bad"), feats))
        return fails, "raises:" + exc
    short = ok and pdu[1] < 6  # CRC-valid but shorter than an address: nothing is promised either way
    if len(els) > 1:
        fails.append(("queue-count", "one payload produced %d elements" % len(els), feats))
    if ok and not els and not short:
        fails.append(("drops-valid", "valid packet %s (PDU %s) was not queued" % (bytes(payload).hex(), pdu.hex()), feats))
    if els and not ok:
        why = "length" if pdu is None else "crc"
        fails.append(("accepts-invalid:" + why, "payload %s queued although its %s is inconsistent"
                      % (bytes(payload).hex(), "length octet" if pdu is None else "CRC-24"), feats))
    if bool(av) != bool(els):
        fails.append(("available-return", "available() returned %r with %d element(s) queued" % (av, len(els)), feats))
    if els and ok and not short:
        for clause, what in check_element(els[0], pdu, False):
            fails.append((clause, what + " (PDU %s)" % pdu.hex(), feats))
    return fails, ("queued" if els else "ignored") + (":crc-ok" if ok else ":bad-length" if pdu is None else ":bad-crc") \
        + (":lt6" if short else "")


def ref_items(spec_items, seed):
    """advertised values -> AD structures as the specifications encode them (reference only)"""
    out = []
    for it in spec_items:
        kind = it[0]
        if kind == "battery":
            out.append(ble.svc_battery(it[1]))
        elif kind == "temperature":
            out.append(ble.svc_temperature(it[1]))
        elif kind == "url":
            _, scheme, parts, txp = it
            out.append(ble.svc_url(ble.url_encode(scheme, parts), txp))
        elif kind == "raw":
            _, t, n, salt = it
            body = rnd_bytes(n, seed, salt)
            if t == ble.AD_SERVICE_DATA16 and n >= 2:
                body = body[:1] + b"\x12" + body[2:]  # a service UUID the library has no class for
            out.append(ble.ad(t, body))
        else:
            raise HarnessError("unknown item %r" % (it,))
    return out


def lib_items(spec_items, ref_chunks):
    """the same values packed with the library's service data classes and chunk() (code under
    test: only called inside the guarded transmit step)"""
    out = []
    for it, ref in zip(spec_items, ref_chunks):
        kind = it[0]
        if kind == "battery":
            o = H.m_ble.BatteryServiceData()
            o.data = it[1]
        elif kind == "temperature":
            o = H.m_ble.TemperatureServiceData()
            o.data = it[1] / 100.0
        elif kind == "url":
            o = H.m_ble.UrlServiceData()
            o.pa_level_at_1_meter = it[3]
            o.data = ble.url_text(it[1], it[2])
        else:
            out.append(bytearray(ref))
            continue
        out.append(H.m_ble.chunk(o.buffer))
    return out


def exec_adv(cache, seed, case):
    """a semantic advertisement -> (fails [(clause, what, feats)], outcome)"""
    hops, tx = case["hops"], case["tx"]
    b = bench_for(cache, seed, hops, need_lib_tx=(tx == "lib"))
    mac = H.pattern(6, seed, 50 + case.get("mac_salt", 0))
    nkind, nlen = case["name"]
    name_arg, name_raw = K.name_value(nkind, nlen, seed)
    pa = case["pa"]
    ref_chunks = ref_items(case["items"], seed)
    feats = {"tx": tx, "ch": b.ch, "name": "none" if name_raw is None else "set", "pa": "none" if pa is None else "set"}
    item0 = case["items"][0][0] if case["items"] else "none"
    opt = b""
    if pa is not None:
        opt += ble.ad(ble.AD_TX_POWER, bytes([pa & 0xFF]))
    if name_raw is not None:
        opt += ble.ad(case.get("name_type", ble.AD_SHORT_NAME), name_raw)
    adv = FLAGS + opt + b"".join(ref_chunks)
    fails = []
    if tx == "lib":
        call = ("list",)
        if case.get("call") == "raw" and len(ref_chunks) == 1:  # advertise(buf, data_type) of a single structure
            c = ref_chunks[0]
            call = ("raw", c[2:], c[1])
        try:
            payload = b.lib_advertise(mac, name_arg, pa, lib_items(case["items"], ref_chunks), call)
        except (HarnessError, Abort):
            raise
        except Exception as e:  # noqa
            b.dirty = True
            fails.append(("exception:%s:advertise-%s" % (excname(e), item0), "advertising %r raised %r" % (case, e), feats))
            return fails, "tx-raises"
    else:
        payload = pad32(ble.encode(case.get("header", ble.ADV_NONCONN_IND_RANDOM), mac, adv, b.ch), seed, len(adv))
        b.inject(payload)
    if b.repeat_differs:
        p1, p2 = b.repeat_differs
        b.repeat_differs = None
        fails.append(("tx-repeat-differs", "the same list of chunks advertised twice gave two different packets: %s / %s" % (bytes(p1).hex(), bytes(p2).hex()), feats))
    pdu, ok = ble.decode(payload, b.ch)
    exc, av, els = b.poll()
    if exc:
        fails.append(("exception:%s:%s" % (exc, pdu_shape(pdu) if pdu is not None else "no-pdu"), "%s while receiving %r" % (exc, case), feats))
        return fails, "raises:" + exc
    if not ok:
        fails.append(("tx-malformed", "the transmitting FakeBLE produced an invalid packet %s" % bytes(payload).hex(), feats))
        if els:
            fails.append(("accepts-invalid:crc", "invalid packet of the transmitter was queued", feats))
        return fails, "tx-malformed"
    # what reached the air must be what was advertised (encoders of the service data classes)
    if tx == "lib":
        got_structs, wf = ble.parse_ad(pdu[8:])
        want_structs = ble.parse_ad(adv)[0]
        if pdu[2:8] != mac or not wf or len(got_structs) != len(want_structs):
            fails.append(("tx-structure", "advertised %s, PDU on the air %s" % (adv.hex(), pdu.hex()), feats))
        else:
            nopt = len(ble.parse_ad(FLAGS + opt)[0])
            for i, (g, wnt) in enumerate(zip(got_structs, want_structs)):
                gi, wi = known_item(*g), known_item(*wnt)
                if gi is not None and gi[0] == "url" and gi == wi:
                    continue  # another valid Eddystone spelling of the same URL (expansion codes are optional)
                if g != wnt and not (g[1] == wnt[1] and {g[0], wnt[0]} <= {8, 9}):
                    kind = case["items"][i - nopt][0] if i >= nopt else "field"
                    clause = kind + "-encode"
                    if gi and wi and gi[0] == wi[0] == "temperature":
                        clause += ":off-by-0.01" if abs(gi[1] - wi[1]) < 0.0101 else ":other"
                    fails.append((clause, "%s advertised as %r is sent as %s, the specification encodes it as %s"
                                  % (kind, case["items"][i - nopt][1:] if i >= nopt else None, ble.ad(*g).hex(), ble.ad(*wnt).hex()), feats))
                    break
    if len(els) != 1:
        fails.append(("drops-valid" if not els else "queue-count", "valid advertisement produced %d elements" % len(els), feats))
        return fails, "not-queued"
    if not av:
        fails.append(("available-return", "available() returned %r with an element queued" % (av,), feats))
    for clause, what in check_element(els[0], pdu, True):
        fails.append((clause, what, feats))
    # end to end: the application reads what the other side advertised
    if not fails:
        e2e = check_element(els[0], bytes([0x42, 6 + len(adv)]) + mac + adv, True)
        for clause, what in e2e:
            fails.append(("end-to-end-" + clause, what, feats))
    return fails, "decoded:%s:%s:%s" % (tx, item0, "+".join(sorted(k for k in ("name", "pa") if feats[k] == "set")) or "bare")


def run_cases(part, item_key, cases, seed, rep):
    """cases: dicts with 'kind' = 'adv' | 'raw'"""
    cache = {}
    first = True
    for case in cases:
        if case["kind"] == "adv":
            fails, outcome = exec_adv(cache, seed, case)
        else:
            fails = []
            if case.get("after") is not None:
                # history: the SAME receiver has just validated this (undamaged) packet
                fails, _ = exec_raw(cache, seed, case["hops"], case["after"], case.get("feats"))
                if case.get("hop_between"):
                    cache[case["hops"]].hop()  # ... and has moved on to the next channel since
            f2, outcome = exec_raw(cache, seed, case["hops"], case["payload"], case.get("feats"))
            fails = fails + f2
        rep.case()
        rep.transitions += 1
        rep.traces += 1
        rep.outcome(part + ":" + outcome)
        rep.part(part, executions=1)
        if case["kind"] == "adv":
            rep.nt(repr(sorted((k, repr(v)) for k, v in case.items())))
        elif not outcome.startswith("ignored:bad-crc") or first:
            rep.nt(bytes(case["payload"]).hex() + str(case["hops"]))
            first = False
        for clause, what, feats in fails:
            K.stash(rep, item_key, clause, feats, what, {"part": part, "case": case, "seed": seed},
                    size=len(repr(case)))


# --------------------------------------------------------------------------- domains
def adv_case(hops, tx, items, name=("none", 0), pa=None, **kw):
    return dict(kind="adv", hops=hops, tx=tx, items=[list(i) for i in items], name=list(name), pa=pa, **kw)


def fits(items, name, pa, seed=0):
    n = sum(len(c) for c in ref_items(items, seed))
    return n + (0 if name[0] == "none" else name[1] + 2) + (0 if pa is None else 3) <= K.CAPACITY


def split(part, cases, n, seed):
    size = max(1, (len(cases) + n - 1) // n)
    return [(part, "%s%03d" % (part[:3], i), cases[i * size:(i + 1) * size], seed) for i in range((len(cases) + size - 1) // size)]


def dom_battery(tier, seed):
    cases = []
    for v in range(256):
        for hops in (0, 1, 2):
            for tx in ("lib", "ref"):
                name, pa = (("none", 0), None)
                if v % 4 == 1:
                    name = ("str", 1 + v % 9)
                if v % 4 >= 2:
                    pa = PA_LEVELS[v % 4] if tx == "lib" else (v - 128)
                if v % 8 == 7:
                    name = ("bytes", 3)
                cases.append(adv_case(hops, tx, [("battery", v)], name, pa, mac_salt=v, call="raw" if v % 5 == 0 else "list"))
    # both ends tuned by ASSIGNING the channel attribute (every previous channel x every target)
    for hops in range(10, 19):
        for v in range(3, 256, 36):
            for tx in ("lib", "ref"):
                cases.append(adv_case(hops, tx, [("battery", v)], ("str", 1 + v % 5) if v % 2 else ("none", 0), None, mac_salt=v, call="list"))
    return split("battery", cases, 12, seed)


def temperature_points(tier):
    pts = set(range(-30000, 30001, 100))
    for lo, hi in ((-30000, -29900), (-100, 100), (29900, 30000)):
        pts.update(range(lo, hi + 1))
    if tier == "thorough":
        pts.update(range(-30000, 30001))
    return sorted(pts)


def dom_temperature(tier, seed):
    cases = []
    for i, k in enumerate(temperature_points(tier)):
        for tx in ("lib", "ref"):
            fine = -100 <= k <= 100 or k % 100 == 0
            for hops in ((0, 1, 2) if (tier == "quick" or fine) and k % 100 == 0 else ((i % 3),)):
                name = ("str", 4) if i % 7 == 3 else ("none", 0)
                pa = (PA_LEVELS[i % 4] if tx == "lib" else -(i % 100)) if i % 5 == 2 else None
                cases.append(adv_case(hops, tx, [("temperature", k)], name, pa, mac_salt=i % 50))
    return split("temperature", cases, 14 if tier == "quick" else 42, seed)


URL_BODIES = ("a", "x9", "nrf24", "ab-cd_ef~g", "a.b", "q?x=1&y", "com", ".c", "w.comx")


def dom_url(tier, seed):
    cases = []
    n = 0
    bodies = list(URL_BODIES) + ["".join(chr(0x21 + b % 94) for b in rnd_bytes(ln, seed, 70 + ln)) for ln in (1, 3, 6, 10)]
    for scheme in range(4):
        for suffix in [None] + list(range(14)):
            for body in bodies:
                for shape in ("end", "path"):
                    if shape == "path" and (suffix is None or len(body) > 6):
                        continue
                    parts = [body] + ([] if suffix is None else [suffix]) + (["p1"] if shape == "path" else [])
                    n += 1
                    txp = (-25, 0, -128, 127, -1, -59)[n % 6]
                    item = ("url", scheme, parts, txp)
                    if not fits([item], ("none", 0), None):
                        continue
                    for tx in ("lib", "ref"):
                        for hops in ((0, 1, 2) if tier == "thorough" else (n % 3,)):
                            name = ("str", 2) if n % 9 == 4 and fits([item], ("str", 2), None) else ("none", 0)
                            cases.append(adv_case(hops, tx, [item], name, None, mac_salt=n % 40))
    for txp in range(-128, 128):  # every TX power
        for tx in ("lib", "ref"):
            cases.append(adv_case(txp % 3, tx, [("url", txp % 4, ["nrf", txp % 14], txp)], mac_salt=7))
    return split("url", cases, 14, seed)


def dom_fields(tier, seed):
    """name / TX-power combinations, raw structures, several structures per packet"""
    cases = []
    n = 0
    for hops in (0, 1, 2):
        for nkind in ("none", "str", "bytes", "utf8"):
            for nlen in ([0] if nkind == "none" else range(0, 17)):
                if nkind == "utf8" and nlen < 2:
                    continue
                for pa_i in range(5):
                    n += 1
                    name = (nkind, nlen)
                    for tx in ("lib", "ref"):
                        pa = None if pa_i == 0 else (PA_LEVELS[pa_i - 1] if tx == "lib" else (-128, -1, 0, 127)[pa_i - 1])
                        for items in ([], [("battery", n % 256)], [("raw", 0xFF, n % 5, n)]):
                            if fits(items, name, pa):
                                cases.append(adv_case(hops, tx, items, name, pa, mac_salt=n % 30,
                                                      name_type=(8, 9)[n % 2] if tx == "ref" else 8))
    for txp in range(-128, 128):  # every TX power level value from a foreign advertiser
        cases.append(adv_case(txp % 3, "ref", [("battery", 50)], ("str", 3), txp))
    # raw structures: every length, manufacturer data / unknown service / other types, 1-3 per packet
    for hops in (0, 1, 2):
        for t in (0xFF, 0x16, 0x03, 0x2A, 0x21):
            for ln in range(0, 17):
                if t == 0x16 and ln < 2:
                    continue  # not a complete structure of that type: adversarial part
                for tx in ("lib", "ref"):
                    n += 1
                    cases.append(adv_case(hops, tx, [("raw", t, ln, n)], mac_salt=n % 30, call="raw" if n % 2 and ln else "list"))
        for combo in itertools.product((("battery", 77), ("temperature", -1234), ("raw", 0xFF, 2, 5), ("raw", 0x16, 3, 6),
                                        ("url", 2, ["a", 7], -20)), repeat=2):
            if fits(list(combo), ("none", 0), None):
                for tx in ("lib", "ref"):
                    cases.append(adv_case(hops, tx, list(combo), mac_salt=3))
    return split("fields", cases, 14, seed)


def base_packets(seed, ch):
    """valid packets to corrupt: a short one (trailing noise present) and one filling all 32 bytes"""
    mac = H.pattern(6, seed, 91)
    short = FLAGS + ble.ad(ble.AD_SHORT_NAME, b"nRF") + ble.svc_battery(85)
    full = FLAGS + ble.ad(ble.AD_TX_POWER, b"\xf4") + ble.svc_temperature(-1234)
    full += ble.ad(0xFF, rnd_bytes(K.CAPACITY + 3 - len(full) - 2, seed, 5))
    out = []
    for adv in (short, full):
        out.append(pad32(ble.encode(0x42, mac, adv, ch), seed, len(adv)))
    assert len(ble.encode(0x42, mac, full, ch)) == 32
    return out


def flip(payload, bits):
    p = bytearray(payload)
    for k in bits:
        p[k >> 3] ^= 0x80 >> (k & 7)
    return bytes(p)


def dom_corrupt(tier, seed):
    items = []
    for hops, ch in enumerate((2, 26, 80)):
        short, full = base_packets(seed, ch)
        region = 8 * (2 + ble.decode(short, ch)[0][1] + 3)
        cases = [dict(kind="raw", hops=hops, payload=p, feats={"corrupt": "0bit"}) for p in (short, full)]
        for base in (short, full):
            cases += [dict(kind="raw", hops=hops, payload=flip(base, (k,)), feats={"corrupt": "1bit"}) for k in range(256)]
        if tier == "thorough":
            pairs_s = pairs_f = list(itertools.combinations(range(256), 2))
        else:
            pairs_s = list(itertools.combinations(range(region), 2)) if hops == 0 else \
                [(a, b) for a in range(8, 16) for b in range(region) if b != a]
            pairs_f = [(a, b) for a in range(8, 16) for b in range(256) if b != a] if hops == 0 else []
        cases += [dict(kind="raw", hops=hops, payload=flip(short, p), feats={"corrupt": "2bit"}) for p in pairs_s]
        cases += [dict(kind="raw", hops=hops, payload=flip(full, p), feats={"corrupt": "2bit"}) for p in pairs_f]
        # every corruption again, each one received right after the undamaged packet (by the same receiver object): all 1-bit
        # errors, all 2-bit errors inside the CRC field, CRC bit x any other bit (thorough: every 2-bit error)
        for base in (short, full):
            r0 = (8 * (2 + ble.decode(base, ch)[0][1] + 3)) - 24
            seq = [(k,) for k in range(256)] + list(itertools.combinations(range(r0, r0 + 24), 2))
            if tier == "thorough" or hops == 0:
                seq += [(a, b) for a in range(r0) for b in range(r0, r0 + 24)]
            cases += [dict(kind="raw", hops=hops, payload=flip(base, p), after=base, feats={"corrupt": "%dbit-after-valid" % len(p)}) for p in seq]
        # the very same 32 bytes again after the receiver hopped to the next channel: whitened for the wrong channel now
        for base in (short, full):
            cases.append(dict(kind="raw", hops=hops, payload=base, after=base, hop_between=True, feats={"corrupt": "same-bytes-after-hop"}))
            cases.append(dict(kind="raw", hops=hops, payload=flip(base, (9,)), after=base, hop_between=True, feats={"corrupt": "1bit-after-hop"}))
        items += split("corrupt", cases, 10 if tier == "quick" else 24, seed)
    return [(p, "%s-%d" % (k, i), c, s) for i, (p, k, c, s) in enumerate(items)]


def dom_adversarial(tier, seed):
    """CRC-valid packets whose AD structures are adversarial"""
    cases = []
    n = 0
    prefixes = (b"", FLAGS, FLAGS + ble.ad(ble.AD_TX_POWER, b"\x00"))
    for pos, pre in enumerate(prefixes):
        for region in range(1, 7 if tier == "quick" else 9):
            lens = sorted(set(range(0, region + 2)) | {0x1F, 0x80, 0xFF})
            for ln in lens:
                for t in (range(256) if region >= 2 else (0,)):
                    n += 1
                    body = bytes([ln, t])[:region] + rnd_bytes(max(0, region - 2), seed, n)
                    hops = n % 3
                    mac = H.pattern(6, seed, n % 20)
                    pl = pad32(ble.encode(0x42, mac, pre + body, (2, 26, 80)[hops]), seed, n)
                    cases.append(dict(kind="raw", hops=hops, payload=pl,
                                      feats={"pos": pos, "type": "0x%02x" % t if region >= 2 else "none"}))
    # 16-bit service data structures of every size 1..9 for the documented UUIDs (truncated,
    # exact, oversized), at each position, with zero / 0xFF / seed-derived content
    for pos, pre in enumerate(prefixes):
        for uuid in (ble.UUID_BATTERY, ble.UUID_HEALTH_THERMOMETER, ble.UUID_EDDYSTONE, 0x1234):
            for dlen in range(0, 9):
                for fill in ("zero", "ff", "rnd"):
                    for tail in (b"", FLAGS):
                        n += 1
                        raw = uuid.to_bytes(2, "little") + {"zero": bytes(7), "ff": b"\xff" * 7, "rnd": rnd_bytes(7, seed, n)}[fill]
                        if uuid == ble.UUID_EDDYSTONE and fill == "rnd":
                            raw = raw[:2] + b"\x10" + raw[3:]
                        body = ble.ad(ble.AD_SERVICE_DATA16, raw[:dlen]) + tail
                        hops = n % 3
                        pl = pad32(ble.encode(0x42, H.pattern(6, seed, n % 20), pre + body, (2, 26, 80)[hops]), seed, n)
                        cases.append(dict(kind="raw", hops=hops, payload=pl, feats={"pos": pos, "type": "0x16"}))
    # other PDU types and length octets below the size of an address
    for hdr in (0x00, 0x02, 0x06, 0x40, 0x46, 0xC2, 0xFF):
        for ln in range(0, 28):
            n += 1
            hops = n % 3
            body = rnd_bytes(ln, seed, n)
            if ln >= 9:
                body = body[:6] + FLAGS + ble.ad(0xFF, body[11:])[:ln - 9]
                body = body[:ln]
            pdu = bytes([hdr, ln]) + body
            pl = pad32(ble.encode_pdu(pdu, (2, 26, 80)[hops]), seed, n)
            cases.append(dict(kind="raw", hops=hops, payload=pl, feats={"hdr": "0x%02x" % hdr}))
    # a valid packet whitened for another advertising channel / with a length octet beyond capture
    for hops in (0, 1, 2):
        for other in (37, 38, 39):
            for ln in (27, 28, 29, 40, 255):
                n += 1
                adv = FLAGS + ble.svc_battery(n % 256)
                pl = pad32(ble.encode(0x42, H.pattern(6, seed, 2), adv, channel_index=other, length=ln if ln != 27 else None), seed, n)
                cases.append(dict(kind="raw", hops=hops, payload=pl, feats={"whitened": other}))
    # genuine advertisements of other devices that are longer than the 32 bytes the radio captures (PDU length 26..37):
    # from length 28 on the CRC is cut off - a matching first byte or two of it must not be taken for a valid checksum
    for hops in (0, 1, 2):
        for ln in range(26, 38):
            for k in range(6 if tier == "quick" else 40):
                n += 1
                mac = H.pattern(6, seed, n % 20)
                body = mac + FLAGS + ble.ad(0xFF, rnd_bytes(ln - 6 - len(FLAGS) - 2, seed, n))
                pdu = bytes([0x42, ln]) + body[:ln]
                pl = pad32(ble.encode_pdu(pdu, (2, 26, 80)[hops])[:32], seed, n)
                cases.append(dict(kind="raw", hops=hops, payload=pl, feats={"oversize": "len%d" % min(ln, 30)}))
    return split("adversarial", cases, 14, seed)


def dom_random(tier, seed):
    """seed-derived arbitrary payloads, and arbitrary PDU contents under a valid CRC"""
    n_any = 3000 if tier == "quick" else 60000
    n_valid = 6000 if tier == "quick" else 120000
    cases = []
    for i in range(n_any):
        cases.append(dict(kind="raw", hops=i % 3, payload=rnd_bytes(32, seed, 5000 + i), feats={"src": "any"}))
    for i in range(n_valid):
        r = rnd_bytes(30, seed, 100000 + i)
        ln = r[0] % 28
        pdu = bytes([r[1], ln]) + r[2:2 + ln]
        if i % 2 and ln >= 7:  # half of them: an AD region made of structures that fit, biased to the types the library knows
            adv, room, k = bytearray(), ln - 6, 8
            while room > 0:
                sl = r[k % 30] % room  # 0 .. room-1: the structure (1 + sl bytes) fits
                body = bytearray(rnd_bytes(sl, seed, 7 * i + k))
                if sl and r[(k + 1) % 30] & 1:
                    body[0] = (0x16, 0x0A, 0x08, 0x09, 0xFF, 0x01, 0x16, 0x16)[r[(k + 2) % 30] % 8]
                    if body[0] == 0x16 and sl >= 3 and r[(k + 3) % 30] & 1:
                        body[1:3] = ((0x09, 0x18), (0x0F, 0x18), (0xAA, 0xFE))[r[(k + 4) % 30] % 3]
                adv += bytes([sl]) + body
                room -= 1 + sl
                k += 5
            pdu = pdu[:8] + bytes(adv)
        pl = pad32(ble.encode_pdu(pdu, (2, 26, 80)[i % 3]), seed, i)
        cases.append(dict(kind="raw", hops=i % 3, payload=pl, feats={"src": "crc-valid"}))
    return split("random", cases, 14 if tier == "quick" else 28, seed)


# --------------------------------------------------------------------------- queue discipline
QOPS = ("rx-valid", "rx-invalid", "available", "read")


def queue_run(seed, hops, ops):
    """one interleaving of receptions / available() / read() against a reference FIFO ->
    (fails, outcome)"""
    b = Bench(seed, hops, need_lib_tx=False)
    model = []  # battery levels of queued elements
    fails = []
    counter = 0
    feats = {"ch": b.ch}
    for i, op in enumerate(ops):
        if op in ("rx-valid", "rx-invalid"):
            counter += 1
            adv = FLAGS + (ble.ad(ble.AD_SHORT_NAME, b"n" * (counter % 4)) if counter % 2 else b"") + ble.svc_battery(counter)
            pl = pad32(ble.encode(0x42, H.pattern(6, seed, counter), adv, b.ch, crc_flip=0 if op == "rx-valid" else 1 << (counter % 24)),
                       seed, counter)
            b.inject(pl)  # ground truth: the radio keeps at most 3 payloads, later ones are lost
        elif op == "available":
            head = b.rr.rx_fifo[0][1] if b.rr.rx_fifo else None
            nfifo = len(b.rr.rx_fifo)
            if head is not None:
                pdu, ok = ble.decode(head, b.ch)
                if ok:
                    model.append(pdu[-1])
            try:
                av = b.rx.available()
            except (HarnessError, Abort):
                raise
            except Exception as e:  # noqa
                fails.append(("exception:%s:available" % excname(e), "available() raised %r in %r" % (e, ops[:i + 1]), feats))
                break
            if bool(av) != bool(model):
                fails.append(("available-return", "available() returned %r with %d element(s) due after %r" % (av, len(model), ops[:i + 1]), feats))
                break
            if len(b.rr.rx_fifo) != max(0, nfifo - 1):
                fails.append(("available-consume", "available() took %d payload(s) from the RX FIFO" % (nfifo - len(b.rr.rx_fifo)), feats))
                break
        else:
            try:
                el = b.rx.read()
            except (HarnessError, Abort):
                raise
            except Exception as e:  # noqa
                fails.append(("exception:%s:read" % excname(e), "read() raised %r in %r" % (e, ops[:i + 1]), feats))
                break
            want = model.pop(0) if model else None
            got = None
            if el is not None:
                lv = [x.data for x in el.data if is_instance_of(x, "BatteryServiceData")]
                got = lv[0] if lv else "?"
            if got != want:
                if want is None:
                    clause = "read-not-none"
                elif got is None:
                    clause = "read-none"
                elif got in model:
                    clause = "read-order"
                else:
                    clause = "read-wrong-element"
                fails.append((clause, "read() returned element %r, first-in element is %r after %r" % (got, want, ops[:i + 1]), feats))
                break
    return fails, "queue:%d-rx:%d-left" % (counter, len(model))


def w_queue(item, rep):
    _, item_key, prefixes, depth, seed = item
    for pre in prefixes:
        for rest in itertools.product(QOPS, repeat=depth - len(pre)):
            ops = list(pre) + list(rest)
            # shorter interleavings are prefixes of these: every step is checked as it is taken
            hops = (len([o for o in ops if o == "read"]) + ops.count("rx-valid")) % 3
            fails, outcome = queue_run(seed, hops, ops)
            rep.case()
            rep.transitions += len(ops)
            rep.traces += 1
            rep.outcome(outcome)
            rep.part("queue", executions=1)
            rep.nt("q" + "".join(o[0] if o != "rx-invalid" else "i" for o in ops))
            for clause, what, feats in fails:
                K.stash(rep, item_key, clause, feats, what, {"part": "queue", "ops": ops, "hops": hops, "seed": seed}, size=len(ops))


def dom_queue(tier, seed):
    depth = 6 if tier == "quick" else 8
    pres = list(itertools.product(QOPS, repeat=2))
    items = [("queue", "que%03d" % i, [p], depth, seed) for i, p in enumerate(pres)]
    # from 3, 4 and 5 elements already queued (non-initial states the depth bound does not reach): every continuation of 4 / 4 / 5 operations
    for k, more in ((3, 4), (4, 4), (5, 5)):
        items.append(("queue", "quefill%d" % k, [("rx-valid", "available") * k], 2 * k + more, seed))
    return items


# --------------------------------------------------------------------------- sender histories
# E-BFS over what an application does to ONE transmitting FakeBLE object between advertisements:
# every sequence of attribute changes (only the named attribute is touched) and advertisements; after
# every advertisement the receiver's element must carry the sender's CURRENT mac / name / PA level /
# service data (a reference of "what the sender was last told", kept here).
HNAMES = (None, b"A", b"nRF")
HOPS_ALPHA = tuple([("pa", v) for v in PA_LEVELS] + [("show", True), ("show", False)] + [("name", i) for i in range(len(HNAMES))]
                   + [("mac", 0), ("mac", 1)] + [("batt", 7), ("batt", 200), ("temp", -1250), ("temp", 4211), ("url", 0), ("url", 1)]
                   + [("adv", "batt"), ("adv", "temp"), ("adv", "url"), ("adv", "none"), ("with",)])
HURLS = ((0, ["a", 0], -20), (3, ["bc", 8], 4))  # (scheme code, parts, TX power): http://www.a.com/ , https://bc.org


def hist_run(seed, hops, ops):
    """-> (fails, outcome); the service data objects live as long as the sender (re-used between advertisements)"""
    b = Bench(seed, hops, need_lib_tx=True)
    w = b.w
    tx = b.tx
    fails = []
    feats = {"ch": b.ch}
    cur = {"mac": H.pattern(6, seed, 60), "name": None, "show": False, "pa": 0, "batt": 50, "temp": 2000, "url": 0}
    tx.mac = cur["mac"]
    objs = {"batt": H.m_ble.BatteryServiceData(), "temp": H.m_ble.TemperatureServiceData(), "url": H.m_ble.UrlServiceData()}
    objs["batt"].data = cur["batt"]
    objs["temp"].data = cur["temp"] / 100.0
    objs["url"].pa_level_at_1_meter = HURLS[0][2]
    objs["url"].data = ble.url_text(HURLS[0][0], HURLS[0][1])
    nadv = 0
    for i, op in enumerate(ops):
        w.activate()
        try:
            if op[0] == "pa":
                tx.pa_level = op[1]
                cur["pa"] = op[1]
            elif op[0] == "show":
                tx.show_pa_level = op[1]
                cur["show"] = op[1]
            elif op[0] == "name":
                tx.name = HNAMES[op[1]]
                cur["name"] = HNAMES[op[1]]
            elif op[0] == "mac":
                cur["mac"] = H.pattern(6, seed, 61 + op[1])
                tx.mac = cur["mac"]
            elif op[0] == "batt":
                objs["batt"].data = op[1]
                cur["batt"] = op[1]
            elif op[0] == "temp":
                objs["temp"].data = op[1] / 100.0
                cur["temp"] = op[1]
            elif op[0] == "url":
                objs["url"].pa_level_at_1_meter = HURLS[op[1]][2]
                objs["url"].data = ble.url_text(HURLS[op[1]][0], HURLS[op[1]][1])
                cur["url"] = op[1]
            elif op[0] == "with":
                tx.__exit__(None, None, None)
                tx.__enter__()
                cur["name"], cur["show"] = None, False  # documented: leaving the block resets name and show_pa_level
            else:
                kind = op[1]
                if kind == "batt":
                    chunks, spec = [H.m_ble.chunk(objs["batt"].buffer)], [("battery", cur["batt"])]
                elif kind == "temp":
                    chunks, spec = [H.m_ble.chunk(objs["temp"].buffer)], [("temperature", cur["temp"])]
                elif kind == "url":
                    u = HURLS[cur["url"]]
                    chunks, spec = [H.m_ble.chunk(objs["url"].buffer)], [("url", u[0], u[1], u[2])]
                else:
                    chunks, spec = None, []
                n = len(b.rr.rx_fifo)
                if chunks is None:
                    tx.advertise()
                else:
                    tx.advertise(chunks)
                nadv += 1
                w.advance(600 * US)
                del w.airlog[:]
                if len(b.rr.rx_fifo) != n + 1:
                    fails.append(("tx-history-nothing-sent", "advertise() after %r put nothing on the air that the receiver's radio captured" % (ops[:i + 1],), feats))
                    break
                payload = b.rr.rx_fifo[-1][1]
                pdu, ok = ble.decode(payload, b.ch)
                exc, av, els = b.poll()
                if exc:
                    fails.append(("exception:%s:tx-history" % exc, "%s while receiving after %r" % (exc, ops[:i + 1]), feats))
                    break
                if not ok:
                    fails.append(("tx-malformed", "after %r the transmitting FakeBLE produced an invalid packet %s" % (ops[:i + 1], bytes(payload).hex()), feats))
                    break
                if len(els) != 1:
                    fails.append(("drops-valid" if not els else "queue-count", "valid advertisement produced %d elements after %r" % (len(els), ops[:i + 1]), feats))
                    break
                opt = b""
                if cur["show"]:
                    opt += ble.ad(ble.AD_TX_POWER, bytes([cur["pa"] & 0xFF]))
                if cur["name"] is not None:
                    opt += ble.ad(ble.AD_SHORT_NAME, cur["name"])
                adv = FLAGS + opt + b"".join(ref_items(spec, seed))
                bad = check_element(els[0], bytes([0x42, 6 + len(adv)]) + cur["mac"] + adv, True)
                if bad:
                    for clause, what in bad:
                        fails.append(("tx-history-" + clause, "after %r: %s" % (ops[:i + 1], what), feats))
                    break
        except (HarnessError, Abort):
            raise
        except Exception as e:  # noqa
            fails.append(("exception:%s:tx-history-%s" % (excname(e), op[0]), "%r raised %r after %r" % (op, e, ops[:i]), feats))
            break
    return fails, "txhist:%d-adv:%s" % (nadv, "ok" if not fails else "bad")


def w_hist(item, rep):
    _, item_key, prefixes, depth, seed = item
    for pre in prefixes:
        for rest in itertools.product(HOPS_ALPHA, repeat=depth - len(pre)):
            ops = [list(o) for o in pre + rest]
            if ops[-1][0] != "adv":  # every sequence ends by advertising what the last changes left behind
                ops.append(["adv", ("batt", "temp", "url", "none")[sum(len(o) for o in ops) % 4]])
            ops = [tuple(o) for o in ops]
            hops = len(ops) % 3
            fails, outcome = hist_run(seed, hops, ops)
            rep.case()
            rep.transitions += len(ops)
            rep.traces += 1
            rep.outcome(outcome)
            rep.part("txhist", executions=1)
            rep.nt("h" + repr(ops))
            for clause, what, feats in fails:
                K.stash(rep, item_key, clause, feats, what, {"part": "txhist", "ops": [list(o) for o in ops], "hops": hops, "seed": seed}, size=len(ops))


def dom_txhist(tier, seed):
    depth = 3 if tier == "quick" else 4
    return [("txhist", "txh%03d" % i, [(p,)], depth, seed) for i, p in enumerate(HOPS_ALPHA)]


# --------------------------------------------------------------------------- run / replay
def work(item, rep):
    if item[0] == "queue":
        return w_queue(item, rep)
    if item[0] == "txhist":
        return w_hist(item, rep)
    part, item_key, cases, seed = item
    run_cases(part, item_key, cases, seed, rep)


DOMAINS = (("battery", dom_battery), ("temperature", dom_temperature), ("url", dom_url), ("fields", dom_fields),
           ("corrupt", dom_corrupt), ("adversarial", dom_adversarial), ("random", dom_random), ("queue", dom_queue), ("txhist", dom_txhist))


def run(tier, seed, rep, only=None):
    rep.part("reference", roundtrips=ble.selfcheck(seed))
    items = []
    counts = {}
    for name, dom in DOMAINS:
        if only and name not in only:
            continue
        its = dom(tier, seed)
        if name == "txhist":
            counts[name] = len(HOPS_ALPHA) ** its[0][3]
        else:
            counts[name] = sum(len(i[2]) for i in its) if name != "queue" else len(its) * len(QOPS) ** (its[0][3] - 2)
        items += its
    # longest work first
    items.sort(key=lambda it: -(len(HOPS_ALPHA) ** (it[3] - 1) * 6 if it[0] == "txhist" else len(it[2]) if it[0] != "queue" else 4 ** (it[3] - 2) * 4))
    pmap(work, items, rep)
    K.collapse(rep, PID)
    ordered = sorted(rep.outcomes.items())  # merge order of the workers must not show in the evidence
    rep.outcomes.clear()
    rep.outcomes.update(dict(ordered))
    del rep.samples[:]  # written-out cases chosen here, not by whichever worker finishes first
    for name in ("temperature", "url", "adversarial", "corrupt", "fields", "queue"):
        its = sorted((it for it in items if it[0] == name), key=lambda it: it[1])
        if its and name != "queue":
            cases = its[len(its) // 2][2]
            rep.sample({"part": name, "case": cases[len(cases) // 2]})
        elif its:
            rep.sample({"part": name, "ops": list(its[len(its) // 2][2][0]) + ["available", "read", "read", "rx-valid"][:its[0][3] - 2]})
    rep.states += len(rep.nontrivial)
    return dict(
        level="model_checking",
        exhaustive=True,
        rule="E-ENUM over the air between a transmitter (real FakeBLE or the independent encoder on a ghost radio) and a listening "
             "FakeBLE: battery 0..255 x 3 channels x 2 transmitters (+ both ends tuned by channel assignment from every previous channel to every target); temperatures every 1.00 in -300..300 plus every 0.01 at "
             "-300..-299, -1..1, 299..300 (thorough: every 0.01 of the whole range); URLs = 4 schemes x (14 expansions + none) x "
             "bodies x end/path shapes, every TX power; names (None/str/bytes/UTF-8, every length 0..16) x TX power fields; raw "
             "structures of every length; all 1-bit and (quick: PDU-region / length-octet, thorough: all) 2-bit corruptions of a short "
             "and a full valid packet; CRC-valid packets with every (length, type) at 3 structure positions, truncated service "
             "data, other headers and lengths; CRC-valid and arbitrary seed-derived payloads; every interleaving of "
             "rx-valid/rx-invalid/available/read of the stated depth.  states = distinct non-trivial cases (everything except "
             "repeated bad-CRC rejections); transitions = executed cases (queue: operations).",
        bounds=dict(cases=counts, queue_depth=6 if tier == "quick" else 8, queue_prefilled="3, 4, 5 elements queued, then every sequence of 4 / 4 / 5 operations", channels=[2, 26, 80]),
        trusted_base=["vf/sim.py (nRF24L01+ behavioural model: legacy ShockBurst reception into a 3-level RX FIFO, ghost transmitter)",
                      "vf/ref/ble.py (bit-serial BLE link layer, AD parser, GATT/Eddystone service data codecs; self-checked at start)"],
        assumptions=["bytes captured after the CRC are seed-derived",
                     "the 'random' part is a finite seed-derived list of payloads (not all 2^256); MAC / name / raw bytes are seed-derived", "temperature exponent fixed at -2 (the documented 0.01 resolution)",
                     "CRC-valid packets shorter than an address (length octet < 6) may be queued or ignored but must not raise",
                     "getters of decoded elements are only exercised for well-formed structures", "CPython 3.12 only"],
        min_outcomes=12,
    )


def replay(data):
    r = data["replay"]
    seed = r["seed"]
    if r["part"] == "queue":
        fails, outcome = queue_run(seed, r["hops"], r["ops"])
    elif r["part"] == "txhist":
        fails, outcome = hist_run(seed, r["hops"], [tuple(o) for o in r["ops"]])
    else:
        case = r["case"]
        if case["kind"] == "adv":
            fails, outcome = exec_adv({}, seed, case)
        else:
            cache = {}
            fails = []
            if case.get("after") is not None:
                fails, _ = exec_raw(cache, seed, case["hops"], case["after"], case.get("feats"))
                if case.get("hop_between"):
                    cache[case["hops"]].hop()
            f2, outcome = exec_raw(cache, seed, case["hops"], case["payload"], case.get("feats"))
            fails = fails + f2
    print("outcome:", outcome)
    return K.replay_verdict(data, [(c, w) for c, w, _ in fails])
