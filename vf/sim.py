"""Trusted base: nRF24L01(+) behavioural simulator, shared air, SPI fronts, pins and
virtual time.  Written from the nRF24L01+ product specification v1.0, not from the driver.

Nothing in here imports the library under test.
"""
import copy
import copyreg
import ctypes
import heapq
import _thread
import threading


def _deepcopy_memoryview(x, memo):
    """copy.deepcopy cannot copy a memoryview; a changed library may keep one in its state (a view into a buffer it
    pre-allocated).  The copy is a view of the same bytes of the *copied* underlying object, so aliasing inside one copied
    state is preserved exactly as for any other shared object (memo).  The unchanged library holds no memoryviews."""
    base = x.obj
    try:
        if isinstance(base, bytearray) and x.contiguous and x.itemsize == 1 and x.ndim == 1:
            nb = copy.deepcopy(base, memo)
            if not len(x):
                return memoryview(nb)[0:0]
            off = ctypes.addressof(ctypes.c_char.from_buffer(x)) - ctypes.addressof(ctypes.c_char.from_buffer(base))
            return memoryview(nb)[off:off + len(x)]
    except (TypeError, ValueError):
        pass
    return memoryview(bytearray(x) if not x.readonly else bytes(x))


copy._deepcopy_dispatch[memoryview] = _deepcopy_memoryview
# (pickle-based state copies: the view becomes a view of a private copy of its bytes)
copyreg.pickle(memoryview, lambda m: (memoryview, (bytes(m) if m.readonly else bytearray(m),)))

US = 1000  # ns per microsecond
MS = 1000000

T_SETTLE = 130 * US  # TX/RX settling
CLOCK_READ_COST = 1 * US  # every clock read advances time (progress of polling loops)


class Abort(BaseException):
    """Raised inside node threads when the virtual-time horizon is hit."""


class HarnessError(Exception):
    """The harness / simulator was used in a way it does not model (never a VIOLATION)."""


# --------------------------------------------------------------------------- clock facade
class _Current:
    world = None


CUR = _Current()


class SimTime:
    """Replacement for the `time` module inside the library modules."""

    @staticmethod
    def sleep(secs):
        w = CUR.world
        w.advance(int(round(secs * 1e9)) if secs > 0 else 0)

    @staticmethod
    def monotonic_ns():
        w = CUR.world
        w.advance(CLOCK_READ_COST)
        return w.now

    @staticmethod
    def monotonic():
        w = CUR.world
        w.advance(CLOCK_READ_COST)
        return w.now / 1e9

    @staticmethod
    def time():
        w = CUR.world
        w.advance(CLOCK_READ_COST)
        return w.now / 1e9

    @staticmethod
    def perf_counter():
        return SimTime.monotonic()


SIMTIME = SimTime()


_pinned = []


def _pin_once():
    """baton passing between threads is several times faster when they share one core"""
    if not _pinned:
        _pinned.append(1)
        try:
            import os
            cpus = sorted(os.sched_getaffinity(0))
            if len(cpus) > 1:
                os.sched_setaffinity(0, {cpus[os.getpid() % len(cpus)]})
        except (AttributeError, OSError):
            pass


# --------------------------------------------------------------------------- world
class World:
    """Discrete-event world.  Mono mode: the harness thread calls driver methods and every
    SPI/time call advances the clock, running due radio events inline.  Threaded mode: see
    spawn()/run()."""

    def __init__(self, horizon_ns=10 * 1000 * MS):
        self.now = 0
        self.ev = []
        self.seq = 0
        self.radios = []
        self.tx_active = []
        self.airlog = []
        self.fault = None  # callable(pkt) -> True if the packet is lost for everybody
        self.phantom_ack = None  # callable(pkt) -> True: an (unmodelled) listener acknowledges this data packet
        self.horizon = horizon_ns
        self.ctxs = []
        self.cur = None  # ctx holding the baton (threaded mode)
        self.main = None
        self.aborted = False
        self.nspi = 0
        self.nswitch = 0
        self.log_air = True

    def activate(self):
        CUR.world = self
        return self

    # ---- events
    def at(self, t, obj, meth, *args):
        self.seq += 1
        e = [t, self.seq, obj, meth, args, True]
        heapq.heappush(self.ev, e)
        return e

    @staticmethod
    def cancel(e):
        if e is not None:
            e[5] = False

    def pending(self):
        """live events as (dt, radio name, method) - used by canonical state hashing"""
        return tuple(sorted((e[0] - self.now, getattr(e[2], "name", "?"), e[3]) for e in self.ev if e[5]))

    # ---- time
    def advance(self, dur):
        ctx = self.cur
        if ctx is not None:
            return ctx.wait(dur)
        target = self.now + dur
        ev = self.ev
        while ev and ev[0][0] <= target:
            t, _, obj, meth, args, live = heapq.heappop(ev)
            if live:
                if t > self.now:
                    self.now = t
                getattr(obj, meth)(*args)
        self.now = target
        if target > self.horizon:
            raise Abort("horizon")

    def settle(self, max_ns=100 * MS):
        """mono mode: run until no radio event is pending (or max_ns elapsed)"""
        end = self.now + max_ns
        while True:
            live = [e for e in self.ev if e[5]]
            if not live:
                return
            t = min(e[0] for e in live)
            if t > end:
                self.advance(end - self.now)
                return
            self.advance(max(0, t - self.now))

    # ---- threaded contexts
    def spawn(self, name, fn, start=0):
        c = Ctx(self, name, fn)
        self.ctxs.append(c)
        c.resume_ev = self.at(start, c, "_resume")
        return c

    def run(self):
        """main thread: run all spawned contexts until they finish or the horizon is hit"""
        _pin_once()
        self.main = Ctx(self, "main", None)
        for c in self.ctxs:
            c.thread = threading.Thread(target=c._run, daemon=True)
            c.thread.start()
        self.cur = self.main
        self.main.resume_ev = self.at(self.horizon, self.main, "_resume")
        self._dispatch(self.main)
        if any(not c.done for c in self.ctxs):
            self.aborted = True
            for c in self.ctxs:
                if not c.done:
                    c.lock.release()
            for c in self.ctxs:
                c.thread.join()
        else:
            for c in self.ctxs:
                c.thread.join()
        self.cur = None

    def wake_rx_waiters(self):
        """resume every context blocked in wait_rx() now (used to stop idle loops)"""
        for r in self.radios:
            for tok in list(r.rx_waiters):
                tok.fire(0)

    def _dispatch(self, me):
        """thread `me` holds the baton; returns when me's resume event is popped"""
        ev = self.ev
        while True:
            if not ev:
                if me is self.main:
                    return
                self.cur = self.main
                self.nswitch += 1
                self.main.lock.release()
                if me.done:
                    return
                me.lock.acquire()
                if self.aborted:
                    raise Abort()
                return
            t, _, obj, meth, args, live = heapq.heappop(ev)
            if not live:
                continue
            if t > self.now:
                self.now = t
            if meth == "_resume":
                if obj is me:
                    return
                self.cur = obj
                self.nswitch += 1
                obj.lock.release()
                if me.done:
                    return
                me.lock.acquire()
                if self.aborted:
                    raise Abort()
                return
            getattr(obj, meth)(*args)


class Ctx:
    """One MCU (application thread) of a threaded world."""

    def __init__(self, world, name, fn):
        self.w = world
        self.name = name
        self.fn = fn
        self.lock = _thread.allocate_lock()
        self.lock.acquire()
        self.done = False
        self.exc = None
        self.resume_ev = None
        self.thread = None
        self.result = None

    def _resume(self):  # marker
        pass

    def _run(self):
        self.lock.acquire()
        w = self.w
        if w.aborted:
            self.done = True
            return
        try:
            self.result = self.fn(self)
        except Abort:
            self.done = True
            if not w.aborted:
                # this context ran into the horizon on its own (a single wait that crosses it): hand the baton
                # back to the main thread, which aborts the others
                w.cancel(w.main.resume_ev)
                w.cur = w.main
                w.main.lock.release()
            return
        except BaseException as e:  # noqa
            self.exc = e
        self.done = True
        if w.aborted:
            return
        if all(c.done for c in w.ctxs):
            w.cancel(w.main.resume_ev)
            w.cur = w.main
            w.main.lock.release()
            return
        try:
            w._dispatch(self)
        except Abort:
            pass

    def wait(self, dur):
        w = self.w
        target = w.now + dur
        if target > w.horizon:
            raise Abort("horizon")
        ev = w.ev
        while ev and not ev[0][5]:
            heapq.heappop(ev)
        if not ev or ev[0][0] > target:
            w.now = target
            return
        self.resume_ev = w.at(target, self, "_resume")
        w._dispatch(self)

    def wait_rx(self, radio, timeout, latency):
        """block until `radio` holds RX data (then + latency), `timeout` elapsed (None = wait
        for ever; see World.wake_rx_waiters) . Returns True if data is waiting."""
        w = self.w
        if radio.rx_fifo:
            self.wait(latency)
            return True
        tok = _RxWaiter(self, latency)
        radio.rx_waiters.append(tok)
        if timeout is not None:
            if w.now + timeout > w.horizon:
                timeout = w.horizon - w.now + 1
            tok.ev = self.resume_ev = w.at(w.now + timeout, self, "_resume")
        try:
            w._dispatch(self)
        finally:
            if tok in radio.rx_waiters:
                radio.rx_waiters.remove(tok)
        if w.now > w.horizon:
            raise Abort("horizon")
        return bool(radio.rx_fifo)


class _RxWaiter:
    def __init__(self, ctx, latency):
        self.ctx = ctx
        self.latency = latency
        self.ev = None
        self.fired = False

    def fire(self, latency=None):
        if not self.fired:
            self.fired = True
            w = self.ctx.w
            w.cancel(self.ev)
            self.ev = None
            self.ctx.resume_ev = w.at(w.now + (self.latency if latency is None else latency), self.ctx, "_resume")


# --------------------------------------------------------------------------- pins
class Pin:
    """digitalio.DigitalInOut look-alike"""

    def __init__(self, radio=None, role=None, value=False):
        self._v = bool(value)
        self.radio = radio
        self.role = role
        self.log = None

    def switch_to_output(self, value=False, drive_mode=None):
        self.value = value

    def switch_to_input(self, pull=None):
        pass

    @property
    def value(self):
        return self._v

    @value.setter
    def value(self, v):
        v = bool(v)
        old = self._v
        self._v = v
        if old != v and self.radio is not None:
            if self.role == "ce":
                self.radio._ce_changed(v)
            elif self.role == "csn":
                self.radio._csn_changed(v)

    def __bool__(self):
        return True


# --------------------------------------------------------------------------- packets
class Pkt:
    __slots__ = ("src", "ch", "rate", "addr", "payload", "pid", "noack", "esb", "dpl", "crc",
                 "is_ack", "start", "end", "collided", "lost", "heard_by", "acked", "seq", "want_ack")

    def __repr__(self):
        return "<Pkt %s ch%d %s %s len%d pid%d%s t=%d..%dus%s%s>" % (
            self.src.name, self.ch, self.addr.hex(), "ACK" if self.is_ack else "DAT",
            len(self.payload), self.pid, " NOACK" if self.noack else "",
            self.start // 1000, self.end // 1000,
            " COLL" if self.collided else "", " LOST" if self.lost else "")

    def brief(self):
        return {"src": self.src.name, "addr": self.addr.hex(), "ack": self.is_ack, "pid": self.pid,
                "noack": self.noack, "len": len(self.payload), "payload": self.payload.hex(),
                "t_us": self.start // 1000, "coll": self.collided, "lost": self.lost,
                "heard_by": list(self.heard_by)}


RESET = {0x00: 0x08, 0x01: 0x3F, 0x02: 0x03, 0x03: 0x03, 0x04: 0x03, 0x05: 0x02, 0x06: 0x0E,
         0x07: 0x0E, 0x08: 0x00, 0x09: 0x00, 0x0C: 0xC3, 0x0D: 0xC4, 0x0E: 0xC5, 0x0F: 0xC6,
         0x11: 0, 0x12: 0, 0x13: 0, 0x14: 0, 0x15: 0, 0x16: 0, 0x17: 0x11, 0x1C: 0, 0x1D: 0}
# writable bits per single-byte register (reserved bits excluded)
WMASK = {0x00: 0x7F, 0x01: 0x3F, 0x02: 0x3F, 0x03: 0x03, 0x04: 0xFF, 0x05: 0x7F, 0x06: 0xBF,
         0x0C: 0xFF, 0x0D: 0xFF, 0x0E: 0xFF, 0x0F: 0xFF,
         0x11: 0x3F, 0x12: 0x3F, 0x13: 0x3F, 0x14: 0x3F, 0x15: 0x3F, 0x16: 0x3F,
         0x1C: 0x3F, 0x1D: 0x07}
ADDR_REGS = (0x0A, 0x0B, 0x10)
READ_ONLY = (0x08, 0x09, 0x17)


class TxEntry:
    __slots__ = ("data", "noack", "ack_pipe", "pid", "uid")

    def __init__(self, data, noack, ack_pipe, uid):
        self.data = data
        self.noack = noack
        self.ack_pipe = ack_pipe
        self.pid = None
        self.uid = uid

    def key(self):
        return (self.data, self.noack, self.ack_pipe, self.pid)


class SimRadio:
    def __init__(self, world, name, plus=True):
        self.w = world
        self.name = name
        self.plus = plus
        world.radios.append(self)
        self.r = dict(RESET)
        if not plus:
            self.r[0x06] = 0x0F
        self.a = {0x0A: bytearray(b"\xe7" * 5), 0x0B: bytearray(b"\xc2" * 5),
                  0x10: bytearray(b"\xe7" * 5)}
        self.features_active = plus
        self.tx_fifo = []
        self.rx_fifo = []  # (pipe, payload)
        self.reuse = False
        self.ce_pin = Pin(self, "ce", False)
        self.csn_pin = Pin(self, "csn", True)
        self.state = "off"
        self.rx_since = None
        self.pid = 0
        self.last_rx = None
        self.cur_pkt = None
        self.timer = None
        self.in_txn = False
        self.arc_cnt = 0
        self.pending_ack = {}  # pipe -> TxEntry used as ACK payload of the last new packet
        self.rx_waiters = []
        self.illegal_writes = []  # (reg, value, why)
        self.ro_writes = []
        self.anomalies = []  # commands the spec calls undefined (write to full FIFO, ...)
        self.spilog = None  # list of (now, mosi, miso) when enabled
        self.truth = []  # ground-truth link events
        self.celog = None  # list of (now, value) when enabled
        self.xfers_in_cs = 0
        self.uid = 0
        self.rx_overflow = 0  # packets dropped because the RX FIFO was full
        self.rx_flushed_unread = 0  # received payloads destroyed by FLUSH_RX before anybody read them

    # ------------------------------------------------------------------ derived values
    def status(self):
        s = self.r[0x07] & 0x70
        s |= (self.rx_fifo[0][0] << 1) if self.rx_fifo else 0x0E
        if len(self.tx_fifo) >= 3:
            s |= 1
        return s

    def fifo_status(self):
        f = 0
        if not self.rx_fifo:
            f |= 0x01
        if len(self.rx_fifo) >= 3:
            f |= 0x02
        if not self.tx_fifo:
            f |= 0x10
        if len(self.tx_fifo) >= 3:
            f |= 0x20
        if self.reuse:
            f |= 0x40
        return f

    def irq_line(self):
        """IRQ pin level (active low): False = asserted"""
        st, cfg = self.r[0x07], self.r[0x00]
        return not (st & 0x70 & ~cfg)

    def pwr(self):
        return bool(self.r[0] & 2)

    def prx(self):
        return bool(self.r[0] & 1)

    def aw(self):
        v = self.r[0x03] & 3
        return v + 2 if v else 5  # '00' is illegal; hardware behaviour undefined

    def rate(self):
        v = self.r[0x06]
        return 250 if v & 0x20 else (2000 if v & 0x08 else 1000)

    def crclen(self):
        c = self.r[0]
        if self.r[0x01] or c & 0x08:
            return 2 if c & 0x04 else 1
        return 0

    def feat(self):
        return self.r[0x1D] if self.features_active else 0

    def dynpd(self):
        return self.r[0x1C] if self.features_active else 0

    def esb(self):
        return bool(self.r[0x01]) or bool(self.feat() & 4)

    def pipe_addr(self, p):
        aw = self.aw()
        if p < 2:
            return bytes(self.a[0x0A + p][:aw])
        return bytes([self.r[0x0A + p]]) + bytes(self.a[0x0B][1:aw])

    def tx_addr(self):
        return bytes(self.a[0x10][:self.aw()])

    def pipe_dynamic(self, p):
        return bool(self.feat() & 4) and bool(self.dynpd() & (1 << p))

    def carrier_on(self):
        return (self.pwr() and not self.prx() and self.ce_pin.value
                and (self.r[0x06] & 0x90) == 0x90)

    def regfile(self):
        """complete configuration register snapshot (ground truth for oracles)"""
        d = {k: self.r[k] for k in (0, 1, 2, 3, 4, 5, 6, 0x0C, 0x0D, 0x0E, 0x0F,
                                    0x11, 0x12, 0x13, 0x14, 0x15, 0x16, 0x1C, 0x1D)}
        for k, v in self.a.items():
            d[k] = bytes(v)
        return d

    def snapshot(self):
        """hashable state of the radio (for canonical state hashing)"""
        return (tuple(sorted(self.r.items())), tuple((k, bytes(v)) for k, v in sorted(self.a.items())),
                self.features_active, tuple(e.key() for e in self.tx_fifo), tuple(self.rx_fifo),
                self.reuse, self.ce_pin.value, self.state, self.pid, self.last_rx, self.in_txn,
                self.arc_cnt, tuple(sorted((p, e.key()) for p, e in self.pending_ack.items())))

    # ------------------------------------------------------------------ SPI
    def _csn_changed(self, v):
        if not v:
            self.xfers_in_cs = 0

    def xfer(self, out):
        """one complete SPI transaction (CSN low ... CSN high): MOSI bytes -> MISO bytes"""
        w = self.w
        w.nspi += 1
        out = bytes(out)
        if not out:
            return b""
        st = self.status()
        cmd = out[0]
        data = out[1:]
        n = len(data)
        resp = bytearray(n)
        reeval = False
        if cmd < 0x20:  # R_REGISTER
            reg = cmd
            if reg in self.a:
                v = self.a[reg]
                for i in range(n):
                    resp[i] = v[i] if i < 5 else 0
            else:
                if reg == 0x07:
                    val = st
                elif reg == 0x17:
                    val = self.fifo_status()
                elif reg in (0x1C, 0x1D) and not self.features_active:
                    val = 0
                else:
                    val = self.r.get(reg, 0)
                for i in range(n):
                    resp[i] = val
        elif cmd < 0x40:  # W_REGISTER
            reg = cmd & 0x1F
            if reg in self.a:
                self.a[reg][:min(n, 5)] = data[:5]
                if n > 5:
                    self.illegal_writes.append((reg, bytes(data), "more than 5 address bytes"))
            elif reg == 0x07:
                if n:
                    if data[0] & 0x80:
                        self.illegal_writes.append((reg, data[0], "reserved bit 7"))
                    self.r[0x07] &= ~(data[0] & 0x70)
            elif reg in READ_ONLY:
                self.ro_writes.append((reg, data[0] if n else None))
            elif reg in WMASK and n:
                v = data[0]
                if reg in (0x1C, 0x1D) and not self.features_active:
                    self.anomalies.append(("feature_write_inactive", reg, v))
                else:
                    if v & ~WMASK[reg] & 0xFF:
                        self.illegal_writes.append((reg, v, "reserved bits"))
                    if 0x11 <= reg <= 0x16 and (v & 0x3F) > 32:
                        self.illegal_writes.append((reg, v, "RX_PW > 32"))
                    if reg == 0x03 and (v & 3) == 0:
                        self.illegal_writes.append((reg, v, "SETUP_AW '00' illegal"))
                    if reg == 0x06 and (v & 0x28) == 0x28:
                        self.illegal_writes.append((reg, v, "RF_DR '11' reserved"))
                    if reg == 0x05 and (v & 0x7F) > 125:
                        self.illegal_writes.append((reg, v, "RF_CH > 125"))
                    self.r[reg] = v & WMASK[reg]
                    if reg == 0x05:
                        self.r[0x08] &= 0x0F  # PLOS_CNT reset by writing RF_CH
            elif n:
                self.illegal_writes.append((reg, data[0], "no such register"))
            reeval = True
        elif cmd == 0x61:  # R_RX_PAYLOAD
            if self.rx_fifo:
                p = self.rx_fifo[0][1]
                for i in range(n):
                    resp[i] = p[i] if i < len(p) else 0
                if n:
                    self.rx_fifo.pop(0)
            else:
                self.anomalies.append(("r_rx_payload_empty", n))
        elif cmd in (0xA0, 0xB0) or 0xA8 <= cmd <= 0xAF:
            ack_pipe = (cmd & 7) if cmd >= 0xA8 and cmd != 0xB0 else None
            if n == 0 or n > 32:
                self.anomalies.append(("payload_width", cmd, n))
            if ack_pipe is not None and ack_pipe > 5:
                self.anomalies.append(("ack_payload_pipe", cmd))
            if len(self.tx_fifo) < 3:
                if n:
                    self.uid += 1
                    self.tx_fifo.append(TxEntry(data[:32], cmd == 0xB0, ack_pipe, self.uid))
                self.reuse = False
            else:
                self.anomalies.append(("write_tx_fifo_full", cmd))
            reeval = True
        elif cmd == 0xE1:  # FLUSH_TX
            self.tx_fifo.clear()
            self.pending_ack.clear()
            self.reuse = False
        elif cmd == 0xE2:  # FLUSH_RX
            self.rx_flushed_unread += len(self.rx_fifo)
            self.rx_fifo.clear()
        elif cmd == 0xE3:  # REUSE_TX_PL
            self.reuse = True
        elif cmd == 0x60:  # R_RX_PL_WID
            if n:
                resp[0] = len(self.rx_fifo[0][1]) if self.rx_fifo else 0
        elif cmd == 0x50:  # ACTIVATE (non-plus only)
            if not self.plus and n and data[0] == 0x73:
                self.features_active = not self.features_active
                reeval = True
        elif cmd == 0xFF:
            pass
        else:
            self.anomalies.append(("unknown_command", cmd))
        miso = bytes([st]) + bytes(resp)
        if self.spilog is not None:
            self.spilog.append((w.now, out, miso))
        if reeval:
            self._reeval()
        return miso

    # ------------------------------------------------------------------ state machine
    def _ce_changed(self, v):
        if self.celog is not None:
            self.celog.append((self.w.now, v))
        self._reeval()

    def _set_state(self, s):
        self.state = s
        self.rx_since = self.w.now if s == "rx" else None

    def _cancel_timer(self):
        self.w.cancel(self.timer)
        self.timer = None

    def _reeval(self):
        w = self.w
        st = self.state
        if st in ("tx", "ack_tx"):
            return  # a packet on the air is always finished; its end handler re-evaluates
        if st == "ack_settle" and self.pwr():
            # datasheet fig. 13 (PRX operation): once a packet was accepted the ACK is
            # transmitted; CE / PRIM_RX are only looked at again after the ACK went out
            return
        if not self.pwr():
            self._cancel_timer()
            self.in_txn = False
            self._set_state("off")
            return
        if st == "off":
            st = "stby"
            self._set_state(st)
        ce = self.ce_pin.value
        if self.prx():
            if st in ("tx_settle", "ack_wait"):
                self._cancel_timer()
                self.in_txn = False
                st = "stby"
                self._set_state(st)
            if ce:
                if st == "stby":
                    self._set_state("rx_settle")
                    self.timer = w.at(w.now + T_SETTLE, self, "_rx_ready")
            elif st in ("rx", "rx_settle"):
                self._cancel_timer()
                self._set_state("stby")
        else:
            if st in ("rx", "rx_settle"):
                self._cancel_timer()
                st = "stby"
                self._set_state(st)
            if st == "stby" and not self.in_txn and ce and self.tx_fifo and not (self.r[0x07] & 0x10):
                ent = self.tx_fifo[0]
                if ent.pid is None:
                    self.pid = (self.pid + 1) & 3
                    ent.pid = self.pid
                self.in_txn = True
                self.arc_cnt = 0
                self.r[0x08] &= 0xF0
                self._set_state("tx_settle")
                self.timer = w.at(w.now + T_SETTLE, self, "_tx_start")

    def _rx_ready(self):
        self.timer = None
        self.r[0x09] = 0
        self._set_state("rx")

    def airtime(self, nbytes):
        bits = 8 * (1 + self.aw() + nbytes + self.crclen()) + (9 if self.esb() else 0)
        return bits * 1000000 // self.rate()  # ns

    def _mkpkt(self, addr, payload, pid, noack, is_ack):
        p = Pkt()
        w = self.w
        p.src = self
        p.ch = self.r[0x05]
        p.rate = self.rate()
        p.addr = bytes(addr)
        p.payload = bytes(payload)
        p.pid = pid
        p.noack = noack
        p.esb = self.esb()
        p.dpl = bool(self.feat() & 4) and (is_ack or bool(self.dynpd() & 1))
        p.crc = self.crclen()
        p.is_ack = is_ack
        p.start = w.now
        p.end = w.now + self.airtime(len(payload))
        p.collided = False
        p.lost = False
        p.heard_by = []
        p.acked = False
        p.want_ack = (not is_ack) and p.esb and bool(self.r[0x01] & 1) and not noack
        w.seq += 1
        p.seq = w.seq
        return p

    def _air_start(self, pkt):
        w = self.w
        for o in w.tx_active:
            if o.ch == pkt.ch and o.end > pkt.start:
                o.collided = True
                pkt.collided = True
        w.tx_active.append(pkt)
        if w.log_air:
            w.airlog.append(pkt)
        if w.fault is not None and w.fault(pkt):
            pkt.lost = True

    def _air_end(self, pkt):
        w = self.w
        w.tx_active.remove(pkt)
        for r in w.radios:
            if r is not self:
                r._on_air(pkt)

    def _tx_start(self):
        self.timer = None
        if not self.tx_fifo:  # flushed while settling
            self.in_txn = False
            self._set_state("stby")
            self._reeval()
            return
        ent = self.tx_fifo[0]
        if ent.pid is None:
            self.pid = (self.pid + 1) & 3
            ent.pid = self.pid
        noack = ent.noack and bool(self.feat() & 1)
        pkt = self._mkpkt(self.tx_addr(), ent.data, ent.pid, noack, False)
        self.cur_pkt = pkt
        self._set_state("tx")
        self._air_start(pkt)
        self.timer = self.w.at(pkt.end, self, "_tx_end")

    def _tx_end(self):
        self.timer = None
        pkt = self.cur_pkt
        need_ack = pkt.esb and bool(self.r[0x01] & 1) and not pkt.noack
        self._set_state("ack_wait" if need_ack else "stby")
        self._air_end(pkt)
        if self.state == "ack_wait":
            if not self.prx() and self.pwr():
                ard = ((self.r[0x04] >> 4) + 1) * 250 * US
                self.timer = self.w.at(self.w.now + ard, self, "_ack_timeout")
                w = self.w
                if (w.phantom_ack is not None and not pkt.lost and not pkt.collided and not pkt.heard_by
                        and (self.r[0x02] & 1) and self.pipe_addr(0) == pkt.addr and w.phantom_ack(pkt)):
                    self.phantom_ev = w.at(w.now + T_SETTLE + self.airtime(0), self, "_phantom_ack_rx", pkt)
            else:  # role changed while the packet was on the air
                self.in_txn = False
                self._set_state("stby")
                self._reeval()
        elif not need_ack:
            self._complete_tx(pkt, None)

    def _phantom_ack_rx(self, pkt):
        if self.state == "ack_wait" and self.cur_pkt is pkt:
            self._cancel_timer()
            pkt.acked = True
            pkt.heard_by.append("phantom")
            self._complete_tx(pkt, b"")

    def _complete_tx(self, pkt, ackpl):
        if self.tx_fifo and self.tx_fifo[0].pid == pkt.pid and self.tx_fifo[0].data == pkt.payload:
            if not self.reuse:
                self.tx_fifo.pop(0)
            self.r[0x07] |= 0x20
            self.truth.append(("tx_ok", pkt.payload, ackpl, self.w.now))
        # else: FIFO was flushed under the transaction; nothing to report
        self.in_txn = False
        self._set_state("stby")
        self._reeval()

    def _ack_timeout(self):
        self.timer = None
        w = self.w
        # an ACK whose address was already detected is received completely
        for o in w.tx_active:
            if o.is_ack and o.ch == self.r[0x05] and o.addr == self.pipe_addr(0) and o.start < w.now:
                self.timer = w.at(o.end + 1, self, "_ack_timeout")
                return
        if not self.tx_fifo:
            self.in_txn = False
            self._set_state("stby")
            self._reeval()
            return
        arc = self.r[0x04] & 0x0F
        if self.arc_cnt < arc:
            self.arc_cnt += 1
            self.r[0x08] = (self.r[0x08] & 0xF0) | (self.arc_cnt & 0x0F)
            self._set_state("tx_settle")
            self.timer = w.at(w.now + T_SETTLE, self, "_tx_start")
        else:
            self.r[0x07] |= 0x10
            pl = min(15, (self.r[0x08] >> 4) + 1)
            self.r[0x08] = (pl << 4) | (self.r[0x08] & 0x0F)
            self.truth.append(("max_rt", self.tx_fifo[0].data, None, w.now))
            self.in_txn = False
            self._set_state("stby")

    def _on_air(self, pkt):
        """a packet from another radio ended at w.now"""
        if pkt.ch != self.r[0x05] or pkt.rate != self.rate():
            return
        if self.state == "rx":
            self.r[0x09] = 1
        if pkt.collided or pkt.lost:
            return
        if self.state == "ack_wait":
            if (pkt.is_ack and self.cur_pkt is not None and pkt.pid == self.cur_pkt.pid
                    and (self.r[0x02] & 1) and self.pipe_addr(0) == pkt.addr
                    and pkt.addr == self.cur_pkt.addr and pkt.crc == self.crclen()):
                self._cancel_timer()
                pkt.heard_by.append(self.name)
                pl = pkt.payload
                if pl and self.pipe_dynamic(0):
                    if len(self.rx_fifo) < 3:
                        self.rx_fifo.append((0, pl))
                        self.r[0x07] |= 0x40
                        for tok in list(self.rx_waiters):
                            tok.fire()
                else:
                    pl = b""
                self.cur_pkt.acked = True
                self._complete_tx(self.cur_pkt, pl)
            return
        if self.state != "rx" or self.rx_since is None or self.rx_since > pkt.start or pkt.is_ack:
            return
        if pkt.esb != self.esb() or pkt.crc != self.crclen() or len(pkt.addr) != self.aw():
            return
        pipe = None
        for p in range(6):
            if self.r[0x02] & (1 << p) and self.pipe_addr(p) == pkt.addr:
                pipe = p
                break
        if pipe is None:
            return
        if self.pipe_dynamic(pipe):
            if not pkt.dpl or len(pkt.payload) > 32:
                return
        elif len(pkt.payload) != self.r[0x11 + pipe] or not pkt.payload:
            return
        will_ack = pkt.esb and bool(self.r[0x01] & (1 << pipe)) and not pkt.noack
        dup = pkt.esb and self.last_rx == (pkt.pid, pkt.payload, pkt.addr)
        if not dup:
            if len(self.rx_fifo) >= 3:
                self.rx_overflow += 1
                return  # RX FIFO full: packet discarded, not acknowledged
            self.rx_fifo.append((pipe, pkt.payload))
            self.r[0x07] |= 0x40
            self.last_rx = (pkt.pid, pkt.payload, pkt.addr)
            self.truth.append(("rx", pipe, pkt.payload, self.w.now))
            pkt.heard_by.append(self.name)
            for tok in list(self.rx_waiters):
                tok.fire()
        else:
            pkt.heard_by.append(self.name + ":dup")
        if will_ack:
            ackpl = b""
            if (self.feat() & 2) and self.pipe_dynamic(pipe):
                if not dup and pipe in self.pending_ack:
                    old = self.pending_ack.pop(pipe)
                    if old in self.tx_fifo:  # previous ACK payload is confirmed delivered
                        self.tx_fifo.remove(old)
                        self.r[0x07] |= 0x20
                if pipe not in self.pending_ack:
                    for e in self.tx_fifo:
                        if e.ack_pipe == pipe:
                            self.pending_ack[pipe] = e
                            break
                if pipe in self.pending_ack:
                    ackpl = self.pending_ack[pipe].data
            self._set_state("ack_settle")
            self.timer = self.w.at(self.w.now + T_SETTLE, self, "_ack_start", pkt.addr, ackpl, pkt.pid)

    def _ack_start(self, addr, ackpl, pid):
        self.timer = None
        pkt = self._mkpkt(addr, ackpl, pid, False, True)
        self.cur_pkt = pkt
        self._set_state("ack_tx")
        self._air_start(pkt)
        self.timer = self.w.at(pkt.end, self, "_ack_end")

    def _ack_end(self):
        self.timer = None
        self._set_state("stby")
        self._air_end(self.cur_pkt)
        self._reeval()

    # ------------------------------------------------------------------ ghost helpers
    def poke(self, reg, val):
        """harness-side register write (no SPI, no cost)"""
        if reg in self.a:
            self.a[reg][:len(val)] = val
        else:
            self.r[reg] = val
        self._reeval()


# --------------------------------------------------------------------------- SPI fronts
class SimSpiDev:
    """spidev.SpiDev look-alike: RF24.__init__ selects wrapper.SPIDevCtx for it"""

    def __init__(self, radio, cost_ns=30 * US):
        self.radio = radio
        self.cost = cost_ns
        self.no_cs = False
        self.is_open = False

    def open(self, bus, dev):
        self.is_open = True

    def close(self):
        self.is_open = False

    def xfer2(self, out, baud=0, *a):
        r = self.radio
        resp = r.xfer(bytes(out))
        r.w.advance(self.cost + len(out) * 800)
        return list(resp)


class SimBusSPI:
    """busio.SPI look-alike (shared bus, devices selected by their CSN pins)"""

    def __init__(self, world, cost_ns=30 * US):
        self.w = world
        self.cost = cost_ns
        self.locked = False
        self.devs = []
        self.baud = None

    def attach(self, radio):
        self.devs.append(radio)
        return radio.csn_pin

    def try_lock(self):
        if self.locked:
            return False
        self.locked = True
        return True

    def unlock(self):
        self.locked = False

    def configure(self, baudrate=100000, polarity=0, phase=0, bits=8):
        self.baud = baudrate

    def _sel(self):
        s = [r for r in self.devs if r.csn_pin.value is False]
        if len(s) > 1:
            raise HarnessError("two chip selects active")
        return s[0] if s else None

    def write_readinto(self, out, inp, *, out_start=0, out_end=None, in_start=0, in_end=None):
        out_end = len(out) if out_end is None else out_end
        in_end = len(inp) if in_end is None else in_end
        data = bytes(out[out_start:out_end])
        if len(data) != in_end - in_start:
            raise ValueError("buffer slices must be of equal length")
        r = self._sel()
        if r is not None:
            r.xfers_in_cs += 1
            if r.xfers_in_cs > 1:
                raise HarnessError("more than one transfer per chip-select window is not modelled")
            resp = r.xfer(data)
        else:
            resp = bytes(len(data))
        inp[in_start:in_end] = resp
        self.w.advance(self.cost + len(data) * 800)

    def write(self, buf, *, start=0, end=None):
        data = bytes(buf[start:end])
        r = self._sel()
        if r is not None:
            r.xfers_in_cs += 1
            if r.xfers_in_cs > 1:
                raise HarnessError("more than one transfer per chip-select window is not modelled")
            r.xfer(data)
        self.w.advance(len(data) * 800)

    def readinto(self, buf, *, start=0, end=None, write_value=0):
        end = len(buf) if end is None else end
        out = bytes([write_value]) * (end - start)
        self.write_readinto(out, buf, in_start=start, in_end=end)


# --------------------------------------------------------------------------- ghosts
def ghost_listener(world, name, pipes, channel=76, rate=1000, crc=2, aw=5, en_aa=0x3F,
                   dynpd=0x3F, feature=0x04, pw=32):
    """A radio with no MCU that listens (and auto-acknowledges) on the given addresses.
    pipes: list of up to 6 addresses (bytes) or None."""
    r = SimRadio(world, name)
    r.r[0x05] = channel
    r.r[0x06] = {1000: 0x06, 2000: 0x0E, 250: 0x26}[rate]
    r.r[0x00] = 0x03 | (0x08 if crc else 0) | (0x04 if crc == 2 else 0)
    r.r[0x03] = aw - 2
    r.r[0x01] = en_aa
    r.r[0x1C] = dynpd
    r.r[0x1D] = feature
    en = 0
    for i, a in enumerate(pipes):
        if a is None:
            continue
        en |= 1 << i
        if i < 2:
            r.a[0x0A + i][:len(a)] = a
        else:
            r.r[0x0A + i] = a[0]
        r.r[0x11 + i] = pw
    r.r[0x02] = en
    r.ce_pin.value = True
    r._reeval()
    return r


def ghost_sender(world, name, channel=76, rate=1000, crc=2, aw=5, en_aa=0x3F, dynpd=0x3F,
                 feature=0x05, arc=0, ard=5):
    """A radio with no MCU used to inject packets (see ghost_send)."""
    r = SimRadio(world, name)
    r.r[0x05] = channel
    r.r[0x06] = {1000: 0x06, 2000: 0x0E, 250: 0x26}[rate]
    r.r[0x00] = 0x02 | (0x08 if crc else 0) | (0x04 if crc == 2 else 0)
    r.r[0x03] = aw - 2
    r.r[0x01] = en_aa
    r.r[0x1C] = dynpd
    r.r[0x1D] = feature
    r.r[0x04] = (ard << 4) | arc
    r.r[0x02] = 0x01
    r._reeval()
    return r


def ghost_send(ghost, addr, payload, noack=False):
    """queue one payload on a ghost sender and start transmitting it now
    (a stale, never-acknowledged payload of an earlier call is discarded first)"""
    if ghost.in_txn or ghost.state in ("tx", "tx_settle", "ack_wait"):
        raise HarnessError("ghost sender is still busy")
    ghost.tx_fifo.clear()
    ghost.r[0x07] &= ~0x30
    ghost.a[0x10][:len(addr)] = addr
    ghost.a[0x0A][:len(addr)] = addr
    ghost.uid += 1
    ghost.tx_fifo.append(TxEntry(bytes(payload), noack, None, ghost.uid))
    ghost.ce_pin._v = True
    ghost._reeval()


# --------------------------------------------------------------------------- installation
_installed = False


def install():
    """Replace `time` in the library modules by the virtual clock (no change to /repo)."""
    global _installed
    import importlib
    for name in ("circuitpython_nrf24l01.rf24", "circuitpython_nrf24l01.rf24_lite",
                 "circuitpython_nrf24l01.network.mixins", "circuitpython_nrf24l01.rf24_mesh",
                 "adafruit_bus_device.spi_device"):
        m = importlib.import_module(name)
        if hasattr(m, "time"):
            m.time = SIMTIME
    _installed = True


class GhostShot:
    """a ghost transmission scheduled in the event heap (deep-copyable):
    world.at(t, GhostShot(ghost, addr, payload, noack), "fire")"""

    def __init__(self, ghost, addr, payload, noack=False):
        self.ghost = ghost
        self.addr = bytes(addr)
        self.payload = bytes(payload)
        self.noack = noack
        self.name = "shot"

    def fire(self):
        g = self.ghost
        if g.in_txn or g.state in ("tx", "tx_settle", "ack_wait"):
            g.w.at(g.w.now + 500 * US, self, "fire")  # ghost still busy: try again shortly
            return
        ghost_send(g, self.addr, self.payload, self.noack)
