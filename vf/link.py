"""Two-radio link harness shared by C01, C02, C10 and C20 (parameterised by driver class)."""
from . import harness as H
from .sim import World, US, MS, HarnessError

BASE = b"\xa1\xb2\xc3\xd4\xe5"


def default_cfg(**kw):
    c = dict(tx_cls="full", rx_cls="full", front_a="spidev", front_b="spidev", channel=76, rate=1,
             crc=2, aw=5, pipe=1, dyn=True, pl=32, auto_ack=True, ack=False, arc=15, ard=1500,
             cost_a=30 * US, cost_b=31 * US, addr_salt=0)
    c.update(kw)
    return c


def cls_of(name):
    return {"full": H.RF24, "lite": H.LiteRF24}[name]


def link_addr(cfg):
    s = cfg.get("addr_salt", 0) & 0xFF
    base = bytes((x + s) & 0xFF for x in BASE)
    aw = cfg["aw"]
    if cfg["pipe"] < 2:
        return base[:aw], None
    p1 = bytes([0x5A]) + base[1:aw]
    return bytes([0x70 + cfg["pipe"]]) + base[1:aw], p1


def configure(drv, cfg, is_lite, is_rx=False):
    if cfg["aw"] != 5:
        drv.address_length = cfg["aw"]
    if cfg["channel"] != 76:
        drv.channel = cfg["channel"]
    if cfg["rate"] != 1:
        drv.data_rate = cfg["rate"]
    if not is_lite:
        if cfg["crc"] != 2:
            drv.crc = cfg["crc"]
        if not cfg["auto_ack"]:
            drv.auto_ack = False
    if not cfg["dyn"]:
        drv.dynamic_payloads = False
        if cfg.get("pl_vec") and is_rx and not is_lite:
            drv.payload_length = list(cfg["pl_vec"])  # per-pipe static lengths
        else:
            drv.payload_length = cfg["pl"]
    if cfg.get("ack"):
        drv.ack = True
    if cfg["arc"] != 15:
        drv.arc = cfg["arc"]
    if cfg["ard"] != 1500:
        drv.ard = cfg["ard"]


def build_pair(cfg, spilog=True, horizon=20 * 1000 * MS):
    """-> (world, a, ra, b, rb): a transmits to b's pipe cfg['pipe']"""
    w = World(horizon_ns=horizon).activate()
    a, ra = H.mk_driver(w, "A", cls=cls_of(cfg["tx_cls"]), front=cfg["front_a"], cost=cfg["cost_a"], spilog=spilog)
    b, rb = H.mk_driver(w, "B", cls=cls_of(cfg["rx_cls"]), front=cfg["front_b"], cost=cfg["cost_b"], spilog=spilog)
    configure(a, cfg, cfg["tx_cls"] == "lite")
    configure(b, cfg, cfg["rx_cls"] == "lite", is_rx=True)
    addr, p1 = link_addr(cfg)
    if p1 is not None:
        b.open_rx_pipe(1, p1)
    b.open_rx_pipe(cfg["pipe"], addr)
    b.listen = True
    if cfg.get("rx_hist") == "txrole":
        # the receiver answered somebody in between: it opened a TX pipe (auto-ack puts that address on pipe 0 while it
        # transmits) and came back to RX mode - it listens on the addresses it opened for reading, as before
        w.advance(300 * US)
        b.listen = False
        b.open_tx_pipe(bytes([0x6B, 0x7C, 0x8D, 0x9E, 0xAF][:cfg["aw"]]))
        w.advance(300 * US)
        b.listen = True
    a.listen = False
    if cfg.get("tx_hist") == "rx0":
        # the transmitter was a receiver on pipe 0 before: its own reading address must not end up in TX_ADDR
        a.open_rx_pipe(0, bytes([0x0F, 0x1E, 0x2D, 0x3C, 0x4B][:cfg["aw"]]))
    th = cfg.get("tx_hist") or ""
    if th.startswith("ackpl:"):
        # the transmitter was a receiver with ACK payloads loaded that nobody fetched: leaving RX mode discards them
        # (documented: the TX FIFO is flushed when ACK payloads are enabled), they must not travel as ordinary payloads
        a.open_rx_pipe(1, bytes([0x33, 0x44, 0x55, 0x66, 0x77][:cfg["aw"]]))
        a.listen = True
        for i in range(int(th.split(":")[1])):
            a.load_ack(b"stale ack payload %d" % i, 1)
        w.advance(300 * US)
        a.listen = False
    a.open_tx_pipe(addr)
    if cfg.get("tx_hist") == "rx0":
        a.listen = True
        w.advance(300 * US)
        a.listen = False
        if hasattr(a, "__enter__"):  # (not in rf24_lite)
            a.__exit__(None, None, None)
            w.advance(300 * US)
            a.__enter__()
    if cfg.get("tx_hist") == "power":
        # both radios were put to sleep and woken up again (documented `power` attribute): the link works as before
        a.power = False
        b.power = False
        w.advance(1 * MS)
        b.power = True
        a.power = True
    w.advance(300 * US)
    if cfg.get("bystander"):
        # a third (and fourth) object of the drivers' classes lives in the same program (H.bystander); kept alive in the world
        w.bystanders = [H.bystander(w, cls_of(c), "by_" + c) for c in sorted({cfg["tx_cls"], cfg["rx_cls"]})]
        w.advance(300 * US)
    return w, a, ra, b, rb


def poll_done(a, max_polls=4000):
    """write()+poll: wait until the radio reports data sent or data failed"""
    for _ in range(max_polls):
        a.update()
        if a.irq_ds or a.irq_df:
            return bool(a.irq_ds)
    raise HarnessError("poll budget exhausted")


def drain(b, limit=8, idiom="full"):
    """everything the receiving application can get: [(pipe, any(), payload)]; idiom "bare": the application
    does not ask for the length (available(), pipe, read()) - the length reported is then the result's own"""
    got = []
    for _ in range(limit):
        if not b.available():
            break
        pipe = b.pipe
        n = b.any() if idiom == "full" else None
        data = b.read()
        got.append((pipe, n if idiom == "full" or data is None else len(data), data))
    # the results are compared only after the last read(): what an application keeps from an earlier read() must
    # still be that payload after later ones (a result that aliases a re-used buffer is a wrong result)
    return [(pipe, n, None if data is None else bytes(data)) for pipe, n, data in got]


def tx_payload_cmds(radio, since=0):
    """W_TX_PAYLOAD(_NOACK) transactions on the SPI log from index `since`"""
    return [m for (_, m, _) in radio.spilog[since:] if m and m[0] in (0xA0, 0xB0)]
