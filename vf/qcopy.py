"""Fast deep copy for queue/frame object graphs (C06, C12).  Generic over attribute names (uses
__dict__), preserves aliasing through `memo` exactly as copy.deepcopy does (a queue that stored a
*reference* to the caller's frame keeps sharing it after the copy); anything that is not a frame,
header, queue, list, bytearray or atom falls back to copy.deepcopy."""
import copy

from . import harness as H

_ATOMS = (int, bytes, str, bool, float, type(None))
_CLASSES = (H.RF24NetworkFrame, H.RF24NetworkHeader, H.m_structs.FrameQueue, H.m_structs.FrameQueueFrag)


def fastcopy(o, memo):
    if isinstance(o, _ATOMS):
        return o
    i = id(o)
    if i in memo:
        return memo[i]
    t = type(o)
    if t is bytearray:
        n = bytearray(o)
    elif t is list:
        n = []
        memo[i] = n
        n.extend(fastcopy(x, memo) for x in o)
        return n
    elif t in _CLASSES:
        n = t.__new__(t)
        memo[i] = n
        d = n.__dict__
        for k, x in o.__dict__.items():
            d[k] = fastcopy(x, memo)
        return n
    else:
        n = copy.deepcopy(o, memo)
    memo[i] = n
    return n
