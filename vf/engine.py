"""Exploration engines (written for this task; no explicit-state explorer for Python exists in
the image): E-BFS (explicit-state, deepcopy worlds, canonical state hashing), E-DFS (stateless
deviation-bounded choice replay), parallel map, and the Report that every check fills in."""
import collections
import copy
import hashlib
import json
import multiprocessing
import os
import signal
import time

from .sim import HarnessError

NWORKERS = max(1, min(int(os.environ.get("VERIF_WORKERS") or 14), (os.cpu_count() or 2) - 2))
try:
    ALL_CPUS = sorted(os.sched_getaffinity(0))
except (AttributeError, OSError):
    ALL_CPUS = []


class CpuHang(BaseException):
    """raised inside library code that consumed `seconds` of CPU time within one guarded call
    (a loop that never reaches a simulated-time call cannot be cut by the world's horizon)"""


def _cpu_hang(sig, frm):
    raise CpuHang()


class cpu_guard:
    """`with cpu_guard(20): node.update()` - main thread only.  ITIMER_VIRTUAL counts this process's
    own user-mode CPU time, so the bound does not depend on how loaded the machine is."""

    hang_seen = False  # per process: once a call was cut, further calls get 2 s (still ~1000x a normal call)

    def __init__(self, seconds=20.0):
        self.seconds = seconds

    def __enter__(self):
        signal.signal(signal.SIGVTALRM, _cpu_hang)
        signal.setitimer(signal.ITIMER_VIRTUAL, min(self.seconds, 2.0) if cpu_guard.hang_seen else self.seconds)

    def __exit__(self, et, ev, tb):
        signal.setitimer(signal.ITIMER_VIRTUAL, 0)
        if et is CpuHang:
            cpu_guard.hang_seen = True
        return False


def pin(index=None):
    """Pin this process to one CPU.  Threaded worlds pass a baton between OS threads; with all
    threads on one core the hand-off needs no cross-core wake-up (measured 3-4x faster)."""
    if not ALL_CPUS:
        return
    if index is None:
        index = os.getpid()
    try:
        os.sched_setaffinity(0, {ALL_CPUS[index % len(ALL_CPUS)]})
    except OSError:
        pass


def _pool_init():
    ident = multiprocessing.current_process()._identity
    # (offset by the parent's pid: several checks running side by side must not pile their k-th workers onto the same CPU)
    pin(os.getppid() * 5 + ident[0] if ident else None)


def jsonable(o):
    if isinstance(o, (bytes, bytearray)):
        return "hex:" + bytes(o).hex()
    if isinstance(o, (list, tuple)):
        return [jsonable(x) for x in o]
    if isinstance(o, dict):
        return {str(k): jsonable(v) for k, v in o.items()}
    if isinstance(o, (set, frozenset)):
        return sorted(jsonable(x) for x in o)
    if isinstance(o, (int, float, str, bool)) or o is None:
        return o
    return repr(o)


def unjson(o):
    if isinstance(o, str) and o.startswith("hex:"):
        return bytes.fromhex(o[4:])
    if isinstance(o, list):
        return [unjson(x) for x in o]
    if isinstance(o, dict):
        return {k: unjson(v) for k, v in o.items()}
    return o


class Report:
    """Coverage + violations of one run (or of one worker's share of it)."""

    MAX_SAMPLES = 6

    def __init__(self):
        self.evaluations = 0
        self.states = 0
        self.transitions = 0
        self.traces = 0
        self.outcomes = collections.Counter()
        self.nontrivial = set()
        self.samples = []
        self.violations = {}  # sig -> dict(what=, replay=, count=)
        self.caps = []
        self.notes = {}
        self.parts = {}  # sub-check name -> dict of numbers

    def case(self, n=1):
        self.evaluations += n

    def outcome(self, key, n=1):
        self.outcomes[str(key)] += n

    def nt(self, key):
        self.nontrivial.add(key if isinstance(key, (str, int)) else repr(key))

    def sample(self, obj, force=False):
        if force or len(self.samples) < self.MAX_SAMPLES:
            self.samples.append(jsonable(obj))

    def violation(self, sig, what, replay):
        v = self.violations.get(sig)
        if v is None:
            self.violations[sig] = {"what": what, "replay": jsonable(replay), "count": 1}
        else:
            v["count"] += 1

    def cap(self, text):
        if text not in self.caps:
            self.caps.append(text)

    def part(self, name, **kw):
        d = self.parts.setdefault(name, {})
        for k, v in kw.items():
            if isinstance(v, (int, float)) and not isinstance(v, bool):
                d[k] = d.get(k, 0) + v
            else:
                d[k] = v

    def dump(self):
        return {"evaluations": self.evaluations, "states": self.states, "transitions": self.transitions,
                "traces": self.traces, "outcomes": dict(self.outcomes), "nontrivial": list(self.nontrivial),
                "samples": self.samples, "violations": self.violations, "caps": self.caps,
                "notes": self.notes, "parts": self.parts}

    def merge(self, d):
        if isinstance(d, Report):
            d = d.dump()
        self.evaluations += d["evaluations"]
        self.states += d["states"]
        self.transitions += d["transitions"]
        self.traces += d["traces"]
        self.outcomes.update(d["outcomes"])
        self.nontrivial.update(d["nontrivial"])
        for s in d["samples"]:
            if len(self.samples) < self.MAX_SAMPLES:
                self.samples.append(s)
        for sig, v in d["violations"].items():
            if sig in self.violations:
                self.violations[sig]["count"] += v["count"]
            else:
                self.violations[sig] = v
        for c in d["caps"]:
            self.cap(c)
        self.notes.update(d["notes"])
        for name, p in d["parts"].items():
            self.part(name, **p)


# --------------------------------------------------------------------------- parallel map
CURRENT_PID = [None]  # set by vf/run.py before a check's run(); inherited by forked workers


def library_exception(e):
    """(exception type name, library function, 'file:line') if the exception `e` was raised by code of the library under
    test (innermost traceback frame inside <VERIF_REPO>/circuitpython_nrf24l01 or a module it vendors), else None.
    An exception that originates in harness code - also one provoked by a renamed private attribute - stays a harness error."""
    import traceback
    from .sim import Abort
    if isinstance(e, (HarnessError, Abort, KeyboardInterrupt, MemoryError)):
        return None
    tb = traceback.extract_tb(e.__traceback__)
    if not tb:
        return None
    root = os.path.realpath(os.path.join(os.environ.get("VERIF_REPO", "/repo"), "circuitpython_nrf24l01")) + os.sep
    last = tb[-1]
    if not os.path.realpath(last.filename).startswith(root):
        return None
    # the call must have been made by the harness with arguments the documentation allows; calls whose exceptions are
    # part of an oracle are caught where they are made and never get here
    return type(e).__name__, last.name, "%s:%d" % (os.path.basename(last.filename), last.lineno)


class ItemHang(BaseException):
    """one work item consumed more CPU time than any work item of the unchanged tree comes near: a library call that does not
    terminate (and never reaches a simulated-time call, so that no virtual-time horizon can cut it)"""


def _item_hang(sig, frm):
    raise ItemHang()


CURRENT_TIER = ["quick"]  # set by vf/run.py
_TAINTED = [False]  # this worker process has cut a non-terminating call: a node thread may still be spinning in it


def item_cpu_limit():
    return float(os.environ.get("VERIF_ITEM_CPU_S") or (1200 if CURRENT_TIER[0] == "quick" else 4 * 3600))


def guarded(fn, item, rep):
    """(see _guarded) + a CPU-time watchdog per work item on ITIMER_PROF (C15's per-call guard uses ITIMER_VIRTUAL): a check must
    report a library call that never returns, not hang with it."""
    import threading
    if _TAINTED[0]:
        rep.cap("work item skipped: this worker process cut a non-terminating library call before")
        return
    if threading.current_thread() is not threading.main_thread():
        return _guarded(fn, item, rep)
    limit = item_cpu_limit()
    old = signal.signal(signal.SIGPROF, _item_hang)
    signal.setitimer(signal.ITIMER_PROF, limit)
    try:
        _guarded(fn, item, rep)
    except ItemHang:
        _TAINTED[0] = True
        pid = CURRENT_PID[0] or "C??"
        rep.violation("%s/library-hangs:%s" % (pid, fn.__name__),
                      "work item %s of %s used more than %d s of CPU time without finishing (the slowest work item of the unchanged tree needs a small "
                      "fraction of that): a library call does not terminate" % (repr(item)[:200], fn.__name__, limit),
                      {"part": "library-raises", "fn": fn.__name__, "traceback": "CPU-time watchdog"})
        rep.outcome("library-hangs")
    finally:
        signal.setitimer(signal.ITIMER_PROF, 0)
        signal.signal(signal.SIGPROF, old)


def _guarded(fn, item, rep):
    """fn(item, rep); an exception raised *by the library* on a call of the harness's own scaffolding (building nodes,
    configuring a link, driving a scenario with documented-valid arguments) is a verdict about the library, not a harness
    error: the scenario the property speaks about cannot even be set up.  Reported under <PID>/library-raises:..."""
    try:
        fn(item, rep)
    except Exception as e:  # noqa
        le = library_exception(e)
        if le is None:
            raise
        import traceback
        pid = CURRENT_PID[0] or "C??"
        tb = "".join(traceback.format_exception(type(e), e, e.__traceback__))[-1500:]
        rep.violation("%s/library-raises:%s:%s" % (pid, le[0], le[1]),
                      "the library raised %s(%s) in %s (%s) during a call the harness makes with documented-valid arguments [%s, work item %s]" % (
                          le[0], str(e)[:120], le[1], le[2], fn.__name__, repr(item)[:200]),
                      {"part": "library-raises", "fn": fn.__name__, "traceback": tb})
        rep.outcome("library-raises")


def _worker_entry(args):
    fn, item = args
    rep = Report()
    guarded(fn, item, rep)
    return rep.dump()


def pmap(fn, items, rep, workers=None, chunksize=1):
    """run fn(item, Report) for every item on forked workers and merge the partial reports.
    fn must be a module-level function (pickled by reference)."""
    items = list(items)
    workers = NWORKERS if workers is None else workers
    if os.environ.get("VERIF_SERIAL") or workers <= 1 or len(items) <= 1:
        for it in items:
            guarded(fn, it, rep)
        return
    ctx = multiprocessing.get_context("fork")
    stall = float(os.environ.get("VERIF_STALL_S") or (3600 if CURRENT_TIER[0] == "quick" else 5 * 3600))
    with ctx.Pool(min(workers, len(items)), initializer=_pool_init) as pool:
        it = pool.imap_unordered(_worker_entry, [(fn, it) for it in items], chunksize)
        while True:
            try:
                d = it.next(timeout=stall)
            except StopIteration:
                break
            except multiprocessing.TimeoutError:
                # last line of defence against a dead-locked or spinning worker: a harness error, never a verdict
                pool.terminate()
                raise HarnessError("no work item of %s finished within %d s of wall-clock time (stalled worker)" % (fn.__name__, stall))
            rep.merge(d)


# --------------------------------------------------------------------------- E-BFS
def bfs(inits, alphabet, apply, canon, depth, rep, max_states=None, clone=copy.deepcopy):
    """Explicit-state breadth-first search.

    inits: list of (state, label).  alphabet(state) -> iterable of ops.
    apply(state, op, hist) mutates `state` (a private copy) and performs the oracle checks
    (reporting through rep.violation); it may return False to prune the successor.
    canon(state) -> hashable.  Returns number of depth levels completed."""
    seen = set()
    frontier = []
    for st, label in inits:
        k = canon(st)
        if k not in seen:
            seen.add(k)
            frontier.append((st, [label]))
    rep.states += len(seen)
    done = 0
    for d in range(1, depth + 1):
        nxt = []
        for st, hist in frontier:
            for op in alphabet(st):
                st2 = clone(st)
                rep.transitions += 1
                rep.evaluations += 1
                keep = apply(st2, op, hist)
                if keep is False:
                    continue
                k = canon(st2)
                if k not in seen:
                    seen.add(k)
                    rep.states += 1
                    nxt.append((st2, hist + [op]))
                    if max_states and len(seen) >= max_states:
                        rep.cap("state cap %d hit at depth %d" % (max_states, d))
                        return done
        frontier = nxt
        done = d
        if not frontier:
            break
    return done


# --------------------------------------------------------------------------- E-DFS
class Chooser:
    """Choice points of one execution.  choice 0 is the default environment answer."""

    def __init__(self, prefix=()):
        self.prefix = list(prefix)  # list of (choice, n, label) or bare ints
        self.trace = []

    def choose(self, n, label=""):
        i = len(self.trace)
        c = 0
        if i < len(self.prefix):
            p = self.prefix[i]
            if isinstance(p, (list, tuple)):
                c, pn, pl = p
                if pn != n or pl != label:
                    raise HarnessError("replay diverged at choice %d: expected %r/%d got %r/%d"
                                       % (i, pl, pn, label, n))
            else:
                c = p
            if c >= n:
                raise HarnessError("replay choice out of range at %d" % i)
        self.trace.append((c, n, label))
        return c

    def choices(self):
        return [t[0] for t in self.trace]

    def deviations(self):
        return sum(1 for t in self.trace if t[0])


def explore(run, bound, max_execs=None, rep=None):
    """Stateless deviation-bounded exploration.  run(chooser) executes one complete execution
    on a fresh world.  Yields (chooser, result) for every execution with <= bound deviations."""
    stack = [[]]
    n = 0
    while stack:
        prefix = stack.pop()
        ch = Chooser(prefix)
        result = run(ch)
        n += 1
        yield ch, result
        if max_execs and n >= max_execs:
            if rep is not None and stack:
                rep.cap("execution cap %d hit with %d prefixes unexplored" % (max_execs, len(stack)))
            return
        tr = ch.trace
        used = sum(1 for t in tr[:len(prefix)] if t[0])
        for i in range(len(prefix), len(tr)):
            if used + 1 <= bound:
                for alt in range(tr[i][1] - 1, 0, -1):
                    stack.append(list(tr[:i]) + [(alt, tr[i][1], tr[i][2])])
            # tr[i][0] is 0 here (beyond the prefix the default is taken)


def digest(obj):
    return hashlib.sha1(json.dumps(jsonable(obj), sort_keys=True).encode()).hexdigest()[:12]


class Timer:
    def __init__(self):
        self.t0 = time.time()

    def elapsed(self):
        return time.time() - self.t0
