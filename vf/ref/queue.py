"""Reference model for C12: a boring bounded, duplicate-free FIFO of private copies.

Written from the property text and docs/network_docs/shared_api.rst / structs (FrameQueue:
`max_queue_size`, `enqueue() -> bool`, `peek()`, `dequeue()`, `len()`), never from the library's
code.  A stored frame is an immutable record, so nothing the caller does to the object it passed
in can reach it."""
import collections

Rec = collections.namedtuple("Rec", "from_node to_node frame_id message_type reserved message")


def rec_of(frame):
    """the value of a frame object as the caller sees it right now (the *input* of a call)"""
    h = frame.header
    return Rec(h.from_node, h.to_node, h.frame_id, h.message_type, h.reserved, bytes(frame.message))


def wire(rec):
    """the frame a caller's object stands for: a header's message type may be a one-character string (documented for the
    constructor, supported by pack()), which means the character's code"""
    t = rec.message_type
    if isinstance(t, str):
        return rec._replace(message_type=ord(t[0]))
    return rec


def key(rec):
    """frames with the same origin, frame id and type are the same frame"""
    return (rec.from_node, rec.frame_id, rec.message_type)


class RefQueue:
    def __init__(self, max_queue_size=6):
        self.max_queue_size = max_queue_size
        self.items = []

    def why_reject(self, rec):
        """None if `rec` must be stored, else the reason it must be refused"""
        if len(self.items) >= self.max_queue_size:
            return "full" if len(self.items) == self.max_queue_size else "over-full"
        for it in self.items:
            if key(it) == key(rec):
                return "duplicate" if it == rec else "same-key"
        return None

    def enqueue(self, rec):
        if self.why_reject(rec) is not None:
            return False
        self.items.append(rec)
        return True

    def peek(self):
        return self.items[0] if self.items else None

    def dequeue(self):
        return self.items.pop(0) if self.items else None

    def __len__(self):
        return len(self.items)

    def state(self):
        return (self.max_queue_size, tuple(self.items))
