"""Reference constraints on the mesh master's address leases (property C16), written from the
mesh documentation (docs/network_docs/topology.rst "RF24Mesh connecting process",
constants.rst MESH_MAX_CHILDREN = 4) and the RF24Mesh protocol conventions - not from the
library's allocator.  The model does not prescribe *which* free child address is chosen, only
what every answer must satisfy."""
from . import route as R

DEFAULT_ADDR = 0o4444  # address of a mesh node that has no lease yet
ADDR_REQUEST = 195
ADDR_RESPONSE = 128
ADDR_RELEASE = 197
MAX_CHILDREN = 4  # documented number of mesh children per node


def table_problems(items):
    """items: [(node id, address), ...] -> list of (clause, text)"""
    bad = []
    seen = {}
    ids = set()
    for nid, addr in items:
        if nid in ids:
            bad.append(("two-leases-one-id", "id %r appears twice" % (nid,)))
        ids.add(nid)
        if addr in seen:
            bad.append(("address-leased-twice", "address 0o%o is leased to ids %r and %r" % (addr, seen[addr], nid)))
        seen[addr] = nid
        if not isinstance(nid, int) or not 0 <= nid <= 255:
            bad.append(("bad-id", "id %r in the table" % (nid,)))
        if not R.is_valid(addr) or addr in (0, DEFAULT_ADDR):
            bad.append(("bad-address-in-table", "id %r holds address %s" % (nid, oct(addr) if isinstance(addr, int) else repr(addr))))
    return bad


def arrival_parent(via):
    """the node whose child the requester becomes: the master for direct requests"""
    return 0 if via == DEFAULT_ADDR else via


def child_slots(via, upto=5):
    p = arrival_parent(via)
    l = R.level(p)
    return [p | (d << (3 * l)) for d in range(1, upto + 1)]


def free_slots(before, nid, via, upto=MAX_CHILDREN):
    """child addresses of the arrival node (digits 1..upto) not leased to another id"""
    taken = {a for k, a in before if k != nid}
    return [a for a in child_slots(via, upto) if a not in taken and a != DEFAULT_ADDR]


def response_problems(before, nid, via, resp):
    """resp = dict(from_node, to_node, reserved, address, payload_len, phys) of one MESH_ADDR_RESPONSE
    seen on the air after a request of id `nid` that arrived through `via`.
    -> list of (clause, text)"""
    bad = []
    addr = resp["address"]
    p = arrival_parent(via)
    if addr is None:
        return [("response-short", "response carries %d payload bytes, needs 2" % resp["payload_len"])]
    if addr == 0:
        bad.append(("address-0", "address 0 (the master) handed out"))
    elif addr == DEFAULT_ADDR:
        bad.append(("address-04444", "the unassigned-node address 0o4444 handed out"))
    elif not R.is_valid(addr):
        bad.append(("address-invalid", "0o%o is not a valid logical address" % addr))
    elif R.parent(addr) != p:
        bad.append(("not-child-of-arrival-node", "0o%o is not a direct child of 0o%o" % (addr, p)))
    other = [k for k, a in before if a == addr and k != nid]
    if other:
        bad.append(("leased-to-another-id", "0o%o is currently leased to id %d" % (addr, other[0])))
    if resp["reserved"] != nid:
        bad.append(("reserved-not-id", "response carries id %d, requester is %d" % (resp["reserved"], nid)))
    if resp["to_node"] != via:
        bad.append(("reply-not-toward-requester", "response addressed to 0o%o, the request came from 0o%o" % (resp["to_node"], via)))
    return bad


def response_phys(via, prefix=R.DEFAULT_PREFIX, suffix=R.DEFAULT_SUFFIX):
    """where the master must physically transmit the reply: to the level address unassigned nodes
    (0o4444) listen on for direct requests, else to pipe 5 of its child on the path to the relay"""
    if via == DEFAULT_ADDR:
        return R.pipe_address(DEFAULT_ADDR, 0, prefix, suffix, True)
    hop = R.next_hop(0, via)
    return R.pipe_address(hop, 5, prefix, suffix, True)


def request_phys(via, prefix=R.DEFAULT_PREFIX, suffix=R.DEFAULT_SUFFIX):
    """pipe address of the master on which a request arrives: its pipe 0 for direct requests
    (no auto-ack), else the pipe numbered like its child on the route from the relay"""
    if via == DEFAULT_ADDR:
        return R.pipe_address(0, 0, prefix, suffix, True), True
    hop = R.next_hop(0, via)
    return R.pipe_address(0, R.own_digit(hop), prefix, suffix, True), False


def structured_table(k, variant, seed=0):
    """a lease table with k entries (k <= 255): distinct ids 1..255, distinct valid addresses of
    all levels (so one- and two-byte address values, id 255 and 0o5555 occur)"""
    addrs = [a for a in R.all_addresses() if a not in (0, DEFAULT_ADDR)]
    n = len(addrs)
    out = []
    for i in range(k):
        if variant == 0:
            nid, a = 1 + i, addrs[i]
        elif variant == 1:
            nid, a = 255 - i, addrs[n - 1 - i]
        else:
            nid = 1 + (i * 101 + seed * 7) % 255
            a = addrs[(i * 389 + seed * 13 + 5) % n]
        out.append((nid, a))
    assert len({x for x, _ in out}) == k and len({y for _, y in out}) == k
    return out


def parse_file(data, fmt):
    """independent reader of a saved lease table -> [(id, address)] or None if the bytes are not a table.
    json: one object, keys = node ids as decimal strings, values = addresses; bin: TMRh20's dhcplist.txt records
    (uint8 id, one pad byte, uint16 little-endian address)"""
    if fmt == "json":
        import json
        try:
            obj = json.loads(bytes(data).decode("utf-8"))
            if not isinstance(obj, dict):
                return None
            return [(int(k), v) for k, v in obj.items()]
        except (ValueError, TypeError):
            return None
    if len(data) % 4:
        return None
    return [(data[i], data[i + 2] | (data[i + 3] << 8)) for i in range(0, len(data), 4)]
