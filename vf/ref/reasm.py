"""Reference fragment encoder, strict reference reassembler and delivery judge for C06.

Written from the RF24Network wire convention (TMRh20 RF24Network `_write`/`appendFragmentToFrame`
and docs/network_docs): an 8-byte little-endian header <from:u16, to:u16, id:u16, type:u8,
reserved:u8> followed by at most 24 message bytes.  A message longer than 24 bytes travels as
ceil(len/24) frames that share ONE frame id: type FIRST=148, then MORE=149 ..., finally LAST=150;
`reserved` of FIRST/MORE counts down from the total number of fragments (FIRST = total), the LAST
fragment's `reserved` carries the original message type.  Nothing here calls the library."""
import collections
import struct

FIRST, MORE, LAST = 148, 149, 150
FRAG_TYPES = (FIRST, MORE, LAST)
MAX_BODY = 24

Wire = collections.namedtuple("Wire", "from_node to_node frame_id message_type reserved body")
Msg = collections.namedtuple("Msg", "from_node to_node frame_id message_type message")


def pack(w):
    """bytes on the air for one frame"""
    return struct.pack("<HHHBB", w.from_node, w.to_node, w.frame_id, w.message_type, w.reserved) + bytes(w.body)


def encode(msg):
    """Msg -> list of Wire frames exactly as a conforming sender transmits them"""
    m = bytes(msg.message)
    if len(m) <= MAX_BODY:
        return [Wire(msg.from_node, msg.to_node, msg.frame_id, msg.message_type, 0, m)]
    total = (len(m) + MAX_BODY - 1) // MAX_BODY
    out = []
    for k in range(total):
        body = m[k * MAX_BODY:(k + 1) * MAX_BODY]
        if k == total - 1:
            out.append(Wire(msg.from_node, msg.to_node, msg.frame_id, LAST, msg.message_type, body))
        else:
            out.append(Wire(msg.from_node, msg.to_node, msg.frame_id, FIRST if k == 0 else MORE, total - k, body))
    return out


class StrictReassembler:
    """What a careful receiver may hand out: one cache per (origin, frame id); FIRST starts it, a
    MORE/LAST is taken only when it continues the countdown without a gap, everything else discards
    the cache; a completed (origin, id) is remembered and never completed twice."""

    def __init__(self):
        self.cache = {}  # (origin, id) -> [next expected counter, bytes so far]
        self.done = set()

    def feed(self, w):
        """-> Msg or None"""
        if w.message_type not in FRAG_TYPES:
            return Msg(w.from_node, w.to_node, w.frame_id, w.message_type, bytes(w.body))
        k = (w.from_node, w.frame_id)
        if w.message_type == FIRST:
            self.cache[k] = [w.reserved - 1, bytes(w.body)]
            return None
        ent = self.cache.get(k)
        if ent is None:
            return None
        if w.message_type == MORE:
            if ent[0] != w.reserved or w.reserved < 2:
                del self.cache[k]
                return None
            ent[0] -= 1
            ent[1] += bytes(w.body)
            return None
        del self.cache[k]
        if ent[0] != 1 or k in self.done:  # LAST is the fragment whose counter would be 1
            return None
        self.done.add(k)
        return Msg(w.from_node, w.to_node, w.frame_id, w.reserved, ent[1] + bytes(w.body))


# ------------------------------------------------------------------------------ judge
class Judge:
    """Decides whether a frame handed to the application is one complete sent message, and names
    the *shape* of what it is otherwise.  `streams`: list of dicts(msg=Msg, frames=[Wire], sender=,
    label=) - every fragment body must be unique and no body a prefix of another."""

    def __init__(self, streams, blank_key=None):
        self.streams = streams
        self.blank_key = blank_key  # (to_node, frame_id) a never-used reassembly cache might hold
        self.bodies = []
        for si, s in enumerate(streams):
            for fi, f in enumerate(s["frames"]):
                if f.body:
                    self.bodies.append((bytes(f.body), si, fi))
        for a, _, _ in self.bodies:
            for b, _, _ in self.bodies:
                if a is not b and b.startswith(a):
                    raise ValueError("fragment bodies must be prefix-free")

    def parse(self, message):
        """message bytes -> [(stream, fragment index) | None ...]"""
        out, p, message = [], 0, bytes(message)
        while p < len(message):
            for body, si, fi in self.bodies:
                if message.startswith(body, p):
                    out.append((si, fi))
                    p += len(body)
                    break
            else:
                out.append(None)
                break
        return out

    def match(self, rec):
        """index of the sent message `rec` (from, to, id, type, message) equals byte for byte"""
        for si, s in enumerate(self.streams):
            m = s["msg"]
            if (rec[0], rec[1], rec[2], rec[3], bytes(rec[4])) == (m.from_node, m.to_node, m.frame_id, m.message_type, bytes(m.message)):
                return si
        return None

    def shape(self, rec):
        """name of a delivered frame that is NOT a complete sent message"""
        parts = self.parse(rec[4])
        if not parts:
            return "empty-message"
        if None in parts:
            return "unknown-bytes"
        sids = []
        for si, _ in parts:
            if si not in sids:
                sids.append(si)
        if len(sids) > 1:
            a, b = self.streams[sids[0]], self.streams[sids[1]]
            same_sender = a["msg"].from_node == b["msg"].from_node
            same_id = a["msg"].frame_id == b["msg"].frame_id
            if not same_sender:
                return "cross-sender-same-id" if same_id else "cross-sender-other-id"
            return "other-id" if not same_id else "same-sender-same-id"
        s = self.streams[sids[0]]
        n = len(s["frames"])
        idx = [fi for _, fi in parts]
        m = s["msg"]
        if idx == list(range(n)):
            bad = [name for name, got, want in (("origin", rec[0], m.from_node), ("to", rec[1], m.to_node),
                                                  ("id", rec[2], m.frame_id), ("type", rec[3], m.message_type)) if got != want]
            return "header-mismatch:" + "+".join(bad)
        if n == 1:
            return "unfragmented-altered"
        if idx[:n] == list(range(n)):
            return "dup-last-after-dequeue" if all(i == n - 1 for i in idx[n:]) else "dup-more-after-completion"
        if idx[0] != 0:
            if self.blank_key is not None and (m.to_node, m.frame_id) == self.blank_key:
                return "stray-blank-cache"
            return "no-first"
        for j in range(len(idx) - 1):
            if idx[j + 1] != idx[j] + 1:
                return "last-after-gap" if idx[j + 1] == n - 1 and idx[j + 1] > idx[j] else "more-out-of-sequence"
        return "no-last"
