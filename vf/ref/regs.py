"""ref.regs - what the nRF24L01(+) configuration registers must hold after a configuration call.

Written from the nRF24L01+ product specification v1.0 (register map, section 9) and from the
library's *documentation* (/repo/docs/core_api/*.rst: accepted input forms, clamps, documented
exceptions, documented side effects).  It never imports or calls the library.

A call is (kind, name, args):   ("set", attr, (value,)) | ("get", attr, ()) | ("call", method, args)

RegRef.outcomes(call) -> list of acceptable Outcome(exc, ref') - the first one is the documented
outcome; further ones exist only where the documentation is silent/ambiguous or where the code
deviates from the documentation in a way that is itself safe and self-consistent (DESIGN.md,
triage policy).  RegRef.value(call) -> expected return value of a getter ("value in effect").
RegRef.owned(call) -> {register: bit mask} of the fields that belong to the attribute (everything
else is a *foreign* field for that call).

Variants: "full" (rf24.RF24 and subclasses), "lite" (rf24_lite.RF24 with its documented
reductions: global dynamic payloads / payload length, auto-ack and CRC-2 always on).
"""
import copy

# ---- register addresses (nRF24L01+ PS v1.0, table 28)
CONFIG, EN_AA, EN_RXADDR, SETUP_AW, SETUP_RETR, RF_CH, RF_SETUP = 0, 1, 2, 3, 4, 5, 6
RX_ADDR_P0, RX_ADDR_P1, RX_ADDR_P2 = 0x0A, 0x0B, 0x0C
TX_ADDR = 0x10
RX_PW_P0 = 0x11
DYNPD, FEATURE = 0x1C, 0x1D
ADDR5 = (RX_ADDR_P0, RX_ADDR_P1, TX_ADDR)  # 5-byte, LSByte first, partial writes keep the rest

# ---- bit fields
MASK_RX_DR, MASK_TX_DS, MASK_MAX_RT, EN_CRC, CRCO, PWR_UP, PRIM_RX = 0x40, 0x20, 0x10, 0x08, 0x04, 0x02, 0x01
CONT_WAVE, RF_DR_LOW, PLL_LOCK, RF_DR_HIGH, RF_PWR, LNA_HCURR = 0x80, 0x20, 0x10, 0x08, 0x06, 0x01
EN_DPL, EN_ACK_PAY, EN_DYN_ACK = 0x04, 0x02, 0x01

NAMES = {0: "CONFIG", 1: "EN_AA", 2: "EN_RXADDR", 3: "SETUP_AW", 4: "SETUP_RETR", 5: "RF_CH", 6: "RF_SETUP",
         0x0A: "RX_ADDR_P0", 0x0B: "RX_ADDR_P1", 0x0C: "RX_ADDR_P2", 0x0D: "RX_ADDR_P3", 0x0E: "RX_ADDR_P4",
         0x0F: "RX_ADDR_P5", 0x10: "TX_ADDR", 0x11: "RX_PW_P0", 0x12: "RX_PW_P1", 0x13: "RX_PW_P2",
         0x14: "RX_PW_P3", 0x15: "RX_PW_P4", 0x16: "RX_PW_P5", 0x1C: "DYNPD", 0x1D: "FEATURE"}
# coarse register groups (used in signatures)
GROUPS = {0: "CONFIG", 1: "EN_AA", 2: "EN_RXADDR", 3: "SETUP_AW", 4: "SETUP_RETR", 5: "RF_CH", 6: "RF_SETUP",
          0x0A: "RX_ADDR", 0x0B: "RX_ADDR", 0x0C: "RX_ADDR", 0x0D: "RX_ADDR", 0x0E: "RX_ADDR", 0x0F: "RX_ADDR",
          0x10: "TX_ADDR", 0x11: "RX_PW", 0x12: "RX_PW", 0x13: "RX_PW", 0x14: "RX_PW", 0x15: "RX_PW",
          0x16: "RX_PW", 0x1C: "DYNPD", 0x1D: "FEATURE"}

PA_CODE = {-18: 0, -12: 1, -6: 2, 0: 3}  # RF_PWR field, table 28 / RF_SETUP
PA_DBM = {v: k for k, v in PA_CODE.items()}


def is_int(v):
    return isinstance(v, int) and not isinstance(v, bool)


class Outcome:
    __slots__ = ("exc", "ref")

    def __init__(self, exc, ref):
        self.exc = exc  # None | exception class name | tuple of acceptable class names
        self.ref = ref

    def exc_ok(self, observed):
        if self.exc is None or observed is None:
            return self.exc is None and observed is None
        return observed == self.exc or (isinstance(self.exc, tuple) and observed in self.exc)


class RegRef:
    """Expected register file + the little extra state the documentation talks about (the
    address the user last opened pipe 0 with)."""

    def __init__(self, plus=True, variant="full"):
        self.plus = plus
        self.variant = variant
        # documented defaults of the driver object (docs: channel 76, 1 Mbps, 0 dBm with LNA, CRC 2 bytes,
        # 5-byte addresses, ard 1500 / arc 15, auto-ack + dynamic payloads on all pipes, 32-byte static
        # lengths, ACK payloads off, ask_no_ack allowed, all IRQ sources enabled, RX pipes closed) on a
        # radio whose address registers still hold their reset values.  PWR_UP is set (inside `with`).
        self.r = {CONFIG: EN_CRC | CRCO | PWR_UP, EN_AA: 0x3F, EN_RXADDR: 0, SETUP_AW: 3,
                  SETUP_RETR: (5 << 4) | 15, RF_CH: 76, RF_SETUP: (3 << 1) | LNA_HCURR,
                  0x0C: 0xC3, 0x0D: 0xC4, 0x0E: 0xC5, 0x0F: 0xC6,
                  0x11: 32, 0x12: 32, 0x13: 32, 0x14: 32, 0x15: 32, 0x16: 32,
                  DYNPD: 0x3F, FEATURE: EN_DPL | EN_DYN_ACK}
        self.a = {RX_ADDR_P0: b"\xe7" * 5, RX_ADDR_P1: b"\xc2" * 5, TX_ADDR: b"\xe7" * 5}
        self.p0_user = None  # address of the user's last open_rx_pipe(0, ...) not followed by close_rx_pipe(0)
        self.clobbered = False  # non-plus carrier-wave test ran: registers are documented to be off until `with`
        self.unclob = frozenset()  # ... except those the application has explicitly programmed again since (whole-register setters)

    # ------------------------------------------------------------------ views
    def clone(self):
        o = copy.copy(self)
        o.r = dict(self.r)
        o.a = dict(self.a)
        return o

    def regfile(self):
        """same layout as SimRadio.regfile()"""
        d = dict(self.r)
        d.update(self.a)
        return d

    def key(self):
        return (tuple(sorted(self.r.items())), tuple(sorted(self.a.items())), self.p0_user, self.clobbered, tuple(sorted(self.unclob)))

    def sync_from(self, regfile):
        """adopt a register file observed on the radio (used only where the documentation declares the
        registers undefined: after the non-plus carrier-wave test)"""
        for k, v in regfile.items():
            if k in ADDR5:
                self.a[k] = bytes(v)
            else:
                self.r[k] = v

    # ------------------------------------------------------------------ primitive updates
    def _b(self, reg, mask, val):
        self.r[reg] = (self.r[reg] & ~mask & 0xFF) | (val & mask)

    def _addr(self, reg, prefix):
        prefix = bytes(prefix)[:5]
        self.a[reg] = prefix + self.a[reg][len(prefix):]

    # ------------------------------------------------------------------ derived ("in effect") values
    def aw(self):
        return self.r[SETUP_AW] + 2  # '00' is the documented 2-byte mode of this library

    def crc_len(self):
        c = self.r[CONFIG]
        if self.r[EN_AA] or c & EN_CRC:  # EN_CRC is forced high if any EN_AA bit is set
            return 2 if c & CRCO else 1
        return 0

    def dyn_in_effect(self):
        return self.r[DYNPD] if self.r[FEATURE] & EN_DPL else 0

    def ack_in_effect(self):
        f = self.r[FEATURE]
        if self.variant == "lite":
            return bool(f & EN_ACK_PAY and f & EN_DPL and self.r[DYNPD])
        # ACK payloads need EN_ACK_PAY + EN_DPL + DPL_P0 + ENAA_P0 (PS section 7.4.1 / FEATURE register notes)
        return bool(f & EN_ACK_PAY and f & EN_DPL and self.r[DYNPD] & 1 and self.r[EN_AA] & 1)

    def pipe_address(self, i):
        if i < 0:
            return self.a[TX_ADDR]
        if i < 2:
            return self.a[RX_ADDR_P0 + i]
        return bytes([self.r[RX_ADDR_P0 + i]]) + self.a[RX_ADDR_P1][1:]

    # ------------------------------------------------------------------ role changes (docs: basic_api `listen`,
    # configure_api `auto_ack` notes; property C08's statement for the RX side)
    def _enter_tx(self):
        self._b(CONFIG, PWR_UP | PRIM_RX, PWR_UP)
        if self.r[EN_AA] & 1 or self.variant == "lite":
            self._b(EN_RXADDR, 1, 1)  # "ensure data pipe 0 is open to receive automatic acknowledgments"

    def _enter_rx(self):
        self._b(CONFIG, PWR_UP | PRIM_RX, PWR_UP | PRIM_RX)
        if self.p0_user is not None:
            self._addr(RX_ADDR_P0, self.p0_user)  # "re-write the RX address for data pipe 0 ... if needed"
        else:
            self._b(EN_RXADDR, 1, 0)  # never opened / closed by the user: pipe 0 does not listen

    # ------------------------------------------------------------------ per-pipe bit helpers
    @staticmethod
    def _pipe_bits(cur, v):
        """documented forms of auto_ack / dynamic_payloads: bool | int | list/tuple -> new 6-bit value
        or None when the input form is not a documented one"""
        if isinstance(v, bool):
            return 0x3F if v else 0
        if isinstance(v, int):
            return v & 0x3F  # bits above position 5 are ignored
        if isinstance(v, (list, tuple)):
            for i, x in enumerate(v):
                if i > 5:
                    break  # indices greater than 5 are ignored
                if is_int(x) and x < 0:
                    continue  # negative: pipe remains unaffected
                cur = (cur & ~(1 << i)) | (int(bool(x)) << i)
            return cur
        return None

    def _ack_on(self):
        if self.variant == "lite":
            self._b(DYNPD, 0x3F, 0x3F)
        else:
            self._b(EN_AA, 1, 1)  # "automatically enabled (on data pipe 0) as needed"
            self._b(DYNPD, 1, 1)
        self._b(FEATURE, EN_DPL | EN_ACK_PAY, EN_DPL | EN_ACK_PAY)

    # ------------------------------------------------------------------ the encoder
    def outcomes(self, call):
        """-> [Outcome, ...]; element 0 is the documented outcome"""
        kind, name, args = call
        res = []

        def alt(exc, fn=None):
            o = self.clone()
            if fn is not None:
                fn(o)
            res.append(Outcome(exc, o))

        lite = self.variant == "lite"
        pipe_err = ("ValueError", "IndexError") if lite else "IndexError"
        if kind == "get":
            alt(None)
            return res
        if kind == "set":
            v = args[0]
            if name == "channel":
                if is_int(v) and 0 <= v <= 125:
                    alt(None, lambda o: o._b(RF_CH, 0x7F, v))
                else:
                    alt("ValueError")
            elif name == "data_rate":
                if v in (1, 2, 250) and is_int(v):
                    code = {1: 0, 2: RF_DR_HIGH, 250: RF_DR_LOW}[v]
                    alt(None, lambda o: o._b(RF_SETUP, RF_DR_LOW | RF_DR_HIGH, code))
                else:
                    alt("ValueError")
            elif name == "pa_level":
                lna, lvl, form_ok = None, v, True
                if isinstance(v, (list, tuple)):
                    if len(v) >= 2:
                        lvl, lna = v[0], bool(v[1])  # all other indices are discarded
                    else:
                        form_ok = False
                if form_ok and is_int(lvl) and lvl in PA_CODE:
                    code = PA_CODE[lvl] << 1
                    if lna is None:  # plain int: LNA "default is always enabled"; (docs do not say whether a
                        alt(None, lambda o: o._b(RF_SETUP, RF_PWR | LNA_HCURR, code | LNA_HCURR))  # plain int resets it)
                        alt(None, lambda o: o._b(RF_SETUP, RF_PWR, code))
                    else:
                        alt(None, lambda o: o._b(RF_SETUP, RF_PWR | LNA_HCURR, code | lna))
                else:
                    # docs: "Any invalid input will invoke the default of 0 dBm with LNA enabled"; the code raises
                    # ValueError and changes nothing - safe and self-consistent: both accepted.
                    alt(None, lambda o: o._b(RF_SETUP, RF_PWR | LNA_HCURR, RF_PWR | LNA_HCURR))
                    alt("ValueError")
            elif name == "crc":
                n = max(0, min(2, int(v)))  # "Any invalid input will be clamped to range [0, 2]"
                if n:
                    alt(None, lambda o: o._b(CONFIG, EN_CRC | CRCO, EN_CRC | (CRCO if n == 2 else 0)))
                else:
                    alt(None, lambda o: o._b(CONFIG, EN_CRC | CRCO, 0))
                    alt(None, lambda o: o._b(CONFIG, EN_CRC, 0))  # CRCO is "don't care" when CRC is disabled
            elif name == "address_length":
                # 3..5 -> AW '01'..'11'; "Any invalid input value results in a address length of 2 bytes"
                code = (v - 2) if is_int(v) and 3 <= v <= 5 else 0
                alt(None, lambda o: o._b(SETUP_AW, 0x03, code))
            elif name == "ard":
                d = max(250, min(int(v), 4000))  # clamped to [250, 4000], highest multiple of 250 <= input
                alt(None, lambda o: o._b(SETUP_RETR, 0xF0, ((d - 250) // 250) << 4))
            elif name == "arc":
                c = max(0, min(int(v), 15))
                alt(None, lambda o: o._b(SETUP_RETR, 0x0F, c))
            elif name == "auto_ack" and not lite:
                nv = self._pipe_bits(self.r[EN_AA], v)
                if nv is None:
                    alt(("ValueError", "TypeError"))
                else:
                    alt(None, lambda o: o._b(EN_AA, 0x3F, nv))
            elif name == "dynamic_payloads":
                if lite:  # global switch, bool
                    nv = 0x3F if v else 0
                else:
                    nv = self._pipe_bits(self.r[DYNPD], v)
                if nv is None:
                    alt(("ValueError", "TypeError"))
                else:
                    def f(o):
                        o._b(DYNPD, 0x3F, nv)
                        o._b(FEATURE, EN_DPL, EN_DPL if nv else 0)  # DPL_Px requires EN_DPL (DYNPD register notes)
                    alt(None, f)
            elif name == "payload_length":
                if is_int(v):
                    n = max(1, min(32, v))
                    alt(None, lambda o: [o._b(RX_PW_P0 + i, 0xFF, n) for i in range(6)])
                elif isinstance(v, (list, tuple)) and not lite:
                    def f(o):
                        for i, x in enumerate(v):
                            if i < 6 and x > 0:  # <= 0: "the existing setting ... will persist"
                                o._b(RX_PW_P0 + i, 0xFF, min(32, x))
                    alt(None, f)
                else:
                    alt(("ValueError", "TypeError"))
            elif name == "ack":
                if v:
                    alt(None, lambda o: o._ack_on())
                else:
                    alt(None, lambda o: o._b(FEATURE, EN_ACK_PAY, 0))  # does not disable auto_ack / dynamic_payloads
            elif name == "allow_ask_no_ack" and not lite:
                alt(None, lambda o: o._b(FEATURE, EN_DYN_ACK, EN_DYN_ACK if v else 0))
            elif name == "power":
                alt(None, lambda o: o._b(CONFIG, PWR_UP, PWR_UP if v else 0))
            elif name == "listen":
                alt(None, (lambda o: o._enter_rx()) if v else (lambda o: o._enter_tx()))
            else:
                raise KeyError("ref.regs: unknown attribute %r" % (name,))
            return res
        # ---- methods
        if name == "set_auto_retries":
            d = max(250, min(int(args[0]), 4000))
            c = max(0, min(int(args[1]), 15))
            alt(None, lambda o: o._b(SETUP_RETR, 0xFF, (((d - 250) // 250) << 4) | c))
        elif name in ("set_auto_ack", "set_dynamic_payloads"):
            en = bool(args[0])
            pipe = args[1] if len(args) > 1 else None  # "If this parameter is not specified ... all data pipes"
            reg = EN_AA if name == "set_auto_ack" else DYNPD
            if pipe is None:
                nv = 0x3F if en else 0
            elif is_int(pipe) and 0 <= pipe <= 5:
                nv = (self.r[reg] & ~(1 << pipe)) | (en << pipe)
            else:
                nv = None
            if nv is None:
                alt("IndexError")
            elif reg == EN_AA:
                alt(None, lambda o: o._b(EN_AA, 0x3F, nv))
            else:
                def f(o):
                    o._b(DYNPD, 0x3F, nv)
                    o._b(FEATURE, EN_DPL, EN_DPL if nv else 0)
                alt(None, f)
        elif name == "set_payload_length":
            n = max(1, min(32, args[0]))  # "If this number is not in range [1, 32], then it will be clamped"
            pipe = args[1] if len(args) > 1 else None
            if pipe is None:
                alt(None, lambda o: [o._b(RX_PW_P0 + i, 0xFF, n) for i in range(6)])
            elif is_int(pipe) and 0 <= pipe <= 5:
                alt(None, lambda o: o._b(RX_PW_P0 + pipe, 0xFF, n))
            else:
                alt("IndexError")
        elif name in ("get_auto_ack", "get_dynamic_payloads", "get_payload_length"):
            pipe = args[0] if args else 0  # "If this parameter is not specified ... data pipe 0"
            alt(None if is_int(pipe) and 0 <= pipe <= 5 else "IndexError")
        elif name == "get_auto_retries":
            alt(None)
        elif name == "address":
            idx = args[0] if args else -1
            alt(None if idx <= 5 else "IndexError")
        elif name == "interrupt_config":
            recv = args[0] if len(args) > 0 else True  # True = the event drives the IRQ pin = mask bit 0
            sent = args[1] if len(args) > 1 else True
            fail = args[2] if len(args) > 2 else True
            code =(0 if recv else MASK_RX_DR) | (0 if sent else MASK_TX_DS) | (0 if fail else MASK_MAX_RT)
            alt(None, lambda o: o._b(CONFIG, 0x70, code))
        elif name == "open_rx_pipe":
            pipe, addr = args
            if not (is_int(pipe) and 0 <= pipe <= 5):
                alt(pipe_err)
            elif len(addr) == 0:
                # not mentioned in the docs; the code rejects it.  An empty address cannot change an address.
                alt("ValueError")
                alt(None, lambda o: o._open_rx(pipe, addr))
            elif len(addr) > 5:
                # oversize: not a documented input; rejecting it or using the first 5 bytes are both safe
                alt(("ValueError", "IndexError"))
                alt(None, lambda o: o._open_rx(pipe, addr[:5]))
            else:
                alt(None, lambda o: o._open_rx(pipe, addr))
        elif name == "close_rx_pipe":
            pipe = args[0]
            if not (is_int(pipe) and 0 <= pipe <= 5):
                alt(pipe_err)
            else:
                def f(o):
                    o._b(EN_RXADDR, 1 << pipe, 0)
                    if pipe == 0:
                        o.p0_user = None
                alt(None, f)
        elif name == "open_tx_pipe":
            addr = args[0]

            def f(o, open0=False):
                o._addr(TX_ADDR, addr)
                if o.r[EN_AA] & 1 or lite:  # "RX pipe 0 is appropriated with the TX address ... when auto_ack is
                    o._addr(RX_ADDR_P0, addr)  # enabled for data pipe 0"
                    if open0:
                        o._b(EN_RXADDR, 1, 1)
            if len(addr) > 5:  # oversize: not a documented input; rejecting it or using the first 5 bytes are both safe
                alt(("ValueError", "IndexError"))
            if (self.r[EN_AA] & 1 or lite) and not self.r[CONFIG] & PRIM_RX:
                # TX role with auto-ack on pipe 0: property C08 wants pipe 0 open on the TX address right after
                # open_tx_pipe(); the documentation only promises that of `listen = False`.  Both are safe here
                # (C08 decides which one is required).
                alt(None, lambda o: f(o, True))
            alt(None, f)
        elif name == "start_carrier_wave":
            def f(o):  # PS appendix C: PWR_UP=1, PRIM_RX=0, CONT_WAVE=1, PLL_LOCK=1, CE high
                o._enter_tx()
                o._b(RF_SETUP, CONT_WAVE | PLL_LOCK, CONT_WAVE | PLL_LOCK)
                if not o.plus:
                    o.clobbered = True  # docs: also changes crc, auto_ack, arc/ard, TX address (until `with`)
                    o.unclob = frozenset()
            alt(None, f)
        elif name == "stop_carrier_wave":
            def f(o):  # "puts the nRF24L01 to sleep"
                o._b(CONFIG, PWR_UP, 0)
                o._b(RF_SETUP, CONT_WAVE | PLL_LOCK, 0)
            alt(None, f)
        elif name == "load_ack":
            buf, pipe = args
            if lite:  # "will not throw exceptions ... any call with invalid parameters will have no affect"
                if is_int(pipe) and 0 <= pipe <= 5 and 1 <= len(buf) <= 32:
                    alt(None, lambda o: None if o.r[FEATURE] & EN_ACK_PAY else o._ack_on())
                else:
                    alt(None)
            elif not (is_int(pipe) and 0 <= pipe <= 5):
                alt("IndexError")
            elif not 1 <= len(buf) <= 32:
                alt("ValueError")
            else:
                # "ack, auto_ack, and dynamic_payloads ... automatically enabled (with respect to data pipe 0) ...
                # when necessary"
                alt(None, lambda o: None if o.ack_in_effect() else o._ack_on())
        else:
            raise KeyError("ref.regs: unknown method %r" % (name,))
        return res

    def _open_rx(self, pipe, addr):
        if len(addr):
            if pipe < 2:
                self._addr(RX_ADDR_P0 + pipe, addr)
            else:
                self._b(RX_ADDR_P0 + pipe, 0xFF, addr[0])  # "only the MSByte [first character] is written"
        self._b(EN_RXADDR, 1 << pipe, 1 << pipe)
        if pipe == 0:
            # "The existing address can be altered by writing a bytearray with a length less than 5": the pipe is opened on
            # the given bytes followed by the bytes the register held above them - all five are the user's address (C08)
            if len(addr):
                self.p0_user = bytes(self.a[RX_ADDR_P0])

    def apply(self, call, observed_exc=None):
        """task interface: update the expected registers with the documented outcome (or with the accepted
        alternative that raises `observed_exc`) and return the expected exception class name / None"""
        outs = self.outcomes(call)
        pick = outs[0]
        for o in outs:
            if o.exc_ok(observed_exc):
                pick = o
                break
        self.__dict__.update(pick.ref.__dict__)
        return pick.exc

    # ------------------------------------------------------------------ getters: the value in effect
    def value(self, call):
        """expected return value of a getter call (only meaningful when its outcome has no exception)"""
        kind, name, args = call
        r = self.r
        if name == "channel":
            return r[RF_CH]
        if name == "data_rate":
            return 250 if r[RF_SETUP] & RF_DR_LOW else (2 if r[RF_SETUP] & RF_DR_HIGH else 1)
        if name == "pa_level":
            return PA_DBM[(r[RF_SETUP] & RF_PWR) >> 1]
        if name == "is_lna_enabled":
            return bool(r[RF_SETUP] & LNA_HCURR)
        if name == "crc":
            return self.crc_len()
        if name == "address_length":
            return self.aw()
        if name == "ard":
            return ((r[SETUP_RETR] >> 4) + 1) * 250
        if name == "arc":
            return r[SETUP_RETR] & 0x0F
        if name == "get_auto_retries":
            return (((r[SETUP_RETR] >> 4) + 1) * 250, r[SETUP_RETR] & 0x0F)
        if name == "auto_ack":
            return r[EN_AA]
        if name == "get_auto_ack":
            return bool(r[EN_AA] & (1 << (args[0] if args else 0)))
        if name == "dynamic_payloads":
            return bool(self.dyn_in_effect()) if self.variant == "lite" else self.dyn_in_effect()
        if name == "get_dynamic_payloads":
            return bool(self.dyn_in_effect() & (1 << (args[0] if args else 0)))
        if name == "payload_length":
            return r[RX_PW_P0]
        if name == "get_payload_length":
            return r[RX_PW_P0 + (args[0] if args else 0)]
        if name == "ack":
            return self.ack_in_effect()
        if name == "allow_ask_no_ack":
            return bool(r[FEATURE] & EN_DYN_ACK)
        if name == "power":
            return bool(r[CONFIG] & PWR_UP)
        if name == "listen":
            return (r[CONFIG] & (PWR_UP | PRIM_RX)) == (PWR_UP | PRIM_RX)
        if name == "address":
            return self.pipe_address(args[0] if args else -1)
        if name == "is_plus_variant":
            return self.plus
        raise KeyError("ref.regs: no getter %r" % (name,))

    # ------------------------------------------------------------------ field ownership
    def owned(self, call):
        """{register: mask} of the fields that belong to the attribute / method of `call`
        (address registers: mask 0xFF = the whole register)"""
        kind, name, args = call
        if kind == "get":
            return {}
        pipe = None
        if kind == "call" and len(args) > 1 and name.startswith("set_"):
            pipe = args[1]
        elif name in ("open_rx_pipe", "close_rx_pipe"):
            pipe = args[0]
        onepipe = is_int(pipe) and 0 <= pipe <= 5
        allpw = {RX_PW_P0 + i: 0xFF for i in range(6)}
        ack = {FEATURE: EN_DPL | EN_ACK_PAY, EN_AA: 1, DYNPD: 0x3F if self.variant == "lite" else 1}
        table = {
            "channel": {RF_CH: 0xFF},
            "data_rate": {RF_SETUP: RF_DR_LOW | RF_DR_HIGH},
            "pa_level": {RF_SETUP: RF_PWR | LNA_HCURR},
            "crc": {CONFIG: EN_CRC | CRCO},
            "address_length": {SETUP_AW: 0xFF},
            "ard": {SETUP_RETR: 0xF0},
            "arc": {SETUP_RETR: 0x0F},
            "set_auto_retries": {SETUP_RETR: 0xFF},
            "auto_ack": {EN_AA: 0xFF},
            "set_auto_ack": {EN_AA: (1 << pipe) if onepipe else (0xFF if pipe is None else 0)},
            "dynamic_payloads": {DYNPD: 0xFF, FEATURE: EN_DPL},
            "set_dynamic_payloads": {DYNPD: (1 << pipe) if onepipe else (0xFF if pipe is None else 0), FEATURE: EN_DPL},
            "payload_length": allpw,
            "set_payload_length": ({RX_PW_P0 + pipe: 0xFF} if onepipe else (allpw if pipe is None else {})),
            "ack": ack,
            "load_ack": ack,
            "allow_ask_no_ack": {FEATURE: EN_DYN_ACK},
            "interrupt_config": {CONFIG: MASK_RX_DR | MASK_TX_DS | MASK_MAX_RT},
            "power": {CONFIG: PWR_UP},
            "listen": {CONFIG: PWR_UP | PRIM_RX, EN_RXADDR: 1, RX_ADDR_P0: 0xFF},
            "open_rx_pipe": ({RX_ADDR_P0 + pipe: 0xFF, EN_RXADDR: 1 << pipe} if onepipe else {}),
            "close_rx_pipe": ({EN_RXADDR: 1 << pipe} if onepipe else {}),
            "open_tx_pipe": {TX_ADDR: 0xFF, RX_ADDR_P0: 0xFF, EN_RXADDR: 1},
            "start_carrier_wave": {RF_SETUP: CONT_WAVE | PLL_LOCK, CONFIG: PWR_UP | PRIM_RX, EN_RXADDR: 1},
            "stop_carrier_wave": {RF_SETUP: CONT_WAVE | PLL_LOCK, CONFIG: PWR_UP},
        }
        return table.get(name, {})


def diff(expected, observed):
    """{reg: (expected, observed)} over two register files"""
    return {k: (expected[k], observed[k]) for k in expected if expected[k] != observed[k]}


def classify(d, owned):
    """a register-file difference is an *encoding* error if it touches a field the call owns and a
    *foreign* field alteration otherwise"""
    for reg, (e, o) in d.items():
        m = owned.get(reg, 0)
        if isinstance(e, (bytes, bytearray)):
            if m:
                return "encoding"
        elif (e ^ o) & m:
            return "encoding"
    return "foreign"


def groups(d):
    return "+".join(sorted({GROUPS[k] for k in d}))


def fmt(d):
    out = []
    for k, (e, o) in sorted(d.items()):
        if isinstance(e, (bytes, bytearray)):
            out.append("%s expected %s got %s" % (NAMES[k], bytes(e).hex(), bytes(o).hex()))
        else:
            out.append("%s expected 0x%02X got 0x%02X" % (NAMES[k], e, o))
    return "; ".join(out)
