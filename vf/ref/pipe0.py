"""Reference model for C08: what the *user* last asked of pipe 0, of the TX address and of
auto-ack on pipe 0, plus the role the user last selected.  Written from the property text and
docs/core_api/basic_api.rst (open_tx_pipe, open_rx_pipe, close_rx_pipe, listen) and
configure_api.rst (auto_ack) - never from the driver's shadow attributes.

Only the first `aw` bytes of an address are significant (SETUP_AW)."""


class Pipe0Model:
    __slots__ = ("aw", "p0", "tx", "aa0", "role", "should_be_open", "aa0_at_tx_entry")

    def __init__(self, aw):
        self.aw = aw
        self.p0 = None  # address of the user's last open_rx_pipe(0, a) not closed since
        self.tx = None  # address of the user's last open_tx_pipe(t)
        self.aa0 = True  # auto-ack on pipe 0 as the user last set it (default: enabled)
        self.role = "off"  # off (powered down after the constructor) | rx | tx
        # Is there a *documented* reason for pipe 0 to be open right now?  (user opened it, or
        # "when entering TX mode the listen attribute will ensure data pipe 0 is open to receive
        # automatic acknowledgments".)  Only used to name the shape of a TX-clause failure.
        self.should_be_open = False
        self.aa0_at_tx_entry = None

    # -- the user's calls
    def open_rx_pipe(self, pipe, addr):
        if pipe == 0:
            self.p0 = bytes(addr)
            self.should_be_open = True

    def close_rx_pipe(self, pipe):
        if pipe == 0:
            self.p0 = None
            self.should_be_open = False

    def open_tx_pipe(self, addr):
        self.tx = bytes(addr)

    def auto_ack(self, value):
        if isinstance(value, bool):
            self.aa0 = value
        else:
            self.aa0 = bool(value & 1)

    def listen(self, is_rx):
        if is_rx:
            self.role = "rx"
            # on RX entry pipe 0 belongs to the user again: open iff the user has it open
            self.should_be_open = self.p0 is not None
        else:
            self.role = "tx"
            self.aa0_at_tx_entry = self.aa0
            if self.aa0:
                self.should_be_open = True

    # -- expectations
    def rx_expect(self):
        """(pipe 0 enabled?, first aw address bytes or None) on entry to RX mode"""
        if self.p0 is None:
            return False, None
        return True, self.p0[:self.aw]

    def tx_expect(self):
        """first aw bytes pipe 0 must listen on right after open_tx_pipe() in TX mode with
        auto-ack on pipe 0"""
        return self.tx[:self.aw]

    def key(self):
        return (self.aw, self.p0, self.tx, self.aa0, self.role, self.should_be_open, self.aa0_at_tx_entry)
