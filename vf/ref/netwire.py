"""Reference wire format of the RF24Network layer, written from TMRh20's RF24Network
conventions (RF24Network.h: `struct RF24NetworkHeader { uint16_t from_node; uint16_t to_node;
uint16_t id; unsigned char type; unsigned char reserved; }` as laid out by the little-endian
MCUs the protocol was born on; RF24Network.cpp: `_write()` fragment loop and
`appendFragmentToFrame()`), never from the library under test.

All packing is done byte by byte, explicitly little-endian - no `struct`, no native order.
"""

HEADER_SIZE = 8
MAX_FRAME_PAYLOAD = 24  # 32-byte radio payload - 8-byte header
MAX_PAYLOAD_SIZE = 144  # TMRh20 default for MCUs (6 fragments)
FRAG_FIRST = 148
FRAG_MORE = 149
FRAG_LAST = 150
EXT_DATA = 131


def type_byte(t):
    """message type as it goes on the wire: an int (low byte) or the first character of a str"""
    if isinstance(t, str):
        return ord(t[0]) & 0xFF
    return t & 0xFF


def pack_header(frm, to, fid, typ, reserved):
    """8 bytes: origin, destination, frame id (little-endian uint16 each), type, reserved"""
    return bytes([frm & 0xFF, (frm >> 8) & 0xFF,
                  to & 0xFF, (to >> 8) & 0xFF,
                  fid & 0xFF, (fid >> 8) & 0xFF,
                  type_byte(typ), reserved & 0xFF])


def unpack_header(buf):
    """-> (from, to, id, type, reserved) or None when the buffer cannot hold a header"""
    buf = bytes(buf)
    if len(buf) < HEADER_SIZE:
        return None
    return (buf[0] | (buf[1] << 8), buf[2] | (buf[3] << 8), buf[4] | (buf[5] << 8), buf[6], buf[7])


def pack_frame(frm, to, fid, typ, reserved, msg):
    return pack_header(frm, to, fid, typ, reserved) + bytes(msg)


def unpack_frame(buf):
    """-> ((from, to, id, type, reserved), message) or None"""
    h = unpack_header(buf)
    if h is None:
        return None
    return h, bytes(buf[HEADER_SIZE:])


def n_fragments(n):
    return (n + MAX_FRAME_PAYLOAD - 1) // MAX_FRAME_PAYLOAD


def encode(frm, to, fid, typ, reserved, msg):
    """The frames (radio payloads) a TMRh20 node transmits for one message.

    n <= 24: one frame, header as given.  n > 24: ceil(n/24) frames of 24 message bytes (the
    last one holds the rest), all with the same frame id; types FIRST, MORE..., LAST; the
    reserved byte counts the fragments down (total for the first one, total-1 for the second,
    ... 2 for the one before the last) and the last fragment's reserved byte carries the
    original message type."""
    msg = bytes(msg)
    n = len(msg)
    if n <= MAX_FRAME_PAYLOAD:
        return [pack_frame(frm, to, fid, typ, reserved, msg)]
    total = n_fragments(n)
    out = []
    counter = total
    for i in range(total):
        chunk = msg[i * MAX_FRAME_PAYLOAD:(i + 1) * MAX_FRAME_PAYLOAD]
        if counter == 1:
            out.append(pack_frame(frm, to, fid, FRAG_LAST, type_byte(typ), chunk))
        elif i == 0:
            out.append(pack_frame(frm, to, fid, FRAG_FIRST, counter, chunk))
        else:
            out.append(pack_frame(frm, to, fid, FRAG_MORE, counter, chunk))
        counter -= 1
    return out


class Reassembler:
    """TMRh20-style receiver (port of appendFragmentToFrame, the strictest of its variants: the
    MCU version's countdown + the Linux version's per-origin cache and `counter must have
    reached 2 before LAST`).  feed(frame bytes) returns None (nothing complete yet / dropped)
    or ((from, to, id, type), message).  `dropped` lists why frames were refused."""

    def __init__(self, max_payload=MAX_PAYLOAD_SIZE):
        self.cache = {}  # from_node -> [header tuple, bytearray, expected next counter]
        self.max_payload = max_payload
        self.dropped = []

    def feed(self, buf):
        f = unpack_frame(buf)
        if f is None:
            self.dropped.append("short")
            return None
        (frm, to, fid, typ, res), msg = f
        if len(bytes(buf)) > 32:
            self.dropped.append("longer-than-radio-payload")
            return None
        if typ == FRAG_FIRST:
            if res > self.max_payload // MAX_FRAME_PAYLOAD or res < 2:
                self.dropped.append("first:bad-total")
                return None
            self.cache[frm] = [(frm, to, fid), bytearray(msg), res - 1]
            return None
        if typ in (FRAG_MORE, FRAG_LAST):
            c = self.cache.get(frm)
            if c is None or c[2] == 0:
                self.dropped.append("no-first")
                return None
            if len(c[1]) + len(msg) > self.max_payload:
                self.dropped.append("too-long")
                del self.cache[frm]
                return None
            if c[0] != (frm, to, fid):
                self.dropped.append("other-id")
                return None
            if typ == FRAG_MORE:
                if res != c[2] or c[2] < 2:
                    self.dropped.append("more:out-of-sequence")
                    return None
                c[1] += msg
                c[2] -= 1
                return None
            if c[2] != 1:
                self.dropped.append("last:fragments-missing")
                del self.cache[frm]
                return None
            c[1] += msg
            del self.cache[frm]
            return (frm, to, fid, res), bytes(c[1])
        return (frm, to, fid, typ), msg
