"""Reference expectations for the link layer, written from the nRF24L01+ datasheet and the
driver's documentation (never from its code)."""


def expected_payload(dynamic, pl_len, buf):
    """what the peer's read() must return for `buf`, or the exception class name"""
    buf = bytes(buf)
    if dynamic:
        if not 1 <= len(buf) <= 32:
            return "ValueError"
        return buf
    if len(buf) < pl_len:
        return buf + b"\0" * (pl_len - len(buf))
    return buf[:pl_len]


def len_class(dynamic, pl_len, n):
    if dynamic:
        return "len0" if n == 0 else ("len>32" if n > 32 else "len1..32")
    return "len<pl" if n < pl_len else ("len=pl" if n == pl_len else "len>pl")


def airtime_ns(aw, nbytes, crc, rate_kbps, esb=True):
    bits = 8 * (1 + aw + nbytes + crc) + (9 if esb else 0)
    return bits * 1000000 // rate_kbps


def send_time_bound_ns(arc, ard_us, force_retry, aw, nbytes, crc, rate_kbps, ack_bytes=32,
                       spi_cost_ns=30000, slack_ns=2000000):
    """upper bound on the duration of one send() from the retry configuration:
    every attempt = settle + packet air time + ARD (+ a late ACK being received)"""
    per = 130000 + airtime_ns(aw, nbytes, crc, rate_kbps) + ard_us * 1000 + 130000 + airtime_ns(aw, ack_bytes, crc, rate_kbps)
    attempts = (1 + arc) * (1 + force_retry)
    # SPI overhead: a handful of transactions per (forced) attempt plus polling granularity
    return attempts * per + (1 + force_retry) * 12 * (spi_cost_ns + 40 * 800) + slack_ns
