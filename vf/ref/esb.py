"""Reference expectations for the link layer, written from the nRF24L01+ datasheet and the
driver's documentation (never from its code)."""


def expected_payload(dynamic, pl_len, buf):
    """what the peer's read() must return for `buf`, or the exception class name"""
    buf = bytes(buf)
    if dynamic:
        if not 1 <= len(buf) <= 32:
            return "ValueError"
        return buf
    if len(buf) < pl_len:
        return buf + b"\0" * (pl_len - len(buf))
    return buf[:pl_len]


def len_class(dynamic, pl_len, n):
    if dynamic:
        return "len0" if n == 0 else ("len>32" if n > 32 else "len1..32")
    return "len<pl" if n < pl_len else ("len=pl" if n == pl_len else "len>pl")


def airtime_ns(aw, nbytes, crc, rate_kbps, esb=True):
    bits = 8 * (1 + aw + nbytes + crc) + (9 if esb else 0)
    return bits * 1000000 // rate_kbps


def send_time_bound_ns(arc, ard_us, force_retry, aw, nbytes, crc, rate_kbps, ack_bytes=32,
                       spi_cost_ns=30000, slack_ns=500000, acked=True, spi_txns=16):
    """Upper bound on the duration of one send() of one payload, derived from the retry
    configuration (datasheet 7.4/7.8): a *round* is one CE-started Enhanced ShockBurst
    transaction = (1+ARC) transmissions, each costing TX settling (130 us) + packet air time +
    the wait for the ACK: ARD, or - when an ACK packet whose address was detected inside ARD is
    longer than ARD (ACK payloads of up to `ack_bytes` with a short ARD) - until that ACK has
    been received completely (130 us turnaround of the PRX + ACK air time), whichever is longer;
    then the PTX retransmits or raises MAX_RT.  send(force_retry=k) may run 1+k rounds.  Around
    each round the MCU needs a bounded number of SPI transactions (flushes, flag clearing,
    payload upload, one polling period of detection latency, ACK payload download):
    `spi_txns` transactions of at most 34 bytes.  `slack_ns` covers Tpd2stby-style fixed delays
    (150 us) and clock reads.  A transmission that does not wait for an acknowledgement
    (NO_ACK / auto-ack off) is one settling + one air time."""
    air = airtime_ns(aw, nbytes, crc, rate_kbps)
    txn = spi_cost_ns + 34 * 800
    if not acked:
        return 130000 + air + spi_txns * txn + slack_ns
    ack_wait = max(ard_us * 1000, 130000 + airtime_ns(aw, ack_bytes, crc, rate_kbps) + 2000)
    per_attempt = 130000 + air + ack_wait
    per_round = (1 + arc) * per_attempt + spi_txns * txn
    return (1 + force_retry) * per_round + slack_ns
