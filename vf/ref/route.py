"""Reference model of the RF24Network address tree, written from
docs/network_docs/topology.rst (never from the library's routing code).

* A logical address is 0 (the master, level 0) or 1..4 octal digits, each in 1..5.
* The least significant digits of a node are the address of its parent: the parent of 0o324
  is 0o24, whose parent is 0o4, whose parent is 0.  The level of a node is its number of digits.
* A message travels up to the closest common ancestor and then down: 0o124 -> 0o24 -> 0o4 -> 0
  -> 0o3 (example of the documentation).
* Physical addresses: 5 bytes of `address_prefix`; byte 0 is `address_suffix[pipe]`, bytes 1..
  are `address_suffix[digit]` for the node's digits, least significant digit first.  With
  multicast enabled pipe 0 of every node other than the master is the address of its *level*:
  all prefix bytes, byte 1 = `address_suffix[level]`.
* A node transmits to a child on the child's pipe 5 and to its parent on the parent's pipe
  numbered like the sender's own (most significant) digit.
"""

MAX_LEVEL = 4
DEFAULT_PREFIX = 0xCC
DEFAULT_SUFFIX = (0xC3, 0x3C, 0x33, 0xCE, 0x3E, 0xE3)
DOC_ALT_PREFIX = 0xDB
DOC_ALT_SUFFIX = (0xDD, 0x99, 0xB6, 0xD9, 0x9D, 0x66)


def digits(a):
    """octal digits, least significant first"""
    out = []
    while a:
        out.append(a & 7)
        a >>= 3
    return out


def is_valid(a):
    """a real node address (0 or 1-4 digits in 1..5)"""
    if not isinstance(a, int) or a < 0:
        return False
    d = digits(a)
    return len(d) <= MAX_LEVEL and all(1 <= x <= 5 for x in d)


def all_addresses():
    out = [0]
    frontier = [0]
    for lvl in range(MAX_LEVEL):
        nxt = []
        for p in frontier:
            for d in range(1, 6):
                nxt.append(p | (d << (3 * lvl)))
        out += nxt
        frontier = nxt
    return out


def level(a):
    return len(digits(a))


def parent(a):
    """parent of a (None for the master)"""
    if a == 0:
        return None
    return a & ((1 << (3 * (level(a) - 1))) - 1)


def own_digit(a):
    """the digit that distinguishes a among its siblings (most significant)"""
    return a >> (3 * (level(a) - 1)) if a else 0


def children(a):
    l = level(a)
    if l >= MAX_LEVEL:
        return []
    return [a | (d << (3 * l)) for d in range(1, 6)]


def ancestors(a):
    """[a, parent(a), ..., 0]"""
    out = [a]
    while a:
        a = parent(a)
        out.append(a)
    return out


def in_subtree(d, n):
    """d is n or a descendant of n"""
    return n in ancestors(d)


def path(a, b):
    """the unique tree path [a, ..., b]"""
    up_a = ancestors(a)
    up_b = ancestors(b)
    sb = set(up_b)
    i = 0
    while up_a[i] not in sb:
        i += 1
    common = up_a[i]
    down = up_b[:up_b.index(common)]
    return up_a[:i + 1] + down[::-1]


def next_hop(n, d):
    """where node n hands a frame for d (d != n): the child on the path when d is below n,
    otherwise the parent"""
    if d == n:
        return n
    if in_subtree(d, n):
        l = level(n)
        return d & ((1 << (3 * (l + 1))) - 1)
    return parent(n)


def hop_pipe(n, hop):
    """pipe of `hop` that n transmits to"""
    if parent(hop) == n:
        return 5
    if parent(n) == hop:
        return own_digit(n)
    raise ValueError("not neighbours")


def relation(n, d):
    """how destination d lies relative to node n (shape of a routing case)"""
    if parent(d) == n:
        return "child"
    if in_subtree(d, n):
        return "descendant"
    if parent(n) == d:
        return "parent"
    if in_subtree(n, d):
        return "ancestor"
    return "other-branch"


def pipe_address(a, pipe, prefix=DEFAULT_PREFIX, suffix=DEFAULT_SUFFIX, multicast=True):
    """physical address (register byte order, byte 0 first on the wire)"""
    out = [prefix] * 5
    if multicast and pipe == 0 and a != 0:
        out[1] = suffix[level(a)]
        return bytes(out)
    for i, dg in enumerate(digits(a)):
        out[1 + i] = suffix[dg]
    out[0] = suffix[pipe]
    return bytes(out)


def level_address(lvl, prefix=DEFAULT_PREFIX, suffix=DEFAULT_SUFFIX):
    """shared pipe-0 address of a network level (multicast enabled)"""
    if lvl == 0:
        return pipe_address(0, 0, prefix, suffix)
    out = [prefix] * 5
    out[1] = suffix[lvl]
    return bytes(out)


def selfcheck():
    """the model has the properties the documentation states; -> list of problems"""
    bad = []
    A = all_addresses()
    if len(A) != 781 or len(set(A)) != 781 or not all(is_valid(a) for a in A):
        bad.append("address space is not the 781 documented addresses")
    if path(0o124, 0o3) != [0o124, 0o24, 0o4, 0, 0o3]:
        bad.append("documented route 0o124 -> 0o3 not reproduced")
    doc = {(0, 1): "CCCCCCCC3C", (0, 5): "CCCCCCCCE3", (0o1, 1): "CCCCCC3C3C", (0o2, 3): "CCCCCC33CE",
           (0o123, 1): "CC3C33CE3C", (0o123, 5): "CC3C33CEE3"}
    for (a, p), txt in doc.items():
        if pipe_address(a, p)[::-1].hex().upper() != txt:
            bad.append("documented address of 0o%o pipe %d not reproduced" % (a, p))
    worst = 0
    for a in A[::7]:
        for b in A[::5]:
            if a == b:
                continue
            p = path(a, b)
            worst = max(worst, len(p) - 1)
            cur, hops = a, [a]
            while cur != b and len(hops) < 12:
                nh = next_hop(cur, b)
                if parent(nh) != cur and parent(cur) != nh:
                    bad.append("next hop is not a neighbour")
                cur = nh
                hops.append(cur)
            if hops != p:
                bad.append("next_hop does not follow path for %o -> %o" % (a, b))
    if worst > 8:
        bad.append("a path longer than 8 hops exists")
    return bad
