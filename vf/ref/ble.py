"""Reference BLE link layer (advertising channel packets), written from the Bluetooth Core
Specification (v4.0+ Vol 6 Part B: 1.4.1 channel map, 2.1 packet format, 2.3 advertising PDU,
3.1 CRC, 3.2 whitening; Vol 3 Part C 11 advertising data format), the GATT Specification
Supplement (Health Thermometer / Battery Level), the Eddystone-URL frame specification and the
nRF24L01+ product specification (7.3 packet format: every field is sent MSBit first, the
address MSByte first).  Everything here works on the *on-air bit stream*; nothing in this
module imports or imitates the library under test.

On-air order of a BLE packet: preamble, access address, PDU (header, length, payload), CRC-24 -
every octet LSBit first, multi-octet fields LSByte first, except the CRC which is sent MSBit
first (LFSR position 23 first).  PDU and CRC are whitened.  The nRF24L01 clocks out its
payload bytes MSBit first, so air bit k of the BLE PDU is bit (7 - k%8) of radio payload byte
k//8.
"""

ACCESS_ADDRESS = 0x8E89BED6  # advertising channel access address
CRC_INIT_ADV = 0x555555
CRC_TAPS = (1, 3, 4, 6, 9, 10)  # x^24 + x^10 + x^9 + x^6 + x^4 + x^3 + x + 1 (besides position 0)

# advertising channel index -> centre frequency (MHz); nRF24L01 RF_CH n tunes 2400 + n MHz
ADV_FREQ_MHZ = {37: 2402, 38: 2426, 39: 2480}
RF_TO_BLE = {f - 2400: idx for idx, f in ADV_FREQ_MHZ.items()}  # {2: 37, 26: 38, 80: 39}

MAX_RADIO_PAYLOAD = 32
ADV_NONCONN_IND_RANDOM = 0x42  # PDU type 0b0010 (ADV_NONCONN_IND), TxAdd = 1 (random address)

FLAGS_LE_GENERAL_BREDR_UNSUPPORTED = 0x05  # LE Limited Discoverable | BR/EDR not supported (as documented)


# --------------------------------------------------------------------------- bit plumbing
def radio_bits(payload):
    """nRF24L01 payload bytes -> air bits in transmission order (MSBit of every byte first)"""
    return [(b >> (7 - i)) & 1 for b in payload for i in range(8)]


def radio_bytes(bits):
    """air bits in transmission order -> nRF24L01 payload bytes (MSBit first); the tail of an
    incomplete byte is zero filled"""
    out = bytearray((len(bits) + 7) // 8)
    for k, d in enumerate(bits):
        if d:
            out[k >> 3] |= 0x80 >> (k & 7)
    return bytes(out)


def octets_to_bits(data):
    """BLE octets -> air bits (LSBit of every octet first)"""
    return [(b >> i) & 1 for b in data for i in range(8)]


def bits_to_octets(bits):
    """air bits -> BLE octets (LSBit first); len(bits) must be a multiple of 8"""
    return bytes(sum(bits[8 * k + i] << i for i in range(8)) for k in range(len(bits) // 8))


def whitening_sequence(channel_index, nbits):
    """output of the 7-bit LFSR x^7 + x^4 + 1: position 0 = 1, positions 1..6 = channel index
    (MSBit in position 1); output taken from position 6"""
    reg = [1] + [(channel_index >> (5 - i)) & 1 for i in range(6)]
    out = []
    for _ in range(nbits):
        o = reg[6]
        out.append(o)
        reg = [o, reg[0], reg[1], reg[2], reg[3] ^ o, reg[4], reg[5]]
    return out


def crc24_bits(bits, init=CRC_INIT_ADV):
    """24-bit CRC LFSR over the (un-whitened) PDU bits in air order; returns the 24 CRC bits in
    transmission order (position 23 first)"""
    reg = [(init >> i) & 1 for i in range(24)]  # position i = bit i of the init value
    for d in bits:
        fb = d ^ reg[23]
        reg = [fb] + reg[:23]
        for p in CRC_TAPS:
            reg[p] ^= fb
    return [reg[23 - i] for i in range(24)]


def nrf_address(access_address=ACCESS_ADDRESS):
    """the 4 bytes to load into TX_ADDR / RX_ADDR_P0 (LSByte first, as the register is written)
    so that the nRF24L01 - which sends the address MSByte first, MSBit first - emits the BLE
    access address LSByte first, LSBit first"""
    air = octets_to_bits(access_address.to_bytes(4, "little"))
    as_sent = radio_bytes(air)  # first byte on the air = most significant address byte
    return bytes(reversed(as_sent))


def ble_channel(rf_channel):
    """advertising channel index for an nRF24L01 RF_CH value, or None"""
    return RF_TO_BLE.get(rf_channel)


# --------------------------------------------------------------------------- codec
def dewhiten(payload, rf_channel=None, channel_index=None):
    """radio payload -> un-whitened BLE octets (as many whole octets as the payload holds)"""
    idx = RF_TO_BLE[rf_channel] if channel_index is None else channel_index
    air = radio_bits(payload)
    ws = whitening_sequence(idx, len(air))
    return bits_to_octets([a ^ b for a, b in zip(air, ws)])


def decode(payload, rf_channel=None, channel_index=None):
    """What a BLE receiver tuned to the advertising channel of `rf_channel` makes of the radio
    payload: (pdu octets including header and length, crc_ok).  (None, False) when the length
    octet announces more than the captured bytes can hold."""
    octs = dewhiten(payload, rf_channel, channel_index)
    if len(octs) < 2:
        return None, False
    n = 2 + octs[1]
    if n + 3 > len(octs):
        return None, False
    pdu = octs[:n]
    want = crc24_bits(octets_to_bits(pdu))
    got = []
    for b in octs[n:n + 3]:  # the CRC bits arrive in LFSR order; undo the octet packing
        got += [(b >> i) & 1 for i in range(8)]
    return pdu, got == want


def encode_pdu(pdu, rf_channel=None, channel_index=None, crc_flip=0):
    """complete PDU octets (header, length, payload) -> radio payload (PDU + CRC, whitened,
    packed MSBit first).  crc_flip: 24-bit mask XOR-ed onto the CRC (to build invalid packets)"""
    idx = RF_TO_BLE[rf_channel] if channel_index is None else channel_index
    bits = octets_to_bits(pdu)
    crc = crc24_bits(bits)
    if crc_flip:
        crc = [c ^ ((crc_flip >> i) & 1) for i, c in enumerate(crc)]
    air = bits + crc
    ws = whitening_sequence(idx, len(air))
    return radio_bytes([a ^ b for a, b in zip(air, ws)])


def encode(pdu_header, mac, ad_bytes, rf_channel=None, channel_index=None, length=None, crc_flip=0):
    """advertising PDU with AdvA = mac (6 octets as they appear in the PDU, i.e. LSByte of the
    device address first) and AdvData = ad_bytes -> radio payload (<= 32 bytes or ValueError).
    `length` overrides the length octet (adversarial packets)."""
    body = bytes(mac) + bytes(ad_bytes)
    ln = len(body) if length is None else length
    pdu = bytes([pdu_header & 0xFF, ln & 0xFF]) + body
    out = encode_pdu(pdu, rf_channel, channel_index, crc_flip)
    if len(out) > MAX_RADIO_PAYLOAD:
        raise ValueError("packet of %d bytes does not fit the radio payload" % len(out))
    return out


def packet_size(ad_len):
    """radio payload bytes needed for an advertisement with ad_len bytes of AdvData"""
    return 2 + 6 + ad_len + 3


# --------------------------------------------------------------------------- advertising data
def ad(ad_type, data=b""):
    """one AD structure: length (type + data), type, data"""
    data = bytes(data)
    return bytes([len(data) + 1, ad_type & 0xFF]) + data


def parse_ad(ad_bytes):
    """AdvData -> ([(type, data)], well_formed).  A zero length octet terminates the significant
    part early (Vol 3 Part C 11); a structure running past the end makes it malformed."""
    out = []
    i = 0
    n = len(ad_bytes)
    while i < n:
        ln = ad_bytes[i]
        if ln == 0:
            return out, all(b == 0 for b in ad_bytes[i:])
        if i + 1 + ln > n:
            return out, False
        out.append((ad_bytes[i + 1], bytes(ad_bytes[i + 2:i + 1 + ln])))
        i += 1 + ln
    return out, True


AD_FLAGS = 0x01
AD_SHORT_NAME = 0x08
AD_COMPLETE_NAME = 0x09
AD_TX_POWER = 0x0A
AD_SERVICE_DATA16 = 0x16
AD_MANUFACTURER = 0xFF

UUID_HEALTH_THERMOMETER = 0x1809
UUID_BATTERY = 0x180F
UUID_EDDYSTONE = 0xFEAA


def signed8(v):
    return bytes([v & 0xFF])


def svc_battery(level):
    """Service Data - 16 bit UUID, Battery Service: Battery Level uint8 (percent)"""
    return ad(AD_SERVICE_DATA16, UUID_BATTERY.to_bytes(2, "little") + bytes([level & 0xFF]))


def temperature_mantissa(hundredths):
    return (hundredths & 0xFFFFFF).to_bytes(3, "little")


def svc_temperature(hundredths, exponent=-2):
    """Service Data, Health Thermometer: IEEE-11073 32-bit FLOAT = 24-bit two's complement
    mantissa (LSByte first) + 8-bit two's complement exponent; value = mantissa * 10^exponent"""
    return ad(AD_SERVICE_DATA16, UUID_HEALTH_THERMOMETER.to_bytes(2, "little")
              + temperature_mantissa(hundredths) + signed8(exponent))


def temperature_value(data4):
    """(mantissa, exponent) -> float from the 4 data octets of a thermometer measurement"""
    m = int.from_bytes(data4[:3], "little")
    if m & 0x800000:
        m -= 1 << 24
    e = data4[3] if len(data4) > 3 else 0xFE
    if e & 0x80:
        e -= 256
    return m * 10.0 ** e


URL_SCHEMES = ("http://www.", "https://www.", "http://", "https://")
URL_EXPANSIONS = (".com/", ".org/", ".edu/", ".net/", ".info/", ".biz/", ".gov/",
                  ".com", ".org", ".edu", ".net", ".info", ".biz", ".gov")


def url_encode(scheme_idx, parts):
    """Eddystone-URL encoded URL: scheme code + for every part either an expansion index (int)
    or literal text (str)"""
    out = bytearray([scheme_idx])
    for p in parts:
        if isinstance(p, int):
            out.append(p)
        else:
            out += p.encode("ascii")
    return bytes(out)


def url_text(scheme_idx, parts):
    return URL_SCHEMES[scheme_idx] + "".join(URL_EXPANSIONS[p] if isinstance(p, int) else p for p in parts)


def svc_url(encoded_url, tx_power=-25):
    """Service Data, Eddystone (0xFEAA): frame type 0x10 (URL), ranging data (signed dBm at 0 m /
    here 1 m), encoded URL"""
    return ad(AD_SERVICE_DATA16, UUID_EDDYSTONE.to_bytes(2, "little") + b"\x10" + signed8(tx_power) + encoded_url)


def url_decode(encoded):
    """Eddystone-URL decoding of scheme code + body"""
    if not encoded or encoded[0] >= len(URL_SCHEMES):
        return None
    s = URL_SCHEMES[encoded[0]]
    for b in encoded[1:]:
        s += URL_EXPANSIONS[b] if b < len(URL_EXPANSIONS) else chr(b)
    return s


def describe(pdu):
    """independent interpretation of an advertising PDU: dict(mac, name, tx_power, structs,
    well_formed)"""
    structs, ok = parse_ad(pdu[8:])
    d = dict(header=pdu[0], mac=bytes(pdu[2:8]), name=None, tx_power=None, structs=structs, well_formed=ok)
    for t, data in structs:
        if t in (AD_SHORT_NAME, AD_COMPLETE_NAME):
            d["name"] = data
        elif t == AD_TX_POWER and len(data) == 1:
            d["tx_power"] = data[0] - 256 if data[0] & 0x80 else data[0]
    return d


# --------------------------------------------------------------------------- self check
def selfcheck(seed=0):
    """encoder vs decoder on every advertising channel, every AdvData length that fits, plus
    fixed points from the specification.  Returns the number of round trips; raises
    AssertionError on disagreement."""
    assert RF_TO_BLE == {2: 37, 26: 38, 80: 39}
    assert nrf_address() == bytes([0x71, 0x91, 0x7D, 0x6B]), nrf_address().hex()
    # Core spec Vol 6 Part C 3.x sample data are not available offline; structural checks instead:
    # 1. whitening is an involution and channel specific, period 127
    for idx in (37, 38, 39):
        ws = whitening_sequence(idx, 254)
        assert ws[:127] == ws[127:] and any(ws) and not all(ws)
    assert len({tuple(whitening_sequence(i, 40)) for i in range(40)}) == 40
    # 2. CRC of a message followed by its CRC leaves the LFSR in the all-zero state
    x = (seed * 2654435761 + 977) & 0xFFFFFFFF
    n = 0
    for rf, idx in sorted(RF_TO_BLE.items()):
        for adlen in range(0, 22):
            body = bytearray()
            for _ in range(6 + adlen):
                x = (x * 1103515245 + 12345) & 0x7FFFFFFF
                body.append((x >> 16) & 0xFF)
            pl = encode(ADV_NONCONN_IND_RANDOM, body[:6], body[6:], rf)
            assert len(pl) == packet_size(adlen)
            pdu, ok = decode(pl + bytes(32 - len(pl)), rf)
            assert ok and pdu == bytes([0x42, 6 + adlen]) + bytes(body), (rf, adlen)
            bits = octets_to_bits(pdu)
            crc = crc24_bits(bits)
            reg = [(CRC_INIT_ADV >> i) & 1 for i in range(24)]
            for d in bits + crc:
                fb = d ^ reg[23]
                reg = [fb] + reg[:23]
                for p in CRC_TAPS:
                    reg[p] ^= fb
            assert not any(reg)
            # a receiver on another advertising channel must not accept it
            for other in RF_TO_BLE:
                if other != rf:
                    assert not decode(pl + bytes(32 - len(pl)), other)[1]
            # any single bit error inside PDU+CRC is detected
            for k in range(0, 8 * len(pl), 7):
                bad = bytearray(pl + bytes(32 - len(pl)))
                bad[k >> 3] ^= 0x80 >> (k & 7)
                assert not decode(bytes(bad), rf)[1], (rf, adlen, k)
            n += 1
    assert parse_ad(ad(1, b"\x05") + ad(0xFF, b"abc")) == ([(1, b"\x05"), (0xFF, b"abc")], True)
    assert parse_ad(b"\x05\xff\x01") == ([], False)
    assert parse_ad(b"\x02\x01\x05\x00\x00") == ([(1, b"\x05")], True)
    assert url_decode(url_encode(0, ["google", 7])) == "http://www.google.com" == url_text(0, ["google", 7])
    assert abs(temperature_value(svc_temperature(-2530)[4:]) + 25.30) < 1e-9
    return n
