"""Self-tests of the trusted base: datasheet scenarios driven through raw SPI bytes against
SimRadio (no library code involved), plus engine sanity checks.  Run by MANIFEST.setup_cmd."""
import sys
import os

sys.path.insert(0, os.path.dirname(os.path.dirname(os.path.abspath(__file__))))
from vf.sim import World, SimRadio, US, MS, ghost_listener, ghost_sender, ghost_send  # noqa: E402
from vf import engine  # noqa: E402

FAILS = []


def ok(cond, what):
    if not cond:
        FAILS.append(what)
        print("SELFTEST FAIL:", what)


def wreg(r, reg, *vals):
    return r.xfer(bytes([0x20 | reg]) + bytes(vals))


def rreg(r, reg, n=1):
    return r.xfer(bytes([reg]) + bytes(n))[1:]


def mk_pair(arc=3, ard=1, dyn=True, ackpay=False):
    w = World().activate()
    tx, rx = SimRadio(w, "tx"), SimRadio(w, "rx")
    for r in (tx, rx):
        wreg(r, 0x1D, 0x04 | (0x02 if ackpay else 0) | 1 if dyn else 0)
        wreg(r, 0x1C, 0x3F if dyn else 0)
        wreg(r, 0x04, (ard << 4) | arc)
        wreg(r, 0x11, 4)
        wreg(r, 0x12, 4)
    wreg(tx, 0x10, *b"ABCDE")
    wreg(tx, 0x0A, *b"ABCDE")
    wreg(rx, 0x0B, *b"ABCDE")
    wreg(tx, 0x00, 0x0E)
    wreg(rx, 0x00, 0x0F)
    rx.ce_pin.value = True
    w.advance(200 * US)
    return w, tx, rx


def t_reset_and_masks():
    w = World().activate()
    r = SimRadio(w, "r")
    ok(rreg(r, 0x00)[0] == 0x08 and rreg(r, 0x01)[0] == 0x3F and rreg(r, 0x02)[0] == 0x03, "reset CONFIG/EN_AA/EN_RXADDR")
    ok(rreg(r, 0x03)[0] == 3 and rreg(r, 0x04)[0] == 3 and rreg(r, 0x05)[0] == 2 and rreg(r, 0x06)[0] == 0x0E, "reset AW/RETR/CH/RF_SETUP")
    ok(rreg(r, 0x0A, 5) == b"\xe7" * 5 and rreg(r, 0x0B, 5) == b"\xc2" * 5 and rreg(r, 0x0F)[0] == 0xC6, "reset addresses")
    ok(rreg(r, 0x17)[0] == 0x11, "reset FIFO_STATUS")
    ok(r.xfer(b"\xff")[0] == 0x0E, "reset STATUS")
    wreg(r, 0x00, 0xFF)
    ok(rreg(r, 0x00)[0] == 0x7F and r.illegal_writes, "CONFIG bit 7 reserved, recorded")
    r.illegal_writes.clear()
    wreg(r, 0x11, 40)
    ok(r.illegal_writes and r.illegal_writes[0][0] == 0x11, "RX_PW>32 recorded")
    wreg(r, 0x0A, 1, 2)
    ok(rreg(r, 0x0A, 5) == b"\x01\x02\xe7\xe7\xe7", "partial address write keeps upper bytes")
    wreg(r, 0x08, 0xFF)
    ok(rreg(r, 0x08)[0] == 0 and r.ro_writes, "OBSERVE_TX read only")
    # pipes 2-5 share P1's upper bytes
    wreg(r, 0x0B, *b"12345")
    wreg(r, 0x0C, 0x77)
    ok(r.pipe_addr(2) == b"\x772345", "pipe 2 shares P1 upper bytes")
    wreg(r, 0x03, 1)
    ok(r.pipe_addr(2) == b"\x7723" and r.aw() == 3, "address width 3")
    # non-plus: FEATURE locked until ACTIVATE
    n = SimRadio(w, "np", plus=False)
    wreg(n, 0x1D, 5)
    ok(rreg(n, 0x1D)[0] == 0, "non-plus FEATURE locked")
    n.xfer(b"\x50\x73")
    wreg(n, 0x1D, 5)
    ok(rreg(n, 0x1D)[0] == 5, "non-plus FEATURE after ACTIVATE")
    n.xfer(b"\x50\x73")
    ok(rreg(n, 0x1D)[0] == 0, "non-plus FEATURE toggled off")


def t_status_shift_and_irq():
    w, tx, rx = mk_pair()
    tx.xfer(b"\xa0" + b"hey!")
    tx.ce_pin.value = True
    w.advance(2 * MS)
    st = tx.xfer(b"\xff")[0]
    ok(st & 0x20 and not st & 0x10, "TX_DS after acked packet")
    ok(tx.irq_line() is False, "IRQ asserted on TX_DS")
    miso = wreg(tx, 0x07, 0x70)
    ok(miso[0] & 0x20, "STATUS shifted out as it was when CSN fell (before the clear)")
    ok(not tx.xfer(b"\xff")[0] & 0x70 and tx.irq_line() is True, "flags cleared by writing 1")
    ok(rx.xfer(b"\xff")[0] & 0x4E == 0x42, "RX_DR and RX_P_NO=1 at receiver")
    wreg(rx, 0x00, 0x4F)
    ok(rx.irq_line() is True, "MASK_RX_DR hides RX_DR from IRQ line")
    ok(rx.xfer(b"\x60\x00")[1] == 4, "R_RX_PL_WID")
    ok(rx.xfer(b"\x61" + bytes(4))[1:] == b"hey!", "R_RX_PAYLOAD")
    ok(rx.xfer(b"\xff")[0] & 0x0E == 0x0E, "RX FIFO empty after read (payload popped)")


def t_retransmit_and_max_rt():
    w, tx, rx = mk_pair(arc=3, ard=1)
    rx.ce_pin.value = False  # nobody listens
    tx.xfer(b"\xa0" + b"lost")
    tx.ce_pin.value = True
    w.advance(10 * MS)
    st = tx.xfer(b"\xff")[0]
    ok(st & 0x10 and not st & 0x20, "MAX_RT after arc exhausted")
    ok(len([p for p in w.airlog if not p.is_ack]) == 4, "1 + ARC transmissions (got %d)" % len(w.airlog))
    ok(rreg(tx, 0x08)[0] == 0x13, "OBSERVE_TX: PLOS 1, ARC_CNT 3")
    gaps = [w.airlog[i + 1].start - w.airlog[i].end for i in range(3)]
    ok(all(g == 500 * US + 130 * US for g in gaps), "ARD timing between retransmissions %r" % gaps)
    ok(rreg(tx, 0x17)[0] & 0x10 == 0, "payload stays in TX FIFO after MAX_RT")
    n = len(w.airlog)
    tx.xfer(b"\xa0" + b"more")
    w.advance(5 * MS)
    ok(len(w.airlog) == n, "MAX_RT blocks further transmissions until cleared")
    rx.ce_pin.value = True
    w.advance(1 * MS)
    wreg(tx, 0x07, 0x10)
    w.advance(5 * MS)
    ok([bytes(p) for _, p in rx.rx_fifo] == [b"lost", b"more"], "after clearing MAX_RT the FIFO is sent in order")
    wreg(tx, 0x05, 76)
    ok(rreg(tx, 0x08)[0] >> 4 == 0, "PLOS_CNT reset by RF_CH write")


def t_pid_dup():
    w, tx, rx = mk_pair(arc=2, ard=1)
    lost = {"n": 0}

    def fault(p):  # lose the first ACK
        if p.is_ack and lost["n"] == 0:
            lost["n"] = 1
            return True
        return False
    w.fault = fault
    tx.xfer(b"\xa0" + b"same")
    tx.ce_pin.value = True
    w.advance(5 * MS)
    ok(tx.xfer(b"\xff")[0] & 0x20, "TX_DS after the retransmission is acked")
    ok(len(rx.rx_fifo) == 1, "duplicate (same PID+payload) not stored twice")
    ok(len([p for p in w.airlog if p.is_ack]) == 2, "duplicate is re-acknowledged")
    tx.xfer(b"\xa0" + b"same")
    w.advance(5 * MS)
    ok(len(rx.rx_fifo) == 2, "same payload with new PID is a new packet")


def t_ack_payload_and_fifo_full():
    w, tx, rx = mk_pair(arc=1, ard=2, ackpay=True)
    rx.xfer(b"\xa9" + b"ack1")  # W_ACK_PAYLOAD pipe 1
    rx.xfer(b"\xa9" + b"ack2")
    for i in range(4):
        tx.xfer(b"\xa0" + bytes([0x30 + i]) * 2)
        tx.ce_pin.value = True
        w.advance(5 * MS)
        wreg(tx, 0x07, 0x70)
    ok([bytes(p) for _, p in tx.rx_fifo] == [b"ack1", b"ack2"], "ACK payloads delivered in order to PTX pipe 0")
    ok(all(p == 0 for p, _ in tx.rx_fifo), "ACK payload lands on pipe 0")
    ok(len(rx.rx_fifo) == 3, "RX FIFO holds 3")
    ok(tx.truth[-1][0] == "max_rt", "4th packet not acknowledged when RX FIFO full")
    ok(rx.xfer(b"\xff")[0] & 0x20, "PRX TX_DS when ACK payload confirmed")
    ok(not rx.tx_fifo or len(rx.tx_fifo) <= 1, "ACK payload removed from PRX TX FIFO once confirmed")


def t_noack_and_static():
    w, tx, rx = mk_pair(dyn=False)
    wreg(tx, 0x1D, 0x01)
    wreg(rx, 0x1D, 0x01)
    tx.xfer(b"\xb0" + b"na!!")
    tx.ce_pin.value = True
    w.advance(3 * MS)
    ok(tx.xfer(b"\xff")[0] & 0x20 and len(w.airlog) == 1 and w.airlog[0].noack, "NO_ACK packet: TX_DS without ACK")
    ok(len(rx.rx_fifo) == 1, "NO_ACK packet received")
    wreg(tx, 0x07, 0x70)
    tx.xfer(b"\xa0" + b"12345")  # 5 bytes to a static-4 pipe: not received
    w.advance(10 * MS)
    ok(len(rx.rx_fifo) == 1 and tx.xfer(b"\xff")[0] & 0x10, "static pipe accepts exactly RX_PW bytes")


def t_half_duplex_collision():
    w = World().activate()
    rx = ghost_listener(w, "rx", [None, b"ABCDE"])
    g1, g2 = ghost_sender(w, "g1"), ghost_sender(w, "g2")
    w.advance(300 * US)
    ghost_send(g1, b"ABCDE", b"one")
    ghost_send(g2, b"ABCDE", b"two")
    w.advance(5 * MS)
    ok(len(rx.rx_fifo) == 0 and all(p.collided for p in w.airlog[:2]), "overlapping transmissions corrupt each other")
    g3 = ghost_sender(w, "g3")
    ghost_send(g3, b"ABCDE", b"three")
    w.advance(5 * MS)
    ok([bytes(p) for _, p in rx.rx_fifo] == [b"three"], "ghost sender/listener deliver")
    ok(g3.truth and g3.truth[-1][0] == "tx_ok", "ghost sender got ACK")
    # a receiver that starts listening mid-packet misses it
    w2 = World().activate()
    r2 = ghost_listener(w2, "late", [None, b"ABCDE"])
    r2.ce_pin.value = False
    g = ghost_sender(w2, "g")
    ghost_send(g, b"ABCDE", b"x" * 32)
    w2.advance(130 * US + 100 * US)
    r2.ce_pin.value = True
    w2.advance(2 * MS)
    ok(len(r2.rx_fifo) == 0, "packet that began before RX was ready is missed")


def t_engine():
    # BFS on a toy counter: states 0..9 reachable with +1/+2 mod 10
    rep = engine.Report()

    def apply(st, op, hist):
        st[0] = (st[0] + op) % 10
    d = engine.bfs([([0], "init")], lambda s: (1, 2), apply, lambda s: s[0], 12, rep)
    ok(rep.states == 10 and rep.transitions == 20, "BFS toy: 10 states 20 transitions (got %d/%d)" % (rep.states, rep.transitions))
    # DFS chooser: 3 binary choices, bound 1 -> 1 + 3 executions; bound 3 -> 8
    def run(ch):
        return tuple(ch.choose(2, "c%d" % i) for i in range(3))
    ok(len({r for _, r in engine.explore(run, 1)}) == 4, "DFS bound 1")
    ok(len({r for _, r in engine.explore(run, 3)}) == 8, "DFS bound 3 = complete tree")
    # variable arity / depth tree is enumerated completely
    def run2(ch):
        a = ch.choose(3, "a")
        return (a,) + tuple(ch.choose(2, "b") for _ in range(a))
    ok(len({r for _, r in engine.explore(run2, 9)}) == 1 + 2 + 4, "DFS complete on dependent tree")


def t_copy_memoryview():
    import copy
    buf = bytearray(b"0123456789")
    st = {"buf": buf, "view": memoryview(buf)[2:5], "empty": memoryview(buf)[4:4]}
    c = copy.deepcopy(st)
    c["buf"][3] = 0x58
    ok(bytes(c["view"]) == b"2X4" and bytes(st["view"]) == b"234", "deep copy of a memoryview aliases the copied buffer, not the original")
    c["view"][0] = 0x59
    ok(bytes(c["buf"][:4]) == b"01YX" and bytes(buf) == b"0123456789", "writes through the copied view land in the copied buffer")
    ok(len(c["empty"]) == 0, "empty view copied")


def _spin(item, rep):
    if item == 1:
        while True:
            pass
    rep.case()


def t_item_watchdog():
    """a work item that never finishes is cut by the CPU-time watchdog and reported, the other items still run"""
    import os
    old = os.environ.get("VERIF_ITEM_CPU_S")
    os.environ["VERIF_ITEM_CPU_S"] = "1"
    try:
        engine.CURRENT_PID[0] = "CXX"
        rep = engine.Report()
        engine.pmap(_spin, [0, 1, 2, 3, 4, 5], rep, workers=3)
        ok(list(rep.violations) == ["CXX/library-hangs:_spin"] and rep.evaluations + len(rep.caps) >= 3, "watchdog: hang reported, pool survives")
    finally:
        engine.CURRENT_PID[0] = None
        if old is None:
            del os.environ["VERIF_ITEM_CPU_S"]
        else:
            os.environ["VERIF_ITEM_CPU_S"] = old


def t_threaded_world():
    w = World(horizon_ns=50 * MS).activate()
    log = []

    def a(ctx):
        for i in range(3):
            ctx.wait(1 * MS)
            log.append(("a", w.now))

    def b(ctx):
        for i in range(2):
            ctx.wait(1500 * US)
            log.append(("b", w.now))
    w.spawn("a", a)
    w.spawn("b", b)
    w.run()
    ok(log == [("a", 1 * MS), ("b", 1500 * US), ("a", 2 * MS), ("b", 3 * MS), ("a", 3 * MS)], "threaded DES order %r" % log)
    w2 = World(horizon_ns=5 * MS).activate()

    def spin(ctx):
        while True:
            ctx.wait(100 * US)
    c = w2.spawn("spin", spin)
    w2.run()
    ok(w2.aborted and c.exc is None, "horizon aborts spinning context")
    # a single wait that crosses the horizon ends that context on its own: the baton must go back to
    # the main thread (which then aborts the context blocked for ever) - this used to dead-lock
    w3 = World(horizon_ns=5 * MS).activate()
    r3 = SimRadio(w3, "r3")

    def oversleep(ctx):
        ctx.wait(1 * MS)
        ctx.wait(10 * MS)

    def blocked(ctx):
        ctx.wait_rx(r3, None, 0)
    c1 = w3.spawn("oversleep", oversleep)
    c2 = w3.spawn("blocked", blocked)
    w3.run()
    ok(w3.aborted and c1.done and c2.done, "a context that runs into the horizon by itself does not strand the others")


def main():
    for t in (t_reset_and_masks, t_status_shift_and_irq, t_retransmit_and_max_rt, t_pid_dup,
              t_ack_payload_and_fifo_full, t_noack_and_static, t_half_duplex_collision, t_engine, t_copy_memoryview, t_item_watchdog,
              t_threaded_world):
        try:
            t()
        except Exception as e:  # noqa
            import traceback
            traceback.print_exc()
            FAILS.append("%s crashed: %r" % (t.__name__, e))
    if FAILS:
        print("SELFTEST: %d failure(s)" % len(FAILS))
        return 1
    print("SELFTEST OK")
    return 0


if __name__ == "__main__":
    sys.exit(main())
