#!/usr/bin/env python3
"""keepseed.py <src dir> <seed id e.g. C13-1> <CHECK-ID[,..]>: confirm a seeded change (tests pass, demo fails with / passes
without) and store it under /verif/seeded/<seed id>/ with the confirmation and the checks' verdicts in meta.json."""
import json, os, shutil, subprocess, sys
src, sid, ids = sys.argv[1], sys.argv[2], sys.argv[3]
r = subprocess.run([sys.executable, "/verif/tools/seedcheck.py", src, ids], capture_output=True, text=True)
try:
    res = json.loads(r.stdout)
except Exception:
    print(r.stdout[-2000:], r.stderr[-2000:]); sys.exit(2)
ok = res.get("applies") and res.get("tests_pass") and res.get("demo_fails_with_change") and res.get("demo_passes_without")
print(sid, "confirmed" if ok else "NOT CONFIRMED", {k: v for k, v in res.items() if k not in ("checks", "dir")}, {c: (v["verdict"], v["sigs"][:3]) for c, v in res["checks"].items()})
if not ok:
    sys.exit(1)
dst = os.path.join("/verif/seeded", sid)
os.makedirs(dst, exist_ok=True)
for f in ("patch.diff", "demo.py"):
    shutil.copy(os.path.join(src, f), os.path.join(dst, f))
meta = json.load(open(os.path.join(src, "meta.json")))
meta["confirmed"] = {"patch_applies_to_repo_head": True, "pinned_suite_209_of_209": True, "demo_fails_with_change": True, "demo_passes_without": True,
                     "repo_head": subprocess.run(["git", "-C", "/repo", "log", "--format=%h", "-1"], capture_output=True, text=True).stdout.strip(),
                     "ran": ["tools/seedcheck.py %s %s" % (src, ids)]}
meta["checks"] = {c: {"verdict": v["verdict"], "signatures": v["sigs"]} for c, v in res["checks"].items()}
json.dump(meta, open(os.path.join(dst, "meta.json"), "w"), indent=1)
