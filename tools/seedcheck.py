#!/usr/bin/env python3
"""Evaluate one seeded property-breaking change: seedcheck.py <dir with patch.diff, demo.py, meta.json> <CHECK-ID[,ID..]> [--tier quick]
Applies the patch to a scratch copy of /repo (never to /repo itself), confirms that the pinned
test-suite still passes, that demo.py fails with the change and passes without it, then runs the
named checks against the patched copy."""
import json, os, shutil, subprocess, sys, tempfile
d, ids = sys.argv[1], sys.argv[2].split(",")
tier = sys.argv[sys.argv.index("--tier") + 1] if "--tier" in sys.argv else "quick"
tmp = tempfile.mkdtemp(prefix="seedchk_", dir="/tmp")
dst = os.path.join(tmp, "repo")
shutil.copytree("/repo", dst, ignore=shutil.ignore_patterns("__pycache__", "docs", "*.egg-info", ".git"))
subprocess.run(["git", "init", "-q"], cwd=dst)
r = subprocess.run(["git", "apply", "--whitespace=nowarn", os.path.abspath(os.path.join(d, "patch.diff"))], cwd=dst, capture_output=True, text=True)
out = {"dir": d, "applies": r.returncode == 0}
if r.returncode:
    print(json.dumps(out), r.stderr[-500:]); shutil.rmtree(tmp); sys.exit(2)
b = subprocess.run([sys.executable, "/verif/tools/baseline.py", dst], capture_output=True, text=True)
out["tests_pass"] = b.returncode == 0
demo = os.path.join(d, "demo.py")
if os.path.exists(demo):
    env = dict(os.environ, PYTHONDONTWRITEBYTECODE="1")
    a = subprocess.run(["/venv/bin/python", demo], env=dict(env, PYTHONPATH=dst), capture_output=True, text=True, cwd=tmp, timeout=600)
    c = subprocess.run(["/venv/bin/python", demo], env=dict(env, PYTHONPATH="/repo"), capture_output=True, text=True, cwd=tmp, timeout=600)
    out["demo_fails_with_change"] = a.returncode != 0
    out["demo_passes_without"] = c.returncode == 0
    out["demo_msg"] = (a.stdout + a.stderr).strip()[-300:]
env = dict(os.environ, VERIF_REPO=dst, VERIF_REPLAY_DIR=os.path.join(tmp, "replays"), VERIF_EVIDENCE_DIR=tmp)
out["checks"] = {}
for i in ids:
    r = subprocess.run(["/verif/check", i, "--tier", tier], capture_output=True, text=True, env=env)
    sigs = [l.split("signature:")[1].strip() for l in r.stdout.splitlines() if "signature:" in l]
    out["checks"][i] = {"rc": r.returncode, "verdict": "DETECTED" if r.returncode == 1 else ("harness-error" if r.returncode == 2 else "ESCAPED"), "sigs": sigs[:8]}
    if r.returncode == 2:
        out["checks"][i]["log"] = (r.stdout + r.stderr)[-800:]
print(json.dumps(out, indent=1))
shutil.rmtree(tmp)
