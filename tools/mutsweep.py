#!/usr/bin/env python3
"""Systematic mutation sweep of one library file against the quick checks.

mutsweep.py <file relative to /repo> --checks C01,C02 [--every N] [--offset K] [--max M] [--jobs J] [--funcs a,b] [--list]

Enumerates AST-level mutation sites (comparison operators, boolean operators, arithmetic / bit operators, integer
constants +-1 / one bit, True/False, `not` removal, deletion of simple statements, dropped `return` values), applies one at a
time to a scratch copy of /repo (never /repo itself), runs the named quick checks in order until one reports a violation,
and - only for mutants no check reports - the pinned test-suite, because a survivor the suite rejects is not a realistic
escape.  Prints one line per mutant and a summary; survivors are written to <out>/survivors.jsonl for triage (equivalent
mutant, outside every property, or a gap to close)."""
import ast, json, os, shutil, subprocess, sys, tempfile
from concurrent.futures import ThreadPoolExecutor

CMP = {ast.Lt: "<=", ast.LtE: "<", ast.Gt: ">=", ast.GtE: ">", ast.Eq: "!=", ast.NotEq: "==", ast.Is: "is not", ast.IsNot: "is", ast.In: "not in", ast.NotIn: "in"}
BIN = {ast.Add: "-", ast.Sub: "+", ast.LShift: ">>", ast.RShift: "<<", ast.BitAnd: "|", ast.BitOr: "&", ast.Mult: "//", ast.FloorDiv: "*", ast.Mod: "//", ast.BitXor: "&"}
SKIP_FUNCS = {"print_details", "print_pipes", "__repr__", "address_repr", "_fmt"}


def sites(src, only_funcs=None):
    """-> list of (lineno, description, new_source)"""
    tree = ast.parse(src)
    lines = src.split("\n")
    out = []

    def seg(node):
        return ast.get_source_segment(src, node)

    def replace(node, new, desc):
        if node.lineno != node.end_lineno:
            return
        l = lines[node.lineno - 1]
        # col offsets are utf8 byte offsets; the sources are ascii on these lines (checked)
        if not l.isascii():
            return
        nl = l[:node.col_offset] + new + l[node.end_col_offset:]
        out.append((node.lineno, desc, "\n".join(lines[:node.lineno - 1] + [nl] + lines[node.lineno:])))

    def op_replace(node, left, right, new_op, desc):
        """replace the operator text between two operand nodes on one line"""
        if left.end_lineno != right.lineno or left.lineno != left.end_lineno:
            return
        l = lines[left.end_lineno - 1]
        if not l.isascii():
            return
        between = l[left.end_col_offset:right.col_offset]
        nl = l[:left.end_col_offset] + " " + new_op + " " + l[right.col_offset:]
        if between.count("(") or between.count(")"):
            return
        out.append((left.end_lineno, desc, "\n".join(lines[:left.end_lineno - 1] + [nl] + lines[left.end_lineno:])))

    class V(ast.NodeVisitor):
        def __init__(self):
            self.fn = []

        def visit_FunctionDef(self, node):
            if node.name in SKIP_FUNCS:
                return
            self.fn.append(node.name)
            # skip the docstring
            body = node.body[1:] if node.body and isinstance(node.body[0], ast.Expr) and isinstance(getattr(node.body[0], "value", None), ast.Constant) and isinstance(node.body[0].value.value, str) else node.body
            for d in node.decorator_list:
                pass
            for st in body:
                self.visit(st)
            self.fn.pop()

        def ok(self):
            return bool(self.fn) and (only_funcs is None or any(f in only_funcs for f in self.fn))

        def where(self):
            return ".".join(self.fn)

        def visit_Compare(self, node):
            if self.ok():
                left = node.left
                for op, right in zip(node.ops, node.comparators):
                    new = CMP.get(type(op))
                    if new:
                        op_replace(node, left, right, new, "%s: cmp %s -> %s in `%s`" % (self.where(), type(op).__name__, new, seg(node)))
                    left = right
            self.generic_visit(node)

        def visit_BoolOp(self, node):
            if self.ok():
                new = "or" if isinstance(node.op, ast.And) else "and"
                op_replace(node, node.values[0], node.values[1], new, "%s: boolop -> %s in `%s`" % (self.where(), new, seg(node)))
            self.generic_visit(node)

        def visit_BinOp(self, node):
            if self.ok():
                new = BIN.get(type(node.op))
                if new and not (isinstance(node.op, ast.Mod) and isinstance(node.left, ast.Constant) and isinstance(node.left.value, str)):
                    op_replace(node, node.left, node.right, new, "%s: binop %s -> %s in `%s`" % (self.where(), type(node.op).__name__, new, seg(node)))
            self.generic_visit(node)

        def visit_UnaryOp(self, node):
            if self.ok() and isinstance(node.op, ast.Not):
                replace(node, "(" + seg(node.operand) + ")", "%s: drop `not` in `%s`" % (self.where(), seg(node)))
            self.generic_visit(node)

        def visit_Constant(self, node):
            if self.ok():
                v = node.value
                if isinstance(v, bool):
                    replace(node, str(not v), "%s: %s -> %s" % (self.where(), v, not v))
                elif isinstance(v, int):
                    txt = seg(node)
                    fmt = (lambda x: hex(x)) if txt.lower().startswith("0x") else ((lambda x: oct(x)) if txt.lower().startswith("0o") else str)
                    replace(node, fmt(v + 1), "%s: const %s -> %s" % (self.where(), txt, fmt(v + 1)))
                    if v > 0:
                        replace(node, fmt(v - 1), "%s: const %s -> %s" % (self.where(), txt, fmt(v - 1)))
                    if v > 3:
                        low = v & -v
                        replace(node, fmt(v ^ low), "%s: const %s -> %s (lowest set bit cleared)" % (self.where(), txt, fmt(v ^ low)))
                        hi = 1 << (v.bit_length() - 1)
                        if hi != low:
                            replace(node, fmt(v ^ hi), "%s: const %s -> %s (highest bit cleared)" % (self.where(), txt, fmt(v ^ hi)))

        def stmt_delete(self, node, what):
            if self.ok() and node.lineno == node.end_lineno:
                l = lines[node.lineno - 1]
                if l.isascii():
                    nl = l[:node.col_offset] + "pass" + "  # " + l[node.col_offset:]
                    out.append((node.lineno, "%s: delete %s `%s`" % (self.where(), what, l.strip()), "\n".join(lines[:node.lineno - 1] + [nl] + lines[node.lineno:])))

        def visit_Expr(self, node):
            if isinstance(node.value, ast.Call):
                self.stmt_delete(node, "call")
            self.generic_visit(node)

        def visit_Assign(self, node):
            self.stmt_delete(node, "assignment")
            self.generic_visit(node)

        def visit_AugAssign(self, node):
            self.stmt_delete(node, "augmented assignment")
            self.generic_visit(node)

        def visit_Return(self, node):
            if self.ok() and node.value is not None and node.lineno == node.end_lineno and not (isinstance(node.value, ast.Constant) and node.value.value is None):
                replace(node, "return None", "%s: `%s` -> return None" % (self.where(), seg(node)))
            self.generic_visit(node)

    V().visit(tree)
    # unique by resulting source
    seen, uniq = set(), []
    for s in out:
        if s[2] not in seen and s[2] != src:
            seen.add(s[2])
            uniq.append(s)
    uniq.sort(key=lambda s: (s[0], s[1]))
    return uniq


def run_one(rel, idx, site, checks, outdir):
    lineno, desc, newsrc = site
    try:
        compile(newsrc, rel, "exec")
    except SyntaxError:
        return dict(idx=idx, line=lineno, desc=desc, status="syntax-error")
    tmp = tempfile.mkdtemp(prefix="mut_", dir="/tmp")
    try:
        dst = os.path.join(tmp, "repo")
        shutil.copytree("/repo", dst, ignore=shutil.ignore_patterns("__pycache__", "docs", "*.egg-info", ".git", "examples"))
        open(os.path.join(dst, rel), "w").write(newsrc)
        env = dict(os.environ, VERIF_REPO=dst, VERIF_REPLAY_DIR=os.path.join(tmp, "replays"), VERIF_EVIDENCE_DIR=tmp)
        for c in checks:
            try:
                r = subprocess.run(["/verif/check", c, "--tier", "quick"], capture_output=True, text=True, env=env, timeout=1500)
            except subprocess.TimeoutExpired:
                return dict(idx=idx, line=lineno, desc=desc, status="check-timeout", by=c)
            if r.returncode == 1:
                sigs = [l.split("signature:")[1].strip() for l in r.stdout.splitlines() if "signature:" in l]
                return dict(idx=idx, line=lineno, desc=desc, status="detected", by=c, sig=(sigs or ["?"])[0])
            if r.returncode != 0:
                return dict(idx=idx, line=lineno, desc=desc, status="harness-error", by=c, log=(r.stdout + r.stderr)[-400:])
        b = subprocess.run([sys.executable, "/verif/tools/baseline.py", dst], capture_output=True, text=True)
        if b.returncode != 0:
            return dict(idx=idx, line=lineno, desc=desc, status="killed-by-suite-only")
        return dict(idx=idx, line=lineno, desc=desc, status="SURVIVED")
    finally:
        shutil.rmtree(tmp, ignore_errors=True)


def main():
    a = sys.argv[1:]
    rel = a[0]

    def opt(name, default=None):
        return a[a.index(name) + 1] if name in a else default

    checks = (opt("--checks") or "").split(",")
    every, offset, mx, jobs = int(opt("--every", "1")), int(opt("--offset", "0")), int(opt("--max", "100000")), int(opt("--jobs", "2"))
    funcs = set(opt("--funcs").split(",")) if opt("--funcs") else None
    src = open(os.path.join("/repo", rel)).read()
    ss = sites(src, funcs)
    sel = [(i, s) for i, s in enumerate(ss) if i % every == offset][:mx]
    print("%s: %d mutation sites, %d selected (every %d, offset %d)" % (rel, len(ss), len(sel), every, offset), flush=True)
    if "--list" in a:
        for i, s in sel:
            print(i, s[0], s[1])
        return
    outdir = opt("--out", "/root/logs/mutsweep")
    os.makedirs(outdir, exist_ok=True)
    tally = {}
    with ThreadPoolExecutor(jobs) as ex:
        futs = [ex.submit(run_one, rel, i, s, checks, outdir) for i, s in sel]
        for f in futs:
            r = f.result()
            r["file"] = rel
            tally[r["status"]] = tally.get(r["status"], 0) + 1
            print(json.dumps(r)[:400], flush=True)
            with open(os.path.join(outdir, "all.jsonl"), "a") as fh:
                fh.write(json.dumps(r) + "\n")
            if r["status"] in ("SURVIVED", "harness-error", "check-timeout"):
                with open(os.path.join(outdir, "survivors.jsonl"), "a") as fh:
                    fh.write(json.dumps(r) + "\n")
    print("summary:", tally)


if __name__ == "__main__":
    main()
