#!/usr/bin/env python3
"""Run the repository's pinned test-suite (guard OFF; there are no hooks) on a tree and compare
the passing test ids with /root/.vp/BASELINE.json.  usage: baseline.py [repo_dir]"""
import json, os, subprocess, sys, tempfile
import xml.etree.ElementTree as ET

repo = sys.argv[1] if len(sys.argv) > 1 else "/repo"
base = json.load(open("/root/.vp/BASELINE.json"))
want = set(base["stable_pass"])
with tempfile.TemporaryDirectory() as td:
    xmlp = os.path.join(td, "j.xml")
    env = dict(os.environ, PYTHONDONTWRITEBYTECODE="1")
    env.pop("VERIF_REPO", None)
    r = subprocess.run(["/venv/bin/python", "-m", "pytest", "-q", "-p", "no:cacheprovider", "--timeout=900",
                        "--continue-on-collection-errors", "--junitxml=" + xmlp],
                       cwd=repo, env=dict(env, PYTHONPATH=repo), capture_output=True, text=True)
    got = set()
    for tc in ET.parse(xmlp).getroot().iter("testcase"):
        if not any(ch.tag in ("failure", "error", "skipped") for ch in tc):
            got.add(tc.get("classname") + "::" + tc.get("name"))
missing = sorted(want - got)
print("baseline: %d/%d stable tests pass%s" % (len(want & got), len(want), "" if not missing else "; NOT passing: " + ", ".join(missing[:10])))
sys.exit(1 if missing else 0)
