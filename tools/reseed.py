#!/usr/bin/env python3
"""reseed.py <seed id|all|escaped> [CHECK-ID[,..]] [--tier quick] [--jobs N]: re-run the quick checks against stored seeded
changes (patch applied to a scratch copy of /repo, never to /repo) and refresh the verdicts in
/verif/seeded/<id>/meta.json.  Suite / demo confirmation is not repeated (tools/seedcheck.py does that)."""
import glob, json, os, shutil, subprocess, sys, tempfile
from concurrent.futures import ThreadPoolExecutor

args = [a for a in sys.argv[1:]]
tier = "quick"
jobs = 1
if "--tier" in args:
    i = args.index("--tier"); tier = args[i + 1]; del args[i:i + 2]
if "--jobs" in args:
    i = args.index("--jobs"); jobs = int(args[i + 1]); del args[i:i + 2]
which = args[0]
ids_arg = args[1].split(",") if len(args) > 1 else None


def own_detected(m):
    c = m.get("checks", {}).get(m["property"])
    return bool(c) and c["verdict"] == "DETECTED"


seeds = []
for d in sorted(glob.glob("/verif/seeded/*/")):
    sid = os.path.basename(d.rstrip("/"))
    m = json.load(open(d + "meta.json"))
    if which == "all" or which == sid or (which == "escaped" and not own_detected(m)) or (which.endswith("*") and sid.startswith(which[:-1])):
        seeds.append((sid, d, m))


def one(item):
    sid, d, m = item
    ids = ids_arg or list(m.get("checks", {}).keys()) or [m["property"]]
    tmp = tempfile.mkdtemp(prefix="reseed_", dir="/tmp")
    try:
        dst = os.path.join(tmp, "repo")
        shutil.copytree("/repo", dst, ignore=shutil.ignore_patterns("__pycache__", "docs", "*.egg-info", ".git", "tests", "examples"))
        subprocess.run(["git", "init", "-q"], cwd=dst)
        r = subprocess.run(["git", "apply", "--whitespace=nowarn", os.path.join(d, "patch.diff")], cwd=dst, capture_output=True, text=True)
        if r.returncode:
            return sid, {"error": "patch does not apply: " + r.stderr[-300:]}
        env = dict(os.environ, VERIF_REPO=dst, VERIF_REPLAY_DIR=os.path.join(tmp, "replays"), VERIF_EVIDENCE_DIR=tmp)
        res = {}
        for i in ids:
            r = subprocess.run(["/verif/check", i, "--tier", tier], capture_output=True, text=True, env=env)
            sigs = [l.split("signature:")[1].strip() for l in r.stdout.splitlines() if "signature:" in l]
            res[i] = {"verdict": "DETECTED" if r.returncode == 1 else ("harness-error" if r.returncode != 0 else "ESCAPED"), "signatures": sigs[:8]}
            if r.returncode not in (0, 1):
                res[i]["log"] = (r.stdout + r.stderr)[-600:]
        m.setdefault("checks", {}).update(res)
        json.dump(m, open(d + "meta.json", "w"), indent=1)
        return sid, res
    finally:
        shutil.rmtree(tmp, ignore_errors=True)


with ThreadPoolExecutor(jobs) as ex:
    for sid, res in ex.map(one, seeds):
        print(sid, json.dumps({k: (v.get("verdict"), v.get("signatures", [])[:2], v.get("log", "")[-300:]) if isinstance(v, dict) else v for k, v in res.items()}))
