#!/usr/bin/env python3
"""print the markdown table of /verif/seeded/*/meta.json (for DESIGN.md section 9.4)"""
import json, glob, os
rows = []
for d in sorted(glob.glob("/verif/seeded/*/")):
    m = json.load(open(os.path.join(d, "meta.json")))
    sid = os.path.basename(d.rstrip("/"))
    checks = m.get("checks", {})
    verdict = "; ".join("%s %s%s" % (c, v["verdict"].lower(), (" (`%s`)" % v["signatures"][0]) if v.get("signatures") else "") for c, v in checks.items())
    rows.append("| %s | %s | %s | %s |" % (sid, (m.get("summary") or "").replace("|", "/")[:230], (m.get("needs") or "").replace("|", "/")[:200], verdict))
print("| seed | change | needs | verdict of the quick check(s) |\n|---|---|---|---|")
print("\n".join(rows))
