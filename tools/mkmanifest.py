#!/usr/bin/env python3
"""Regenerates /verif/MANIFEST.json from the table below (kept valid at all times)."""
import json, os, subprocess, sys
V = os.path.dirname(os.path.dirname(os.path.abspath(__file__)))
TB = "Trusted base: vf/sim.py (datasheet-derived nRF24L01+ model incl. Enhanced ShockBurst, shared air, SPI fronts, virtual time; self-tested by setup_cmd) and the reference model named in the evidence; CPython 3.12; bounds as stated in the evidence file."
CHECKS = {
 "C20": ("model_checking", "6 C20 / 9", "the C01 enumeration, C02 loss-tree DFS, C03 setter BFS, C08 pipe-0 BFS and C10 accessor BFS re-instantiated with rf24_lite.RF24 (through adafruit SPIDevice on a simulated busio bus) as transmitter, receiver and both, plus exhaustive enumeration of load_ack(len 0..33, pipe -1..6)",
         "The lite driver is held to the clauses C20 lists, within its documented reductions; clauses of the re-used harnesses that C20 does not extend to the lite driver are filtered by name and listed in the evidence."),
 "C01": ("model_checking", "6 C01 / 9", "exhaustive enumeration (E-ENUM) of configurations x payload lengths x buffer types x call forms, all short payload lists, per-pipe static length vectors, write() bursts, rejected payloads behind pending RX / failed TX payloads, transmitter / receiver pre-histories and bystander objects of the same class, executing the real RF24 objects on two simulated radios",
         "Every (length mode, payload length 0..40, buffer type, call form) and every pipe/width/rate/CRC/ack/channel/front combination at 3 lengths is executed on the real driver pair and compared with the datasheet-derived expectation; all payload lists up to depth 3; bursts of 1..5 write_only writes."),
 "C02": ("fault_enumeration", "6 C02 / 9", "stateless choice-replay DFS over loss decisions (packet lost / ACK lost / delivered per PTX transmission): complete trees when a call history allows <= 8 (thorough 10) transmissions, loss-kind switches bounded to 2 (thorough 3) otherwise, over a pruned grid of arc x ard x force_retry x mode x send_only x peer and all call histories of <= 2 (thorough 3) send()/send(list)/resend() calls; plus send() / resend() behind 1..3 payloads loaded with write(write_only=True)",
         "Every execution is judged against the simulated radios' ground truth: return values (incl. ACK payload bytes, one per list element), no transmission in flight at return, attempts made vs allowed, virtual-time bound from the retry configuration, and exactly the current call's payloads on the air between returns."),
 "C03": ("model_checking", "6 C03 / 9", "explicit-state BFS: every call sequence of length <= 2 (thorough 3) over a 227-call alphabet (all setters in all input forms incl. out-of-domain, all getters) on plus and non-plus radios, plus deduplicated BFS to depth 4/5 inside each register-sharing group; oracle = independent datasheet/documentation register model",
         "After every call the whole simulated register file must equal the reference prediction (encoding and foreign fields), no reserved/out-of-range value may have been written, every getter must return the value in effect, and leaving/re-entering the `with` block must not change any register (cache == radio)."),
 "C09": ("model_checking", "6 C09 / 9", "explicit-state BFS over `with` blocks of 2-3 real driver objects (RF24, FakeBLE, RF24Network, RF24Mesh) sharing one simulated radio: every block sequence of <= 3 (thorough 4) blocks with all call pairs in the first two blocks",
         "At every entry the register file right after __enter__ must equal the one at the end of that object's previous block (PWR_UP masked); after every exit PWR_UP is clear and CE low; the SPI log separates leaked from wrongly restored registers."),
 "C04": ("model_checking", "6 C04 / 9", "exhaustive enumeration of the routing transition system: all 781x780 (node, destination) states, next hop observed on the simulated air for every destination from 41 nodes (thorough: all), 781 really constructed nodes' registers for the listening map",
         "Every (node, destination) pair's next hop is identified as the unique (node, pipe) listening on the transmitted physical address and compared with an independent tree model; pipe-address injectivity over all 781x6 (node, pipe) pairs; multicast level addresses; 3 prefix/suffix sets x allow_multicast on/off."),
 "C05": ("model_checking", "6 C05 / 9", "enumeration of (topology, src, dst, length, type, API, fragmentation, timing class) plus deviation-bounded DFS over per-delivery poll latencies, every node a real network object on its own simulated MCU in a deterministic discrete-event world",
         "Every ordered pair of 3 topologies x 7 lengths (thorough 0..144) x timing classes is executed end to end; delivery exactly-once/intact/no bystander/return value/termination/listening post-condition judged from queues and the simulated air. One open known finding (fragmented routed contention)."),
 "C06": ("model_checking", "6 C06 / 9", "explicit-state BFS with state dedup over fragment delivery events (next/skip/twice/swap/restart/stray/dequeue) on the real FrameQueueFrag and through a real node's update() with frames injected over the simulated air",
         "All event sequences to depth 8 (thorough 11) over up to 3 senders with coinciding or different frame ids; every frame handed to the application must be byte-for-byte one complete sent message, at most once. One open known finding (duplicate stream re-delivered after dequeue)."),
 "C07": ("model_checking", "6 C07 / 9", "explicit-state BFS (depth 2 quick / 3 thorough) over public network/mesh calls x environment answers on deep-copied simulated worlds; post-condition read from the simulated hardware",
         "From 10 initial node configurations every sequence of API calls / injected frames x (next hop acks or not, NETWORK_ACK / lookup reply injected or not) up to the depth bound is executed on the real node object; after every call the radio must be powered, in RX, CE high, all six pipes on the node's reference addresses, EN_AA=0x3E, DYNPD=0x3F."),
 "C08": ("model_checking", "6 C08 / 9", "explicit-state BFS with canonical-state dedup over open/close pipe (addresses of full width, inside the TX address, and shorter than the width), open_tx_pipe, auto-ack, power and listen calls and a bystander object of the class, per address width; register oracle plus behavioural probes (ghost sender / ghost listener) on deep copies; CE/SPI log",
         "All call sequences to depth 6 / 5 (thorough 8 / 7) are executed on the real driver; RX clause at every listen=True, TX clause after every open_tx_pipe in TX mode, CE clause from the pin log."),
 "C10": ("model_checking", "6 C10 / 9", "explicit-state BFS with duplicate-state elimination over traffic events (ghost PTX/PRX: deliveries to pipes 0/1/5, ACKs, ACK payloads, failures) interleaved with every accessor call, depth 5 (thorough 7), in dynamic / static / mixed payload modes from empty, full and post-traffic FIFO states",
         "After every operation the radio must have changed exactly as documented (read-only accessors change nothing), returned values must equal the simulated FIFO / STATUS / OBSERVE_TX truth, the cached status must equal the last shifted-out STATUS, and the IRQ line must be asserted iff an enabled event is latched."),
 "C11": ("model_checking", "6 C11 / 9", "exhaustive enumeration of the header field domains (all 12-bit addresses, all ids, all type x reserved pairs) against an explicit little-endian reference codec, and of every message length 0..144 written by a real node to an acknowledging ghost, compared frame by frame with a reference fragment encoder / TMRh20-style reassembler",
         "pack/unpack byte layout, refusal of short buffers, on-air frame sequence, frame-id sharing, counters, last-fragment convention and restoration of the caller's header are checked on the complete enumerated domain."),
 "C12": ("model_checking", "6 C12 / 9", "explicit-state BFS vs a reference bounded duplicate-free FIFO over enqueue (fresh/duplicate/alternative/string-typed/mutated/reused frames), dequeue, peek, len, max_queue_size and fragmentation toggles on the real queue classes and through a real node",
         "All operation sequences to depth 7 (thorough 9); return values and complete queue contents compared with the reference after every step."),
 "C13": ("fault_enumeration", "6 C13 / 9", "stateless choice-replay DFS: every set of up to 3 / 2 (thorough 4 / 3) lost frame hops on routes of 1..8 hops, lost hardware ACKs as a third fault kind, all 256 types on a 2-hop route, cross traffic through a waiting origin (also with multicasting off), one header object used twice, in a deterministic multi-node discrete-event world",
         "Every failure point of every frame hop (message and NETWORK_ACK relays) is enumerated; NETWORK_ACK origination count/originator/addressee, how often it was loaded into the originator's radio (PID ground truth) against the number of deliveries, write()'s return value against the ground-truth arrival time, and the blocking bound are checked on every execution."),
 "C14": ("model_checking", "6 C14 / 9", "exhaustive enumeration of sender class x level x relay configuration x allow_multicast x length x timing class x pre-history in a 9-node discrete-event world; reference propagation model",
         "All combinations are executed with real nodes; receivers, levels, relays' re-broadcasts, absence of hardware ACKs / ACK requests and pipe-0 registers are compared with a reference propagation model; 18 pre-histories (unicast traffic, re-addressing, earlier same-type frames, back-to-back multicasts, full queues, an earlier or still pending routed acknowledged-type send), overridden multicast levels, a second population."),
 "C15": ("model_checking", "6 C15 / 9", "exhaustive enumeration of injected frames (256 types x lengths x destination classes x origin classes x environment) over 22 (role, level) nodes, frame pairs, raw short payloads, and the validity predicate over all 65 536 values, each on a deep copy of a real node with ghost radios",
         "update() must return normally in bounded virtual time for every frame; invalid/short frames must leave queue and air untouched; is_address_valid equals an independent predicate on every 16-bit value."),
 "C16": ("model_checking", "6 C16 / 9", "explicit-state BFS with dedup on the lease table over request (direct / via relays) / re-request / release / save+load events on a real RF24Mesh master with ghost requesters; persistence enumerated for every table size 0..255",
         "All event sequences to depth 5 (thorough 7) from 4 starting tables; every MESH_ADDR_RESPONSE on the simulated air and the table after every event are checked against the lease constraints."),
 "C17": ("model_checking", "6 C17 / 9", "schedule enumeration (join order x pairwise-distinct start offsets x timing classes) of real mesh nodes joining a real master in a deterministic discrete-event world, every enabled sequence of 4 (thorough 5) membership changes (join / release / renew) among three nodes followed by sends between all connected pairs and lookups, plus every single lost frame of small joins",
         "Every enumerated schedule is executed to completion; join results, master table, lookups (known/trivial/unknown), send-to-id, renew while connected, release and re-join are checked against the documented values, the scripted histories step by step against a reference of who is connected where; with one lost frame only no-exception/termination/valid-or-None."),
 "C18": ("model_checking", "6 C18 / 9", "exhaustive enumeration of names x PA field x chunk splits around the capacity boundary x channels, plus explicit-state BFS (depth 6, thorough 9) over hop_channel / channel= / name / PA / with-block histories; oracle = independent bit-serial BLE link-layer decoder applied to what reached the simulated radio",
         "Every produced payload is de-whitened for the channel the radio was tuned to at transmission and must be a correct ADV_NONCONN_IND PDU with correct CRC-24; len_available and the ValueError boundary are exact."),
 "C19": ("model_checking", "6 C19 / 9", "exhaustive enumeration over the simulated air of service-data domains, all 1-bit and (PDU-region / thorough: all) 2-bit corruptions - also each one right after the undamaged packet -, adversarial CRC-valid AD structures, queue interleavings and every sequence of 3 (4) attribute changes / advertisements on one sending object, against an independent BLE encoder/decoder",
         "Queued iff the reference accepts; decoded fields equal what was advertised; available() never raises; read() is FIFO, once each."),
}
NA = {}
def main():
    checks = []
    for pid, (cat, ref, tech, text) in sorted(CHECKS.items()):
        checks.append({
            "property_id": pid,
            "quick_cmd": "./check %s --tier quick" % pid,
            "thorough_cmd": "./check %s --tier thorough" % pid,
            "evidence_file": "/verif/evidence/%s.json" % pid,
            "replay_cmd_template": "./check %s --replay {path}" % pid,
            "engine": "vf",
            "level_claimed": {"category": cat, "text": text, "design_ref": "DESIGN.md section " + ref},
            "level_note": TB,
            "technique": tech,
        })
    allp = [json.loads(l)["id"] for l in open(os.path.join(V, "properties.jsonl"))]
    na = [{"property_id": p, "reason": NA.get(p, "check not built yet in this session (work in progress; see DESIGN.md section 8)")}
          for p in allp if p not in CHECKS]
    m = {
        "version": 1,
        "setup_cmd": "cd /verif && PYTHONDONTWRITEBYTECODE=1 /venv/bin/python -B vf/selftest.py",
        "hooks": {"guard": "NRF24_CIRCUITPYTHON_NRF24L01_VERIF", "enable": "no hooks: the checks import /repo's working tree unmodified and replace the `time` name of the library modules and the SPI/pin objects from the harness (vf/harness.py, vf/sim.py)",
                  "baseline_off_cmd": "cd /repo && /venv/bin/python -m pytest -ra -q -p no:cacheprovider --timeout=900 --continue-on-collection-errors",
                  "source_commits": [], "add_only": True},
        "engines": [{"name": "vf", "path": "/verif/vf", "serves_properties": sorted(CHECKS),
                     "kind_free_text": "hand-written explicit-state (BFS over deep-copied simulated worlds), stateless deviation-bounded (DFS choice replay) and exhaustive-enumeration explorers that execute the real library classes against a deterministic nRF24L01+ / air / SPI / time simulator"}],
        "checks": checks,
        "not_applicable": na,
        "notes": "Implementation-level model checking: every explored trace is an execution of the real code, so traces_validated_against_impl equals the number of executions. Known findings: /verif/KNOWN_FINDINGS.txt. Seeded mutants: /verif/seeded/.",
    }
    json.dump(m, open(os.path.join(V, "MANIFEST.json"), "w"), indent=1)
    r = subprocess.run(["python3-vt", "-c", "import json,jsonschema;jsonschema.validate(json.load(open('%s/MANIFEST.json')), json.load(open('/root/.vp/MANIFEST.schema.json')));print('MANIFEST valid: %d checks, %d not_applicable')" % (V, len(checks), len(na))])
    sys.exit(r.returncode)
main()
