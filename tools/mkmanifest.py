#!/usr/bin/env python3
"""Regenerates /verif/MANIFEST.json from the table below (kept valid at all times)."""
import json, os, subprocess, sys
V = os.path.dirname(os.path.dirname(os.path.abspath(__file__)))
TB = "Trusted base: vf/sim.py (datasheet-derived nRF24L01+ model incl. Enhanced ShockBurst, shared air, SPI fronts, virtual time; self-tested by setup_cmd) and the reference model named in the evidence; CPython 3.12; bounds as stated in the evidence file."
CHECKS = {
 "C01": ("model_checking", "6 C01", "exhaustive enumeration (E-ENUM) of configurations x payload lengths x buffer types x call forms and of all short payload lists, executing the real RF24 objects on two simulated radios",
         "Every (length mode, payload length 0..40, buffer type, call form) and every pipe/width/rate/CRC/ack/channel/front combination at 3 lengths is executed on the real driver pair and compared with the datasheet-derived expectation; all payload lists up to depth 3."),
 "C07": ("model_checking", "6 C07", "explicit-state BFS (depth 2 quick / 3 thorough) over public network/mesh calls x environment answers on deep-copied simulated worlds; post-condition read from the simulated hardware",
         "From 10 initial node configurations every sequence of API calls / injected frames x (next hop acks or not, NETWORK_ACK / lookup reply injected or not) up to the depth bound is executed on the real node object; after every call the radio must be powered, in RX, CE high, all six pipes on the node's reference addresses, EN_AA=0x3E, DYNPD=0x3F."),
 "C13": ("fault_enumeration", "6 C13", "stateless choice-replay DFS: every single (thorough: pair of) lost frame hop(s) on routes of 1..8 hops, all 256 types on a 2-hop route, in a deterministic multi-node discrete-event world",
         "Every failure point of every frame hop (message and NETWORK_ACK relays) is enumerated; NETWORK_ACK origination count/originator/addressee, write()'s return value against the ground-truth arrival time, and the blocking bound are checked on every execution."),
 "C14": ("model_checking", "6 C14", "exhaustive enumeration of sender class x level x relay configuration x allow_multicast x length x timing class in a 9-node discrete-event world; reference propagation model",
         "All combinations are executed with real nodes; receivers, levels, relays' re-broadcasts, absence of hardware ACKs / ACK requests and pipe-0 registers are compared with a reference propagation model."),
 "C17": ("model_checking", "6 C17", "schedule enumeration (join order x pairwise-distinct start offsets x timing classes) of real mesh nodes joining a real master in a deterministic discrete-event world, plus every single lost frame of small joins",
         "Every enumerated schedule is executed to completion; join results, master table, lookups (known/trivial/unknown), send-to-id, release and re-join are checked against the documented values; with one lost frame only no-exception/termination/valid-or-None."),
}
NA = {}
def main():
    checks = []
    for pid, (cat, ref, tech, text) in sorted(CHECKS.items()):
        checks.append({
            "property_id": pid,
            "quick_cmd": "./check %s --tier quick" % pid,
            "thorough_cmd": "./check %s --tier thorough" % pid,
            "evidence_file": "/verif/evidence/%s.json" % pid,
            "replay_cmd_template": "./check %s --replay {path}" % pid,
            "engine": "vf",
            "level_claimed": {"category": cat, "text": text, "design_ref": "DESIGN.md section " + ref},
            "level_note": TB,
            "technique": tech,
        })
    allp = [json.loads(l)["id"] for l in open(os.path.join(V, "properties.jsonl"))]
    na = [{"property_id": p, "reason": NA.get(p, "check not built yet in this session (work in progress; see DESIGN.md section 8)")}
          for p in allp if p not in CHECKS]
    m = {
        "version": 1,
        "setup_cmd": "cd /verif && PYTHONDONTWRITEBYTECODE=1 /venv/bin/python -B vf/selftest.py",
        "hooks": {"guard": "NRF24_CIRCUITPYTHON_NRF24L01_VERIF", "enable": "no hooks: the checks import /repo's working tree unmodified and replace the `time` name of the library modules and the SPI/pin objects from the harness (vf/harness.py, vf/sim.py)",
                  "baseline_off_cmd": "cd /repo && /venv/bin/python -m pytest -ra -q -p no:cacheprovider --timeout=900 --continue-on-collection-errors",
                  "source_commits": [], "add_only": True},
        "engines": [{"name": "vf", "path": "/verif/vf", "serves_properties": sorted(CHECKS),
                     "kind_free_text": "hand-written explicit-state (BFS over deep-copied simulated worlds), stateless deviation-bounded (DFS choice replay) and exhaustive-enumeration explorers that execute the real library classes against a deterministic nRF24L01+ / air / SPI / time simulator"}],
        "checks": checks,
        "not_applicable": na,
        "notes": "Implementation-level model checking: every explored trace is an execution of the real code, so traces_validated_against_impl equals the number of executions. Known findings: /verif/KNOWN_FINDINGS.txt. Seeded mutants: /verif/seeded/.",
    }
    json.dump(m, open(os.path.join(V, "MANIFEST.json"), "w"), indent=1)
    r = subprocess.run(["python3-vt", "-c", "import json,jsonschema;jsonschema.validate(json.load(open('%s/MANIFEST.json')), json.load(open('/root/.vp/MANIFEST.schema.json')));print('MANIFEST valid: %d checks, %d not_applicable')" % (V, len(checks), len(na))])
    sys.exit(r.returncode)
main()
