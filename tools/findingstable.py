#!/usr/bin/env python3
"""print the markdown tables of KNOWN_FINDINGS.txt (for DESIGN.md section 9.3)"""
import re, subprocess
fixed, opened = [], []
for l in open("/verif/KNOWN_FINDINGS.txt"):
    l = l.strip()
    if l.startswith("fixed:"):
        m = re.match(r"fixed: property=(\S+) (\S+) (.*)", l)
        subj = subprocess.run(["git", "-C", "/repo", "log", "--format=%s", "-1", m.group(2)], capture_output=True, text=True).stdout.strip()
        fixed.append((m.group(1), m.group(2), subj, m.group(3)))
    elif l.startswith("open:"):
        m = re.match(r"open: property=(\S+) sig=(\S+) (.*)", l)
        opened.append(m.groups())
print("| property | commit in /repo | what failed (failing input / history; signatures) |\n|---|---|---|")
for p, c, subj, what in sorted(fixed):
    print("| %s | `%s` %s | %s |" % (p, c, subj.replace("|", "/"), what.replace("|", "/")))
print()
print("| property | signature | what fails |\n|---|---|---|")
for p, sig, what in opened:
    print("| %s | `%s` | %s |" % (p, sig, what.replace("|", "/")))
