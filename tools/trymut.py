#!/usr/bin/env python3
"""Try one textual mutant: trymut.py <CHECK-ID[,ID...]> <file relative to repo> <old> <new> [--count N]
Copies /repo to a scratch dir, replaces `old` by `new` (must occur exactly once unless --count),
runs the pinned test-suite and the quick check(s) against the copy, prints a one-line verdict."""
import os, shutil, subprocess, sys, tempfile
ids, rel, old, new = sys.argv[1].split(","), sys.argv[2], sys.argv[3], sys.argv[4]
count = int(sys.argv[sys.argv.index("--count") + 1]) if "--count" in sys.argv else 1
tmp = tempfile.mkdtemp(prefix="mut_", dir="/tmp")
dst = os.path.join(tmp, "repo")
shutil.copytree("/repo", dst, ignore=shutil.ignore_patterns(".git", "__pycache__", "docs", "*.egg-info"))
p = os.path.join(dst, rel)
s = open(p).read()
old = old.encode().decode("unicode_escape"); new = new.encode().decode("unicode_escape")
if s.count(old) != count:
    print("MUTANT-ERROR: pattern occurs %d times" % s.count(old)); shutil.rmtree(tmp); sys.exit(2)
open(p, "w").write(s.replace(old, new))
b = subprocess.run([sys.executable, "/verif/tools/baseline.py", dst], capture_output=True, text=True)
tests = "tests-pass" if b.returncode == 0 else "TESTS-FAIL(" + b.stdout.strip()[-120:] + ")"
env = dict(os.environ, VERIF_REPO=dst, VERIF_REPLAY_DIR=os.path.join(tmp, "replays"), VERIF_EVIDENCE_DIR=tmp)
for i in ids:
    r = subprocess.run(["/verif/check", i], capture_output=True, text=True, env=env)
    sigs = [l.split("signature:")[1].strip() for l in r.stdout.splitlines() if "signature:" in l]
    print("%s %s rc=%d %s sigs=%s" % (i, tests, r.returncode, "DETECTED" if r.returncode == 1 else ("harness-error" if r.returncode == 2 else "ESCAPED"), sigs[:6]))
    if r.returncode == 2: print(r.stdout[-1500:], r.stderr[-1500:])
shutil.rmtree(tmp)
